/-
Meta-theory of the declarative semantics `Spec` (Model/Spec.lean) used by C23: how `Spec.rows`
changes under the syntactic transformations of `Model/Transform.lean`.

Organisation
* §1 `flatMapR` and the linearity of `evalFields` in its list of assignments;
* §2 a generic congruence: a relation between the results of a *family* of nodes that differ only
  at the end of a path propagates from the end of the path to the root, as long as the path crosses
  no `@fold` (and, in the strict variant, no `@optional`);
* §3 the instances: sublist (add a filter, lower a recursion depth, plain ⊑ optional) and
  interleaving (a filter and its complement);
* §4 equalities that hold through every context (`=` ↔ `one_of` singleton, parameterised edge as a
  filter);
* §5 renaming of outputs and tags;
* §6 reordering of sibling selections.

Core Lean only.
-/
import TrustfallModel.Model.Transform
import TrustfallModel.Proofs.Filter

namespace TF.SpecMeta
open TF TF.Engine TF.Spec TF.Transform

/-! ## §1 basic facts -/

/-- The value of a successful result, `[]` otherwise. -/
def okOr {α : Type} : R (List α) → List α
  | .ok l => l
  | _ => []

@[simp] theorem okOr_ok {α : Type} (l : List α) : okOr (R.ok l) = l := rfl

theorem eq_ok_okOr {α : Type} {r : R (List α)} {l : List α} (h : r = .ok l) : r = .ok (okOr r) := by
  subst h; rfl

theorem flatMapR_cons_ok {α β : Type} {f : α → R (List β)} {x : α} {xs : List α} {L : List β} :
    flatMapR f (x :: xs) = .ok L ↔
      ∃ l1 l2, f x = .ok l1 ∧ flatMapR f xs = .ok l2 ∧ L = l1 ++ l2 := by
  simp only [flatMapR]
  cases f x <;> cases flatMapR f xs <;> simp
  · exact eq_comm

theorem flatMapR_append_ok {α β : Type} {f : α → R (List β)} {xs ys : List α} {L : List β} :
    flatMapR f (xs ++ ys) = .ok L ↔
      ∃ l1 l2, flatMapR f xs = .ok l1 ∧ flatMapR f ys = .ok l2 ∧ L = l1 ++ l2 := by
  induction xs generalizing L with
  | nil => simp [flatMapR]
  | cons x xs ih =>
    simp only [List.cons_append, flatMapR_cons_ok, ih]
    constructor
    · rintro ⟨l1, l2, h1, ⟨m1, m2, h2, h3, rfl⟩, rfl⟩
      exact ⟨l1 ++ m1, m2, ⟨l1, m1, h1, h2, rfl⟩, h3, by simp⟩
    · rintro ⟨l1, l2, ⟨m1, m2, h1, h2, rfl⟩, h3, rfl⟩
      exact ⟨m1, m2 ++ l2, h1, ⟨m2, l2, h2, h3, rfl⟩, by simp⟩

theorem flatMapR_ok {α β : Type} {f : α → R (List β)} {xs : List α} {L : List β}
    (h : flatMapR f xs = .ok L) :
    (∀ x ∈ xs, f x = .ok (okOr (f x))) ∧ L = xs.flatMap (fun x => okOr (f x)) := by
  induction xs generalizing L with
  | nil => simp [flatMapR] at h; simp [h]
  | cons x xs ih =>
    obtain ⟨l1, l2, h1, h2, rfl⟩ := flatMapR_cons_ok.mp h
    obtain ⟨ih1, ih2⟩ := ih h2
    constructor
    · intro y hy
      rcases List.mem_cons.mp hy with rfl | hy
      · exact eq_ok_okOr h1
      · exact ih1 y hy
    · simp [h1, ← ih2]

theorem flatMapR_of_ok {α β : Type} {f : α → R (List β)} {xs : List α}
    (h : ∀ x ∈ xs, ∃ l, f x = .ok l) : flatMapR f xs = .ok (xs.flatMap fun x => okOr (f x)) := by
  induction xs with
  | nil => rfl
  | cons x xs ih =>
    obtain ⟨l, hl⟩ := h x (by simp)
    rw [flatMapR_cons_ok]
    exact ⟨l, _, hl, ih (fun y hy => h y (by simp [hy])), by simp [hl]⟩

theorem flatMapR_congr {α β : Type} {f g : α → R (List β)} {xs : List α}
    (h : ∀ x ∈ xs, f x = g x) : flatMapR f xs = flatMapR g xs := by
  induction xs with
  | nil => rfl
  | cons x xs ih =>
    simp only [flatMapR]
    rw [h x (by simp), ih (fun y hy => h y (by simp [hy]))]

theorem flatMapR_singleton {α β : Type} (f : α → R (List β)) (x : α) :
    flatMapR f [x] = match f x with
      | .ok l => .ok l
      | .panic s => .panic s
      | .fuel => .fuel := by
  simp only [flatMapR]
  cases f x <;> simp

/-! ### uniform unfoldings of the mutual block -/

def coercionOk (env : SpecEnv) (ct : Option Name) (v : Option VertexId) : Bool :=
  match ct, v with
  | some t, some x => env.data.isA x t
  | _, _ => true

def ownersOf (env : SpecEnv) (v : Option VertexId) : List Name :=
  match v with
  | some x => env.data.supers (env.data.typeOf x)
  | none => []

/-- What `evalNode` does once the property filters have been decided. -/
def afterFilters (env : SpecEnv) (fuel : Nat) (fields : List QField) (v : Option VertexId)
    (a1 : Asg) : R Bool → R (List Asg)
  | .ok true => evalFields env fuel (ownersOf env v) fields v [a1]
  | .ok false => .ok []
  | .panic s => .panic s
  | .fuel => .fuel

theorem evalNode_succ (env : SpecEnv) (fuel : Nat) (ct : Option Name) (fields : List QField)
    (v : Option VertexId) (a : Asg) :
    evalNode env (fuel + 1) (.mk ct fields) v a =
      if coercionOk env ct v then
        afterFilters env fuel fields v (bindProps env v fields a)
          (propFiltersHold env (bindProps env v fields a) v fields)
      else .ok [] := by
  cases ct with
  | none =>
    cases v <;> simp only [evalNode, coercionOk] <;> generalize propFiltersHold env _ _ _ = r <;>
      rcases r with (_ | _) | _ | _ <;> simp [afterFilters, ownersOf]
  | some t =>
    cases v with
    | none =>
      simp only [evalNode, coercionOk]; generalize propFiltersHold env _ _ _ = r
      rcases r with (_ | _) | _ | _ <;> simp [afterFilters, ownersOf]
    | some x =>
      simp only [evalNode, coercionOk]; generalize propFiltersHold env _ _ _ = r
      by_cases h : env.data.isA x t = true <;> rcases r with (_ | _) | _ | _ <;>
        simp [afterFilters, ownersOf, h]

theorem evalNode_zero (env : SpecEnv) (n : QNode) (v : Option VertexId) (a : Asg) :
    evalNode env 0 n v a = .fuel := by
  simp [evalNode]

/-- The neighbours an edge expands to at `v`. -/
def edgeNbrs (env : SpecEnv) (owners : List Name) (name : Name) (params : Params)
    (v : Option VertexId) : List VertexId :=
  env.data.nbrsOpt v name (completeParams (declParams env owners name) params)

theorem evalEdge_plain (env : SpecEnv) (fuel : Nat) (owners : List Name) (name : Name)
    (params : Params) (child : QNode) (v : Option VertexId) (a : Asg) :
    evalEdge env fuel owners name params .plain child v a =
      match v with
      | none => evalNode env fuel child none a
      | some _ => flatMapR (fun n => evalNode env fuel child (some n) a)
          (edgeNbrs env owners name params v) := by
  cases v <;> simp [evalEdge, edgeNbrs]

theorem evalEdge_optional (env : SpecEnv) (fuel : Nat) (owners : List Name) (name : Name)
    (params : Params) (child : QNode) (v : Option VertexId) (a : Asg) :
    evalEdge env fuel owners name params .optional child v a =
      if (edgeNbrs env owners name params v).isEmpty then evalNode env fuel child none a
      else flatMapR (fun n => evalNode env fuel child (some n) a)
          (edgeNbrs env owners name params v) := by
  simp [evalEdge, edgeNbrs]

theorem evalEdge_recurse (env : SpecEnv) (fuel : Nat) (owners : List Name) (name : Name)
    (params : Params) (d : Nat) (child : QNode) (v : Option VertexId) (a : Asg) :
    evalEdge env fuel owners name params (.recurse d) child v a =
      match v with
      | none => evalNode env fuel child none a
      | some x => flatMapR (fun n => evalNode env fuel child (some n) a)
          (reachDecl env name params d x) := by
  cases v <;> simp [evalEdge]

theorem evalFields_nil (env : SpecEnv) (fuel : Nat) (owners : List Name) (v : Option VertexId)
    (as : List Asg) : evalFields env fuel owners [] v as = .ok as := by
  simp [evalFields]

theorem evalFields_prop (env : SpecEnv) (fuel : Nat) (owners : List Name) (nm : Name)
    (dirs : List Dir) (rest : List QField) (v : Option VertexId) (as : List Asg) :
    evalFields env fuel owners (.prop nm dirs :: rest) v as = evalFields env fuel owners rest v as := by
  rw [evalFields]

theorem evalFields_edge (env : SpecEnv) (fuel : Nat) (owners : List Name) (nm : Name) (ps : Params)
    (k : Kind) (c : QNode) (rest : List QField) (v : Option VertexId) (as : List Asg) :
    evalFields env fuel owners (.edge nm ps k c :: rest) v as =
      match flatMapR (fun a => evalEdge env fuel owners nm ps k c v a) as with
      | .ok as' => evalFields env fuel owners rest v as'
      | .panic s => .panic s
      | .fuel => .fuel := by
  rw [evalFields]
  cases flatMapR (fun a => evalEdge env fuel owners nm ps k c v a) as <;> rfl

/-- One field at a time. -/
theorem evalFields_cons (env : SpecEnv) (fuel : Nat) (owners : List Name) (fld : QField)
    (rest : List QField) (v : Option VertexId) (as : List Asg) :
    evalFields env fuel owners (fld :: rest) v as =
      match evalFields env fuel owners [fld] v as with
      | .ok as' => evalFields env fuel owners rest v as'
      | .panic s => .panic s
      | .fuel => .fuel := by
  cases fld with
  | prop nm dirs => simp [evalFields_prop, evalFields_nil]
  | edge nm ps k c =>
    simp only [evalFields_edge, evalFields_nil]
    cases flatMapR (fun a => evalEdge env fuel owners nm ps k c v a) as <;> rfl

theorem evalFields_cons_ok {env : SpecEnv} {fuel : Nat} {owners : List Name} {fld : QField}
    {rest : List QField} {v : Option VertexId} {as L : List Asg} :
    evalFields env fuel owners (fld :: rest) v as = .ok L ↔
      ∃ M, evalFields env fuel owners [fld] v as = .ok M ∧ evalFields env fuel owners rest v M = .ok L := by
  rw [evalFields_cons]
  cases evalFields env fuel owners [fld] v as <;> simp

theorem evalFields_single_edge (env : SpecEnv) (fuel : Nat) (owners : List Name) (nm : Name)
    (ps : Params) (k : Kind) (c : QNode) (v : Option VertexId) (as : List Asg) :
    evalFields env fuel owners [.edge nm ps k c] v as =
      flatMapR (fun a => evalEdge env fuel owners nm ps k c v a) as := by
  simp only [evalFields_edge, evalFields_nil]
  cases flatMapR (fun a => evalEdge env fuel owners nm ps k c v a) as <;> rfl

/-- `evalFields` is a list homomorphism in its assignments (on successful results). -/
theorem evalFields_append_ok {env : SpecEnv} {fuel : Nat} {owners : List Name} {fs : List QField}
    {v : Option VertexId} {X Y L : List Asg} :
    evalFields env fuel owners fs v (X ++ Y) = .ok L ↔
      ∃ L1 L2, evalFields env fuel owners fs v X = .ok L1 ∧
        evalFields env fuel owners fs v Y = .ok L2 ∧ L = L1 ++ L2 := by
  induction fs generalizing X Y L with
  | nil => simp [evalFields_nil, eq_comm]
  | cons fld rest ih =>
    cases fld with
    | prop nm dirs => simp only [evalFields_prop]; exact ih
    | edge nm ps k c =>
      simp only [evalFields_edge]
      constructor
      · intro h
        cases hxy : flatMapR (fun a => evalEdge env fuel owners nm ps k c v a) (X ++ Y) with
        | ok Z =>
          rw [hxy] at h
          obtain ⟨Z1, Z2, hz1, hz2, rfl⟩ := flatMapR_append_ok.mp hxy
          obtain ⟨L1, L2, h1, h2, rfl⟩ := ih.mp h
          exact ⟨L1, L2, by simp [hz1, h1], by simp [hz2, h2], rfl⟩
        | panic s => rw [hxy] at h; cases h
        | fuel => rw [hxy] at h; cases h
      · rintro ⟨L1, L2, h1, h2, rfl⟩
        cases hx : flatMapR (fun a => evalEdge env fuel owners nm ps k c v a) X with
        | ok Z1 =>
          cases hy : flatMapR (fun a => evalEdge env fuel owners nm ps k c v a) Y with
          | ok Z2 =>
            rw [hx] at h1; rw [hy] at h2
            have := flatMapR_append_ok.mpr ⟨Z1, Z2, hx, hy, rfl⟩
            rw [this]
            exact ih.mpr ⟨L1, L2, h1, h2, rfl⟩
          | panic s => rw [hy] at h2; cases h2
          | fuel => rw [hy] at h2; cases h2
        | panic s => rw [hx] at h1; cases h1
        | fuel => rw [hx] at h1; cases h1

theorem evalFields_no_asgs (env : SpecEnv) (fuel : Nat) (owners : List Name) (fs : List QField)
    (v : Option VertexId) : evalFields env fuel owners fs v [] = .ok [] := by
  induction fs with
  | nil => simp [evalFields_nil]
  | cons fld rest ih =>
    cases fld with
    | prop nm dirs => simpa [evalFields_prop] using ih
    | edge nm ps k c => simpa [evalFields_edge, flatMapR] using ih

/-- The continuation "evaluate the fields `fs` from one assignment", as a total function. -/
def contOf (env : SpecEnv) (fuel : Nat) (owners : List Name) (fs : List QField)
    (v : Option VertexId) (a : Asg) : List Asg :=
  okOr (evalFields env fuel owners fs v [a])

theorem evalFields_ok_flatMap {env : SpecEnv} {fuel : Nat} {owners : List Name} {fs : List QField}
    {v : Option VertexId} {as L : List Asg} (h : evalFields env fuel owners fs v as = .ok L) :
    (∀ a ∈ as, evalFields env fuel owners fs v [a] = .ok (contOf env fuel owners fs v a)) ∧
      L = as.flatMap (contOf env fuel owners fs v) := by
  induction as generalizing L with
  | nil =>
    rw [evalFields_no_asgs] at h; cases h; simp
  | cons a as ih =>
    have h' : evalFields env fuel owners fs v ([a] ++ as) = .ok L := h
    obtain ⟨L1, L2, h1, h2, rfl⟩ := evalFields_append_ok.mp h'
    obtain ⟨ih1, ih2⟩ := ih h2
    constructor
    · intro b hb
      rcases List.mem_cons.mp hb with rfl | hb
      · simp [contOf, h1]
      · exact ih1 b hb
    · simp [contOf, h1, ← ih2]

/-! ### edges do not influence the properties of their own vertex -/

/-- A rewriting of fields that leaves property selections alone and maps edges to edges. -/
def PropsFixed (g : QField → QField) : Prop :=
  (∀ nm dirs, g (.prop nm dirs) = .prop nm dirs) ∧ (∀ nm ps k c, isProp (g (.edge nm ps k c)) = false)

theorem PropsFixed.onChild (h : QNode → QNode) : PropsFixed (onChild h) :=
  ⟨fun _ _ => rfl, fun _ _ _ _ => rfl⟩

theorem PropsFixed.id : PropsFixed id := ⟨fun _ _ => rfl, fun _ _ _ _ => rfl⟩

theorem bindProps_edge_like (env : SpecEnv) (v : Option VertexId) (fld : QField)
    (h : isProp fld = false) (rest : List QField) (a : Asg) :
    bindProps env v (fld :: rest) a = bindProps env v rest a := by
  cases fld with
  | prop nm dirs => simp [isProp] at h
  | edge nm ps k c => simp [bindProps]

theorem propFiltersHold_edge_like (env : SpecEnv) (v : Option VertexId) (fld : QField)
    (h : isProp fld = false) (rest : List QField) (a : Asg) :
    propFiltersHold env a v (fld :: rest) = propFiltersHold env a v rest := by
  cases fld with
  | prop nm dirs => simp [isProp] at h
  | edge nm ps k c => simp [propFiltersHold]

theorem bindProps_modify (env : SpecEnv) (v : Option VertexId) {g : QField → QField}
    (hg : PropsFixed g) (fields : List QField) (j : Nat) (a : Asg) :
    bindProps env v (fields.modify j g) a = bindProps env v fields a := by
  induction fields generalizing j a with
  | nil => simp
  | cons fld rest ih =>
    cases j with
    | zero =>
      cases fld with
      | prop nm dirs => simp [List.modify_zero_cons, hg.1]
      | edge nm ps k c =>
        rw [List.modify_zero_cons, bindProps_edge_like env v _ (hg.2 nm ps k c)]
        simp [bindProps]
    | succ j =>
      cases fld <;> simp only [List.modify_succ_cons, bindProps] <;> exact ih _ _

theorem propFiltersHold_modify (env : SpecEnv) (v : Option VertexId) {g : QField → QField}
    (hg : PropsFixed g) (fields : List QField) (j : Nat) (a : Asg) :
    propFiltersHold env a v (fields.modify j g) = propFiltersHold env a v fields := by
  induction fields generalizing j with
  | nil => simp
  | cons fld rest ih =>
    cases j with
    | zero =>
      cases fld with
      | prop nm dirs => simp [List.modify_zero_cons, hg.1]
      | edge nm ps k c =>
        rw [List.modify_zero_cons, propFiltersHold_edge_like env v _ (hg.2 nm ps k c)]
        simp [propFiltersHold]
    | succ j =>
      cases fld <;> simp only [List.modify_succ_cons, propFiltersHold]
      · rw [ih]
      · exact ih _

/-! ## §2 the generic congruence along a path

`ι` indexes a family of variants of one query (2 for "before/after", 3 for "q, q+f, q+¬f").  A
`ListRel ι` is a relation between the members of a family of assignment lists that is compatible
with the way `Spec` builds its result: empty lists, concatenation, and continuing every member of
the family with the *same* (good) continuation. -/

structure ListRel (ι : Type) where
  Rel : (ι → List Asg) → Prop
  /-- the continuations the relation is preserved by -/
  Good : (Asg → List Asg) → Prop
  nil : Rel (fun _ => [])
  append : ∀ {F G : ι → List Asg}, Rel F → Rel G → Rel (fun i => F i ++ G i)
  flatMap : ∀ {F : ι → List Asg} {g : Asg → List Asg}, Good g → Rel F →
    Rel (fun i => (F i).flatMap g)

/-- The relation lifted to results: it is required when *all* members of the family succeed. -/
def RelR {ι : Type} (S : ListRel ι) (X : ι → R (List Asg)) : Prop :=
  ∀ L : ι → List Asg, (∀ i, X i = .ok (L i)) → S.Rel L

theorem RelR_of_not_ok {ι : Type} (S : ListRel ι) (X : ι → R (List Asg)) (i : ι) (h : ∀ l, X i ≠ .ok l) :
    RelR S X := fun _ hL => absurd (hL i) (h _)

theorem ListRel.flatMap_family {ι : Type} (S : ListRel ι) {α : Type} (m : ι → α → List Asg) (xs : List α)
    (h : ∀ x ∈ xs, S.Rel (fun i => m i x)) : S.Rel (fun i => xs.flatMap (m i)) := by
  induction xs with
  | nil => simpa using S.nil
  | cons x xs ih =>
    simp only [List.flatMap_cons]
    exact S.append (h x (by simp)) (ih fun y hy => h y (by simp [hy]))

variable {ι : Type} [Inhabited ι]

omit [Inhabited ι] in
theorem RelR_flatMapR (S : ListRel ι) {α : Type} (f : ι → α → R (List Asg)) (xs : List α)
    (h : ∀ x ∈ xs, RelR S (fun i => f i x)) : RelR S (fun i => flatMapR (f i) xs) := by
  intro L hL
  have hL' : L = fun i => xs.flatMap (fun x => okOr (f i x)) := by
    funext i; exact (flatMapR_ok (hL i)).2
  rw [hL']
  apply S.flatMap_family
  intro x hx
  exact h x hx _ (fun i => (flatMapR_ok (hL i)).1 x hx)

/-- Lemma A: a family of field lists that differ in one field. -/
theorem RelR_evalFields_modify (S : ListRel ι) (env : SpecEnv) (fuel : Nat) (owners : List Name)
    (v : Option VertexId) (g : ι → QField → QField)
    (hgood : ∀ rest, S.Good (contOf env fuel owners rest v))
    (fields : List QField) (j : Nat) (fld : QField) (hj : fields[j]? = some fld)
    (hloc : ∀ a, RelR S (fun i => evalFields env fuel owners [g i fld] v [a])) (as : List Asg) :
    RelR S (fun i => evalFields env fuel owners (fields.modify j (g i)) v as) := by
  induction fields generalizing j as with
  | nil => simp at hj
  | cons f0 rest ih =>
    cases j with
    | zero =>
      simp only [List.getElem?_cons_zero, Option.some.injEq] at hj
      subst hj
      intro L hL
      simp only [List.modify_zero_cons] at hL
      -- the modified field, then the common rest
      have hM : ∀ i, ∃ M, evalFields env fuel owners [g i f0] v as = .ok M ∧
          evalFields env fuel owners rest v M = .ok (L i) := fun i => evalFields_cons_ok.mp (hL i)
      let M : ι → List Asg := fun i => okOr (evalFields env fuel owners [g i f0] v as)
      have hM1 : ∀ i, evalFields env fuel owners [g i f0] v as = .ok (M i) := fun i => by
        obtain ⟨M', h1, _⟩ := hM i; exact eq_ok_okOr h1
      have hM2 : ∀ i, evalFields env fuel owners rest v (M i) = .ok (L i) := fun i => by
        obtain ⟨M', h1, h2⟩ := hM i
        have : M i = M' := by simp [M, h1]
        rw [this]; exact h2
      have hRelM : S.Rel M := by
        have hMi : M = fun i => as.flatMap (contOf env fuel owners [g i f0] v) := by
          funext i; exact (evalFields_ok_flatMap (hM1 i)).2
        rw [hMi]
        apply S.flatMap_family
        intro a ha
        exact hloc a _ (fun i => (evalFields_ok_flatMap (hM1 i)).1 a ha)
      have hLi : L = fun i => (M i).flatMap (contOf env fuel owners rest v) := by
        funext i; exact (evalFields_ok_flatMap (hM2 i)).2
      rw [hLi]
      exact S.flatMap (hgood rest) hRelM
    | succ j =>
      simp only [List.getElem?_cons_succ] at hj
      intro L hL
      simp only [List.modify_succ_cons] at hL
      obtain ⟨M, hM1, _⟩ := evalFields_cons_ok.mp (hL default)
      apply ih j hj M L
      intro i
      obtain ⟨M', h1, h2⟩ := evalFields_cons_ok.mp (hL i)
      rw [hM1] at h1; cases h1; exact h2

/-- The kinds a path may cross: no fold, and in strict mode no optional. -/
def pathKind (strict : Bool) : Kind → Bool := if strict then notFoldOpt else notFold

omit [Inhabited ι] in
/-- Lemma B: a family of edges that differ in their child node. -/
theorem RelR_evalEdge (S : ListRel ι) (env : SpecEnv) (strict : Bool) (fuel : Nat)
    (owners : List Name) (nm : Name) (ps : Params) (k : Kind) (hk : pathKind strict k = true)
    (c : ι → QNode)
    (hc : ∀ v a, (strict = true → v.isSome = true) → RelR S (fun i => evalNode env fuel (c i) v a))
    (v : Option VertexId) (a : Asg) (hv : strict = true → v.isSome = true) :
    RelR S (fun i => evalEdge env fuel owners nm ps k (c i) v a) := by
  cases k with
  | plain =>
    simp only [evalEdge_plain]
    cases v with
    | none => exact hc none a hv
    | some x => exact RelR_flatMapR S _ _ (fun n _ => hc (some n) a (fun _ => rfl))
  | optional =>
    have hs : strict = false := by
      cases strict <;> simp [pathKind, notFoldOpt, Kind.isOptional] at hk ⊢
    simp only [evalEdge_optional]
    split
    · exact hc none a (by simp [hs])
    · exact RelR_flatMapR S _ _ (fun n _ => hc (some n) a (fun _ => rfl))
  | recurse d =>
    simp only [evalEdge_recurse]
    cases v with
    | none => exact hc none a hv
    | some x => exact RelR_flatMapR S _ _ (fun n _ => hc (some n) a (fun _ => rfl))
  | fold fds =>
    cases strict <;> simp [pathKind, notFoldOpt, notFold, Kind.isFold] at hk

/-- Lemma A at the level of a node: the variants differ in one (edge) field. -/
theorem RelR_evalNode_modify (S : ListRel ι) (env : SpecEnv) (fuel : Nat) (ct : Option Name)
    (v : Option VertexId) (g : ι → QField → QField) (hg : ∀ i, PropsFixed (g i))
    (hgood : ∀ rest, S.Good (contOf env fuel (ownersOf env v) rest v))
    (fields : List QField) (j : Nat) (fld : QField) (hj : fields[j]? = some fld)
    (hloc : ∀ a, RelR S (fun i => evalFields env fuel (ownersOf env v) [g i fld] v [a])) (a : Asg) :
    RelR S (fun i => evalNode env (fuel + 1) (.mk ct (fields.modify j (g i))) v a) := by
  have e1 : ∀ i, bindProps env v (fields.modify j (g i)) a = bindProps env v fields a :=
    fun i => bindProps_modify env v (hg i) fields j a
  have e2 : ∀ i b, propFiltersHold env b v (fields.modify j (g i)) = propFiltersHold env b v fields :=
    fun i b => propFiltersHold_modify env v (hg i) fields j b
  simp only [evalNode_succ, e1, e2]
  by_cases hco : coercionOk env ct v = true
  · simp only [hco, if_true]
    cases hpf : propFiltersHold env (bindProps env v fields a) v fields with
    | ok b =>
      cases b with
      | true =>
        simp only [afterFilters]
        exact RelR_evalFields_modify S env fuel (ownersOf env v) v g hgood fields j fld hj hloc _
      | false =>
        intro L hL
        have : L = fun _ => [] := by
          funext i; have := hL i; simp only [afterFilters, R.ok.injEq] at this; exact this.symm
        rw [this]; exact S.nil
    | panic s => exact RelR_of_not_ok S _ default (by simp [afterFilters])
    | fuel => exact RelR_of_not_ok S _ default (by simp [afterFilters])
  · simp only [hco]
    intro L hL
    have : L = fun _ => [] := by
      funext i; have := hL i; simp at this; exact this
    rw [this]; exact S.nil

/-- The congruence: if the variants `f i t` of the node `t` at the end of the path `p` are related
(at every vertex, under every assignment), so are the variants of the whole node. -/
theorem RelR_modNode (S : ListRel ι) (env : SpecEnv) (strict : Bool)
    (hgood : ∀ fuel owners rest v, S.Good (contOf env fuel owners rest v))
    (f : ι → QNode → QNode) (p : Path) (n t : QNode)
    (hd : descend (pathKind strict) p n = some t)
    (hloc : ∀ fuel v a, (strict = true → v.isSome = true) →
      RelR S (fun i => evalNode env fuel (f i t) v a)) :
    ∀ fuel v a, (strict = true → v.isSome = true) →
      RelR S (fun i => evalNode env fuel (modNode (f i) p n) v a) := by
  induction p generalizing n with
  | nil =>
    simp only [descend, Option.some.injEq] at hd
    subst hd
    simpa [modNode] using hloc
  | cons i0 p ih =>
    obtain ⟨ct, fields⟩ := n
    simp only [descend] at hd
    cases hf : fields[i0]? with
    | none => simp [hf] at hd
    | some fld =>
      cases fld with
      | prop nm dirs => simp [hf] at hd
      | edge nm ps k c =>
        simp only [hf] at hd
        by_cases hk : pathKind strict k = true
        · simp only [hk, if_true] at hd
          have ihc := ih c hd
          intro fuel v a hv
          cases fuel with
          | zero => exact RelR_of_not_ok S _ default (by simp [evalNode_zero])
          | succ fuel =>
            simp only [modNode]
            apply RelR_evalNode_modify S env fuel ct v (fun i => onChild (modNode (f i) p))
              (fun i => PropsFixed.onChild _) (hgood fuel _ · v) fields i0 _ hf
            intro a'
            simp only [onChild, evalFields_single_edge]
            apply RelR_flatMapR
            intro a'' _
            exact RelR_evalEdge S env strict fuel _ nm ps k hk _ (ihc fuel) v a'' hv
        · simp [hk] at hd


/-! ### from nodes to queries -/

/-- The assignments of a query, before they are rendered as rows. -/
def asgs (env : SpecEnv) (q : Query) : R (List Asg) :=
  flatMapR (fun v => evalNode env sizeBound q.root (some v) { tags := [], outs := [] })
    (env.data.start q.rootEdge (completeParams (declParams env [""] q.rootEdge) q.rootParams))

/-- How an assignment becomes a row. -/
def rowOf (a : Asg) : Row := sortRow a.outs

theorem rows_eq (env : SpecEnv) (q : Query) :
    rows env q = match asgs env q with
      | .ok as => .ok (as.map rowOf)
      | .panic s => .panic s
      | .fuel => .fuel := by
  simp only [rows, asgs]
  cases flatMapR _ _ <;> rfl

theorem rows_ok {env : SpecEnv} {q : Query} {rs : List Row} :
    rows env q = .ok rs ↔ ∃ as, asgs env q = .ok as ∧ rs = as.map rowOf := by
  rw [rows_eq]
  cases asgs env q <;> simp [eq_comm]

theorem RelR_asgs (S : ListRel ι) (env : SpecEnv) (strict : Bool)
    (hgood : ∀ fuel owners rest v, S.Good (contOf env fuel owners rest v))
    (f : ι → QNode → QNode) (p : Path) (q : Query) (t : QNode)
    (hd : descend (pathKind strict) p q.root = some t)
    (hloc : ∀ fuel v a, (strict = true → v.isSome = true) →
      RelR S (fun i => evalNode env fuel (f i t) v a)) :
    RelR S (fun i => asgs env (onQuery (modNode (f i) p) q)) := by
  simp only [asgs, onQuery]
  apply RelR_flatMapR
  intro v _
  exact RelR_modNode S env strict hgood f p q.root t hd hloc _ _ _ (fun _ => rfl)

/-! ## §3 instances -/

/-! ### sublist -/

theorem sublist_flatMap {α β : Type} (g : α → List β) {l1 l2 : List α} (h : l1.Sublist l2) :
    (l1.flatMap g).Sublist (l2.flatMap g) := by
  induction h with
  | slnil => simp
  | cons a _ ih => simp only [List.flatMap_cons]; exact List.Sublist.trans ih (List.sublist_append_right _ _)
  | cons_cons a _ ih => simp only [List.flatMap_cons]; exact List.Sublist.append (List.Sublist.refl _) ih

/-- `F false` is a sublist of `F true`. -/
def subRel : ListRel Bool where
  Rel F := (F false).Sublist (F true)
  Good _ := True
  nil := List.Sublist.refl _
  append h1 h2 := List.Sublist.append h1 h2
  flatMap _ h := sublist_flatMap _ h

/-! ### interleaving -/

/-- `Interleave l r m`: `m` is a merge of `l` and `r` — every element of `m` comes from exactly one of
them and both keep their order. -/
inductive Interleave {α : Type} : List α → List α → List α → Prop
  | nil : Interleave [] [] []
  | left (a : α) {l r m : List α} : Interleave l r m → Interleave (a :: l) r (a :: m)
  | right (a : α) {l r m : List α} : Interleave l r m → Interleave l (a :: r) (a :: m)

namespace Interleave
variable {α β : Type}

theorem all_left (l : List α) : Interleave l [] l := by
  induction l with
  | nil => exact .nil
  | cons a l ih => exact .left a ih

theorem all_right (r : List α) : Interleave [] r r := by
  induction r with
  | nil => exact .nil
  | cons a r ih => exact .right a ih

theorem append {l1 r1 m1 l2 r2 m2 : List α} (h1 : Interleave l1 r1 m1) (h2 : Interleave l2 r2 m2) :
    Interleave (l1 ++ l2) (r1 ++ r2) (m1 ++ m2) := by
  induction h1 with
  | nil => simpa using h2
  | left a _ ih => exact .left a ih
  | right a _ ih => exact .right a ih

theorem flatMap (g : α → List β) {l r m : List α} (h : Interleave l r m) :
    Interleave (l.flatMap g) (r.flatMap g) (m.flatMap g) := by
  induction h with
  | nil => exact .nil
  | left a _ ih =>
    simp only [List.flatMap_cons]
    have := append (all_left (g a)) ih
    simpa using this
  | right a _ ih =>
    simp only [List.flatMap_cons]
    have := append (all_right (g a)) ih
    simpa using this

theorem map (g : α → β) {l r m : List α} (h : Interleave l r m) :
    Interleave (l.map g) (r.map g) (m.map g) := by
  induction h with
  | nil => exact .nil
  | left a _ ih => exact .left _ ih
  | right a _ ih => exact .right _ ih

theorem sublist_left {l r m : List α} (h : Interleave l r m) : l.Sublist m := by
  induction h with
  | nil => exact .slnil
  | left a _ ih => exact .cons_cons a ih
  | right a _ ih => exact .cons a ih

theorem sublist_right {l r m : List α} (h : Interleave l r m) : r.Sublist m := by
  induction h with
  | nil => exact .slnil
  | left a _ ih => exact .cons a ih
  | right a _ ih => exact .cons_cons a ih

theorem length_eq {l r m : List α} (h : Interleave l r m) : m.length = l.length + r.length := by
  induction h with
  | nil => rfl
  | left a _ ih => simp [ih]; omega
  | right a _ ih => simp [ih]; omega

theorem perm {l r m : List α} (h : Interleave l r m) : (l ++ r).Perm m := by
  induction h with
  | nil => exact .nil
  | left a _ ih => exact .cons a ih
  | right a _ ih =>
    rename_i l r m _
    exact (List.perm_middle (a := a) (l₁ := l) (l₂ := r)).trans (.cons a ih)

end Interleave

/-- Index of the three variants of the partition law. -/
inductive Tri where
  | pos | neg | all
  deriving DecidableEq

instance : Inhabited Tri := ⟨.all⟩

/-- `F .all` is a merge of `F .pos` and `F .neg`. -/
def triRel : ListRel Tri where
  Rel F := Interleave (F .pos) (F .neg) (F .all)
  Good _ := True
  nil := .nil
  append h1 h2 := Interleave.append h1 h2
  flatMap _ h := Interleave.flatMap _ h

/-! ### the filters of a vertex as a sequential conjunction -/

/-- Sequential conjunction of filter verdicts: the second is looked at only when the first holds. -/
def andR (x y : R Bool) : R Bool :=
  match x with
  | .ok true => y
  | other => other

@[simp] theorem andR_true (y : R Bool) : andR (.ok true) y = y := rfl
@[simp] theorem andR_false (y : R Bool) : andR (.ok false) y = .ok false := rfl
@[simp] theorem andR_panic (s : String) (y : R Bool) : andR (.panic s) y = .panic s := rfl
@[simp] theorem andR_fuel (y : R Bool) : andR .fuel y = .fuel := rfl
@[simp] theorem andR_true_right (x : R Bool) : andR x (.ok true) = x := by
  rcases x with (_ | _) | _ | _ <;> rfl

theorem andR_assoc (x y z : R Bool) : andR (andR x y) z = andR x (andR y z) := by
  rcases x with (_ | _) | _ | _ <;> rfl

/-- The filters among the directives of a property, in order. -/
def dirFilters (dirs : List Dir) : List (FOp × QArg) :=
  dirs.filterMap fun d => match d with | .filter op arg => some (op, arg) | _ => none

theorem filtersHold_cons (env : SpecEnv) (a : Asg) (v : Option VertexId) (left : Value) (op : FOp)
    (arg : QArg) (rest : List (FOp × QArg)) :
    filtersHold env a v left ((op, arg) :: rest) =
      andR (filterHolds env a v left op arg) (filtersHold env a v left rest) := by
  simp only [filtersHold]
  rcases filterHolds env a v left op arg with (_ | _) | _ | _ <;> rfl

theorem filtersHold_append (env : SpecEnv) (a : Asg) (v : Option VertexId) (left : Value)
    (F1 F2 : List (FOp × QArg)) :
    filtersHold env a v left (F1 ++ F2) =
      andR (filtersHold env a v left F1) (filtersHold env a v left F2) := by
  induction F1 with
  | nil => simp [filtersHold]
  | cons f F1 ih =>
    obtain ⟨op, arg⟩ := f
    simp only [List.cons_append, filtersHold_cons, ih, andR_assoc]

/-- The verdict of the filters of one field (edges carry none). -/
def fieldFilters (env : SpecEnv) (a : Asg) (v : Option VertexId) : QField → R Bool
  | .prop nm dirs => filtersHold env a v (env.data.propOpt v nm) (dirFilters dirs)
  | .edge .. => .ok true

theorem propFiltersHold_cons (env : SpecEnv) (a : Asg) (v : Option VertexId) (fld : QField)
    (rest : List QField) :
    propFiltersHold env a v (fld :: rest) =
      andR (fieldFilters env a v fld) (propFiltersHold env a v rest) := by
  cases fld with
  | prop nm dirs =>
    simp only [propFiltersHold, fieldFilters, dirFilters]
    rcases filtersHold env a v _ _ with (_ | _) | _ | _ <;> rfl
  | edge nm ps k c => simp [propFiltersHold, fieldFilters]

/-- The verdict of a vertex with field `j` rewritten, as a function of that field's verdict. -/
theorem propFiltersHold_modify_split (env : SpecEnv) (a : Asg) (v : Option VertexId)
    (fields : List QField) (j : Nat) (fld : QField) (hj : fields[j]? = some fld) :
    ∃ P Q, propFiltersHold env a v fields = andR P (andR (fieldFilters env a v fld) Q) ∧
      ∀ g, propFiltersHold env a v (fields.modify j g) =
        andR P (andR (fieldFilters env a v (g fld)) Q) := by
  induction fields generalizing j with
  | nil => simp at hj
  | cons f0 rest ih =>
    cases j with
    | zero =>
      simp only [List.getElem?_cons_zero, Option.some.injEq] at hj
      subst hj
      exact ⟨.ok true, propFiltersHold env a v rest, by simp [propFiltersHold_cons],
        fun g => by simp [List.modify_zero_cons, propFiltersHold_cons]⟩
    | succ j =>
      simp only [List.getElem?_cons_succ] at hj
      obtain ⟨P, Q, h1, h2⟩ := ih j hj
      refine ⟨andR (fieldFilters env a v f0) P, Q, ?_, fun g => ?_⟩
      · rw [propFiltersHold_cons, h1, andR_assoc]
      · rw [List.modify_succ_cons, propFiltersHold_cons, h2 g, andR_assoc]

theorem dirFilters_append (d1 d2 : List Dir) : dirFilters (d1 ++ d2) = dirFilters d1 ++ dirFilters d2 := by
  simp [dirFilters, List.filterMap_append]

theorem fieldFilters_addFilter (env : SpecEnv) (a : Asg) (v : Option VertexId) (nm : Name)
    (dirs : List Dir) (k : Nat) :
    ∃ A B, fieldFilters env a v (.prop nm dirs) = andR A B ∧
      ∀ op arg, fieldFilters env a v (addFilterF k op arg (.prop nm dirs)) =
        andR A (andR (filterHolds env a v (env.data.propOpt v nm) op arg) B) := by
  refine ⟨filtersHold env a v (env.data.propOpt v nm) (dirFilters (dirs.take k)),
    filtersHold env a v (env.data.propOpt v nm) (dirFilters (dirs.drop k)), ?_, fun op arg => ?_⟩
  · simp only [fieldFilters]
    rw [← filtersHold_append, ← dirFilters_append, List.take_append_drop]
  · simp only [fieldFilters, addFilterF, dirFilters_append, filtersHold_append, andR_assoc]
    congr 2
    simp [dirFilters, filtersHold_cons, filtersHold]

/-- The verdict of a vertex before and after a filter is added to one of its properties. -/
theorem propFiltersHold_addFilter (env : SpecEnv) (a : Asg) (v : Option VertexId)
    (fields : List QField) (j k : Nat) (nm : Name) (dirs : List Dir)
    (hj : fields[j]? = some (.prop nm dirs)) :
    ∃ U W, propFiltersHold env a v fields = andR U W ∧
      ∀ op arg, propFiltersHold env a v (fields.modify j (addFilterF k op arg)) =
        andR U (andR (filterHolds env a v (env.data.propOpt v nm) op arg) W) := by
  obtain ⟨P, Q, h1, h2⟩ := propFiltersHold_modify_split env a v fields j _ hj
  obtain ⟨A, B, h3, h4⟩ := fieldFilters_addFilter env a v nm dirs k
  refine ⟨andR P A, andR B Q, ?_, fun op arg => ?_⟩
  · rw [h1, h3]; simp only [andR_assoc]
  · rw [h2, h4]; simp only [andR_assoc]

/-! ### rewritings that touch only the directives of properties -/

/-- A rewriting of fields that leaves edges alone and maps properties to properties. -/
def EdgesFixed (g : QField → QField) : Prop :=
  (∀ nm dirs, isProp (g (.prop nm dirs)) = true) ∧ (∀ nm ps k c, g (.edge nm ps k c) = .edge nm ps k c)

theorem evalFields_prop_like (env : SpecEnv) (fuel : Nat) (owners : List Name) (fld : QField)
    (h : isProp fld = true) (rest : List QField) (v : Option VertexId) (as : List Asg) :
    evalFields env fuel owners (fld :: rest) v as = evalFields env fuel owners rest v as := by
  cases fld with
  | prop nm dirs => exact evalFields_prop ..
  | edge nm ps k c => simp [isProp] at h

theorem evalFields_modify_props (env : SpecEnv) (fuel : Nat) (owners : List Name)
    {g : QField → QField} (hg : EdgesFixed g) (fields : List QField) (j : Nat)
    (v : Option VertexId) (as : List Asg) :
    evalFields env fuel owners (fields.modify j g) v as = evalFields env fuel owners fields v as := by
  induction fields generalizing j as with
  | nil => simp
  | cons fld rest ih =>
    cases j with
    | zero =>
      cases fld with
      | prop nm dirs =>
        rw [List.modify_zero_cons, evalFields_prop_like _ _ _ _ (hg.1 nm dirs), evalFields_prop]
      | edge nm ps k c => rw [List.modify_zero_cons, hg.2]
    | succ j =>
      rw [List.modify_succ_cons]
      cases fld with
      | prop nm dirs => simp only [evalFields_prop]; exact ih _ _
      | edge nm ps k c =>
        simp only [evalFields_edge]
        cases flatMapR (fun a => evalEdge env fuel owners nm ps k c v a) as with
        | ok as' => exact ih _ _
        | panic s => rfl
        | fuel => rfl

theorem EdgesFixed.addFilterF (k : Nat) (op : FOp) (arg : QArg) : EdgesFixed (addFilterF k op arg) :=
  ⟨fun _ _ => rfl, fun _ _ _ _ => rfl⟩

theorem EdgesFixed.modDirF (k : Nat) (g : Dir → Dir) : EdgesFixed (modDirF k g) :=
  ⟨fun _ _ => rfl, fun _ _ _ _ => rfl⟩

theorem modify_eq_self {α : Type} (l : List α) (j : Nat) (g : α → α)
    (h : ∀ x, l[j]? = some x → g x = x) : l.modify j g = l := by
  induction l generalizing j with
  | nil => simp
  | cons a l ih =>
    cases j with
    | zero => simp [List.modify_zero_cons, h a (by simp)]
    | succ j => simp only [List.modify_succ_cons]; rw [ih j (fun x hx => h x (by simpa using hx))]

/-- One step of `bindProps`' fold over the directives of a property. -/
def bindDir (v : Option VertexId) (value : Value) (acc : Asg) (d : Dir) : Asg :=
  match d with
  | .tag n => { acc with tags := acc.tags ++ [(n, match v with
      | some _ => Tagged.some value
      | none => Tagged.nonexistent)] }
  | .output n => { acc with outs := acc.outs ++ [(n, value)] }
  | .filter _ _ => acc

theorem bindProps_prop (env : SpecEnv) (v : Option VertexId) (nm : Name) (dirs : List Dir)
    (rest : List QField) (a : Asg) :
    bindProps env v (.prop nm dirs :: rest) a =
      bindProps env v rest (dirs.foldl (bindDir v (env.data.propOpt v nm)) a) := by
  simp only [bindProps]
  congr 1

theorem foldl_bindDir_addFilter (v : Option VertexId) (value : Value) (dirs : List Dir) (k : Nat)
    (op : FOp) (arg : QArg) (a : Asg) :
    (dirs.take k ++ [Dir.filter op arg] ++ dirs.drop k).foldl (bindDir v value) a =
      dirs.foldl (bindDir v value) a := by
  conv => rhs; rw [← List.take_append_drop k dirs]
  simp only [List.foldl_append, List.foldl_cons, List.foldl_nil, bindDir]

theorem bindProps_modify_addFilter (env : SpecEnv) (v : Option VertexId) (fields : List QField)
    (j k : Nat) (op : FOp) (arg : QArg) (a : Asg) :
    bindProps env v (fields.modify j (addFilterF k op arg)) a = bindProps env v fields a := by
  induction fields generalizing j a with
  | nil => simp
  | cons fld rest ih =>
    cases j with
    | zero =>
      cases fld with
      | prop nm dirs =>
        simp only [List.modify_zero_cons, addFilterF, bindProps_prop, foldl_bindDir_addFilter]
      | edge nm ps k c => simp [List.modify_zero_cons, addFilterF]
    | succ j =>
      cases fld with
      | prop nm dirs => simp only [List.modify_succ_cons, bindProps_prop]; exact ih _ _
      | edge nm ps k c => simp only [List.modify_succ_cons, bindProps]; exact ih _ _

/-- `evalNode` after the coercion test, as a function of the filters' verdict. -/
def gate (X : R (List Asg)) : R Bool → R (List Asg)
  | .ok true => X
  | .ok false => .ok []
  | .panic s => .panic s
  | .fuel => .fuel

theorem afterFilters_eq_gate (env : SpecEnv) (fuel : Nat) (fields : List QField)
    (v : Option VertexId) (a1 : Asg) (r : R Bool) :
    afterFilters env fuel fields v a1 r = gate (evalFields env fuel (ownersOf env v) fields v [a1]) r := by
  rcases r with (_ | _) | _ | _ <;> rfl

/-- A node whose property `j` gets one more filter: same bindings, same edges, and the verdict of
the filters is the old one with the new filter's verdict spliced in. -/
theorem evalNode_addFilter (env : SpecEnv) (fuel : Nat) (ct : Option Name) (fields : List QField)
    (j k : Nat) (nm : Name) (dirs : List Dir) (hj : fields[j]? = some (.prop nm dirs))
    (v : Option VertexId) (a : Asg) :
    ∃ (X : R (List Asg)) (U W : R Bool) (a1 : Asg),
      evalNode env (fuel + 1) (.mk ct fields) v a =
        (if coercionOk env ct v then gate X (andR U W) else .ok []) ∧
      ∀ op arg, evalNode env (fuel + 1) (modField j (addFilterF k op arg) (.mk ct fields)) v a =
        (if coercionOk env ct v then
          gate X (andR U (andR (filterHolds env a1 v (env.data.propOpt v nm) op arg) W))
        else .ok []) := by
  obtain ⟨U, W, h1, h2⟩ := propFiltersHold_addFilter env (bindProps env v fields a) v fields j k nm dirs hj
  refine ⟨evalFields env fuel (ownersOf env v) fields v [bindProps env v fields a], U, W,
    bindProps env v fields a, ?_, fun op arg => ?_⟩
  · rw [evalNode_succ, afterFilters_eq_gate, h1]
  · simp only [modField]
    rw [evalNode_succ, afterFilters_eq_gate, bindProps_modify_addFilter, h2,
      evalFields_modify_props _ _ _ (EdgesFixed.addFilterF k op arg)]


/-! ### `modNode` with the identity -/

theorem modNode_id (p : Path) (n : QNode) : modNode id p n = n := by
  induction p generalizing n with
  | nil => rfl
  | cons i p ih =>
    obtain ⟨ct, fields⟩ := n
    simp only [modNode]
    congr 1
    apply modify_eq_self
    intro x _
    cases x with
    | prop nm dirs => rfl
    | edge nm ps k c => simp [onChild, ih]

theorem onQuery_modNode_id (p : Path) (q : Query) : onQuery (modNode id p) q = q := by
  simp [onQuery, modNode_id]

/-- Two variants indexed by `Bool`: `false ↦ x`, `true ↦ y`. -/
def pick {α : Type} (x y : α) : Bool → α
  | false => x
  | true => y

theorem noFold_descend {p : Path} {n : QNode} (h : NoFoldPath p n) :
    ∃ t, descend (pathKind false) p n = some t := by
  unfold NoFoldPath at h
  cases hd : descend notFold p n with
  | none => simp [hd] at h
  | some t => exact ⟨t, hd⟩

theorem strict_descend {p : Path} {n : QNode} (h : StrictPath p n) :
    ∃ t, descend (pathKind true) p n = some t := by
  unfold StrictPath at h
  cases hd : descend notFoldOpt p n with
  | none => simp [hd] at h
  | some t => exact ⟨t, hd⟩

/-! ### adding a filter -/

theorem gate_sublist (X : R (List Asg)) (U F W : R Bool) (L0 L1 : List Asg)
    (h0 : gate X (andR U (andR F W)) = .ok L0) (h1 : gate X (andR U W) = .ok L1) :
    L0.Sublist L1 := by
  rcases U with (_ | _) | _ | _ <;> rcases F with (_ | _) | _ | _ <;> rcases W with (_ | _) | _ | _ <;>
    simp only [gate, andR, R.ok.injEq, reduceCtorEq] at h0 h1 <;>
    first
      | (subst h0; exact List.nil_sublist _)
      | (rw [h0] at h1; cases h1; exact List.Sublist.refl _)

theorem addFilter_local (env : SpecEnv) (j k : Nat) (op : FOp) (arg : QArg) (t : QNode)
    (fuel : Nat) (v : Option VertexId) (a : Asg) :
    RelR subRel (fun i => evalNode env fuel (pick (modField j (addFilterF k op arg)) id i t) v a) := by
  intro L hL
  have h0 := hL false
  have h1 := hL true
  simp only [pick, id] at h0 h1
  show (L false).Sublist (L true)
  generalize L false = l0 at h0 ⊢
  generalize L true = l1 at h1 ⊢
  cases fuel with
  | zero => simp [evalNode_zero] at h1
  | succ fuel =>
    obtain ⟨ct, fields⟩ := t
    by_cases hj : ∃ nm dirs, fields[j]? = some (.prop nm dirs)
    · obtain ⟨nm, dirs, hj⟩ := hj
      obtain ⟨X, U, W, a1, e1, e2⟩ := evalNode_addFilter env fuel ct fields j k nm dirs hj v a
      rw [e2 op arg] at h0
      rw [e1] at h1
      by_cases hco : coercionOk env ct v = true
      · simp only [hco, if_true] at h0 h1
        exact gate_sublist X U _ W _ _ h0 h1
      · simp only [hco] at h0 h1
        cases h0; exact List.nil_sublist _
    · have : modField j (addFilterF k op arg) (.mk ct fields) = .mk ct fields := by
        simp only [modField]
        congr 1
        apply modify_eq_self
        intro x hx
        cases x with
        | prop nm dirs => exact absurd ⟨nm, dirs, hx⟩ hj
        | edge nm ps k c => rfl
      rw [this, h1] at h0
      cases h0; exact List.Sublist.refl _

/-- Assignments: adding a filter outside folds keeps a sublist. -/
theorem asgs_addFilter_sub (env : SpecEnv) (q : Query) (p : Path) (j k : Nat) (op : FOp) (arg : QArg)
    (hp : NoFoldPath p q.root) (as as' : List Asg) (h : asgs env q = .ok as)
    (h' : asgs env (addFilter p j k op arg q) = .ok as') : as'.Sublist as := by
  obtain ⟨t, hd⟩ := noFold_descend hp
  have := RelR_asgs subRel env false (fun _ _ _ _ => trivial)
    (pick (modField j (addFilterF k op arg)) id) p q t hd
    (fun fuel v a _ => addFilter_local env j k op arg t fuel v a) (pick as' as)
  apply this
  intro i
  cases i with
  | false => exact h'
  | true => simpa [pick, onQuery_modNode_id] using h

/-! ### a filter and its complement -/

/-- Negation of a verdict (errors stay). -/
def notR : R Bool → R Bool
  | .ok b => .ok (!b)
  | .panic s => .panic s
  | .fuel => .fuel

theorem ofOutcome_map_not (site : String) (o : Outcome Bool) :
    R.ofOutcome site (o.map (!·)) = notR (R.ofOutcome site o) := by
  cases o <;> rfl

theorem applyStatic_neg (rx : Filter.RegexEngine) (op nop : Filter.BinOp) (l r : Value)
    (h : negOp (.bin op) = some (.bin nop)) :
    Filter.applyStatic rx nop l r = (Filter.applyStatic rx op l r).map (!·) := by
  cases op <;> simp [negOp] at h <;> subst h <;>
    simp only [Filter.applyStatic, Filter.notOp, Filter.equalsOp, Outcome.map, Bool.not_not] <;>
    first
      | rfl
      | (cases Filter.contains l r <;> simp)
      | (cases Filter.oneOf l r <;> simp)
      | (cases Filter.hasPrefix l r <;> simp)
      | (cases Filter.hasSuffix l r <;> simp)
      | (cases Filter.hasSubstring l r <;> simp)
      | (cases Filter.compileStaticRegex rx r <;> simp [Outcome.bind] <;>
          (rename_i m; cases Filter.regexMatchesOptimized m l <;> simp))

/-- At an existing vertex, with an operand that is not a tag, the complement operator gives the
negated verdict and fails exactly where the operator does. -/
theorem filterHolds_neg (env : SpecEnv) (a : Asg) (x : VertexId) (left : Value) (op nop : FOp)
    (arg : QArg) (h : negOp op = some nop) (harg : QArg.isTag arg = false) :
    filterHolds env a (some x) left nop arg = notR (filterHolds env a (some x) left op arg) := by
  cases op with
  | un o =>
    cases o <;> simp [negOp] at h <;> subst h <;>
      simp [filterHolds, notR, Filter.applyUnary]
  | bin o =>
    cases nop with
    | un o' => cases o <;> simp [negOp] at h
    | bin o' =>
      cases arg with
      | tag n => simp [QArg.isTag] at harg
      | none => simp [filterHolds, notR]
      | var n =>
        simp only [filterHolds]
        cases env.args.find? (·.1 == n) with
        | none => simp [notR]
        | some kv =>
          obtain ⟨_, right⟩ := kv
          simp only [applyStatic_neg _ o o' left right h, ofOutcome_map_not]

theorem gate_interleave (X : R (List Asg)) (U F W : R Bool) (Lp Ln La : List Asg)
    (hp : gate X (andR U (andR F W)) = .ok Lp) (hn : gate X (andR U (andR (notR F) W)) = .ok Ln)
    (ha : gate X (andR U W) = .ok La) : Interleave Lp Ln La := by
  rcases U with (_ | _) | _ | _ <;> rcases F with (_ | _) | _ | _ <;> rcases W with (_ | _) | _ | _ <;>
    simp only [gate, andR, notR, Bool.not_true, Bool.not_false, R.ok.injEq, reduceCtorEq] at hp hn ha <;>
    first
      | (subst hp; subst hn; subst ha; exact .nil)
      | (subst hn; rw [hp] at ha; cases ha; exact Interleave.all_left _)
      | (subst hp; rw [hn] at ha; cases ha; exact Interleave.all_right _)

/-- The three variants of the partition law. -/
def triPick {α : Type} (x y z : α) : Tri → α
  | .pos => x
  | .neg => y
  | .all => z

theorem partition_local (env : SpecEnv) (j k : Nat) (op nop : FOp) (arg : QArg)
    (hneg : negOp op = some nop) (harg : QArg.isTag arg = false) (t : QNode) (nm : Name)
    (dirs : List Dir) (hj : (fieldsOf t)[j]? = some (.prop nm dirs))
    (fuel : Nat) (v : Option VertexId) (a : Asg) (hv : v.isSome = true) :
    RelR triRel (fun i => evalNode env fuel
      (triPick (modField j (addFilterF k op arg)) (modField j (addFilterF k nop arg)) id i t) v a) := by
  intro L hL
  have hp := hL .pos
  have hn := hL .neg
  have ha := hL .all
  simp only [triPick, id] at hp hn ha
  show Interleave (L .pos) (L .neg) (L .all)
  generalize L .pos = lp at hp ⊢
  generalize L .neg = ln at hn ⊢
  generalize L .all = la at ha ⊢
  cases fuel with
  | zero => simp [evalNode_zero] at ha
  | succ fuel =>
    obtain ⟨ct, fields⟩ := t
    simp only [fieldsOf] at hj
    obtain ⟨X, U, W, a1, e1, e2⟩ := evalNode_addFilter env fuel ct fields j k nm dirs hj v a
    rw [e2 op arg] at hp
    rw [e2 nop arg] at hn
    rw [e1] at ha
    obtain ⟨x, rfl⟩ := Option.isSome_iff_exists.mp hv
    rw [filterHolds_neg env a1 x _ op nop arg hneg harg] at hn
    by_cases hco : coercionOk env ct (some x) = true
    · simp only [hco, if_true] at hp hn ha
      exact gate_interleave X U _ W _ _ _ hp hn ha
    · simp only [hco] at hp hn ha
      cases hp; cases hn; cases ha; exact .nil

theorem descend_fieldAt {ok : Kind → Bool} {p : Path} {n t : QNode} (hd : descend ok p n = some t) :
    descend anyKind p n = some t := by
  induction p generalizing n with
  | nil => simpa [descend] using hd
  | cons i p ih =>
    obtain ⟨ct, fields⟩ := n
    simp only [descend] at hd ⊢
    cases hf : fields[i]? with
    | none => simp [hf] at hd
    | some fld =>
      cases fld with
      | prop nm dirs => simp [hf] at hd
      | edge nm ps k c =>
        simp only [hf] at hd ⊢
        by_cases hk : ok k = true
        · simp only [hk, if_true] at hd; simp [anyKind, ih hd]
        · simp [hk] at hd

/-- Assignments: outside folds and optional scopes, the assignments of `q` are a merge of those of
`q + f` and `q + ¬f`. -/
theorem asgs_partition (env : SpecEnv) (q : Query) (p : Path) (j k : Nat) (op nop : FOp) (arg : QArg)
    (hneg : negOp op = some nop) (harg : QArg.isTag arg = false) (hp : StrictPath p q.root)
    (nm : Name) (dirs : List Dir) (hf : fieldAt p j q.root = some (.prop nm dirs))
    (as asp asn : List Asg) (h : asgs env q = .ok as)
    (hpos : asgs env (addFilter p j k op arg q) = .ok asp)
    (hnegq : asgs env (addFilter p j k nop arg q) = .ok asn) : Interleave asp asn as := by
  obtain ⟨t, hd⟩ := strict_descend hp
  have hft : (fieldsOf t)[j]? = some (.prop nm dirs) := by
    simpa [fieldAt, descend_fieldAt hd] using hf
  have := RelR_asgs triRel env true (fun _ _ _ _ => trivial)
    (triPick (modField j (addFilterF k op arg)) (modField j (addFilterF k nop arg)) id) p q t hd
    (fun fuel v a hv => partition_local env j k op nop arg hneg harg t nm dirs hft fuel v a (hv rfl))
    (triPick asp asn as)
  apply this
  intro i
  cases i with
  | pos => exact hpos
  | neg => exact hnegq
  | all => simpa [triPick, onQuery_modNode_id] using h


/-! ### the `@fold` case of `evalEdge`, named -/

def fdirOutName : FDir → Option Name
  | .countOutput n => some n
  | _ => none

def dirOutName : Dir → Option Name
  | .output n => some n
  | _ => none

def fdirFilter : FDir → Option (FOp × QArg)
  | .countFilter op arg => some (op, arg)
  | _ => none

def kindOutNames : Kind → List Name
  | .fold fds => fds.filterMap fdirOutName
  | _ => []

theorem outNamesFields_prop (nm : Name) (dirs : List Dir) (rest : List QField) :
    outNamesFields (.prop nm dirs :: rest) = dirs.filterMap dirOutName ++ outNamesFields rest := by
  simp only [outNamesFields]
  congr 2

theorem outNamesFields_edge (nm : Name) (ps : Params) (k : Kind) (c : QNode) (rest : List QField) :
    outNamesFields (.edge nm ps k c :: rest) = kindOutNames k ++ outNames c ++ outNamesFields rest := by
  simp only [outNamesFields]
  congr 2

/-- One step of the fold over a fold's directives inside a missing scope. -/
def missStep (acc : Asg) (d : FDir) : Asg :=
  match d with
  | .countOutput n => { acc with outs := acc.outs ++ [(n, Value.null)] }
  | .countTag n => { acc with tags := acc.tags ++ [(n, Tagged.nonexistent)] }
  | .countFilter _ _ => acc

/-- One step of the fold that binds the count tags. -/
def tagStep (count : Value) (acc : Asg) (d : FDir) : Asg :=
  match d with
  | .countTag n => { acc with tags := acc.tags ++ [(n, Tagged.some count)] }
  | _ => acc

def countOutOf (count : Value) : FDir → Option (Name × Value)
  | .countOutput n => some (n, count)
  | _ => none

/-- The value an element contributes to the folded list of output `n`. -/
def lookupOut (e : Asg) (n : Name) : Value :=
  match e.outs.find? (·.1 == n) with
  | some (_, x) => x
  | none => Value.null

/-- The single assignment a fold contributes inside a missing scope. -/
def foldMissing (a : Asg) (fds : List FDir) (names : List Name) : Asg :=
  fds.foldl missStep { a with outs := a.outs ++ names.map fun n => (n, Value.null) }

def countOf (elems : List Asg) : Value := Value.uint64 (UInt64.ofNat elems.length)

/-- The assignment a fold that passes its count filters contributes. -/
def foldOk (a : Asg) (fds : List FDir) (names : List Name) (elems : List Asg) : Asg :=
  let aTags := fds.foldl (tagStep (countOf elems)) a
  { aTags with outs := aTags.outs ++ fds.filterMap (countOutOf (countOf elems)) ++
      names.map fun n => (n, Value.list (elems.map fun e => lookupOut e n)) }

/-- What a fold does with its elements: count tags, count filters, list outputs. -/
def foldFinish (env : SpecEnv) (a : Asg) (v : Option VertexId) (fds : List FDir) (names : List Name)
    (elems : List Asg) : R (List Asg) :=
  match filtersHold env (fds.foldl (tagStep (countOf elems)) a) v (countOf elems)
      (fds.filterMap fdirFilter) with
  | .ok true => .ok [foldOk a fds names elems]
  | .ok false => .ok []
  | .panic s => .panic s
  | .fuel => .fuel

theorem evalEdge_fold (env : SpecEnv) (fuel : Nat) (owners : List Name) (name : Name)
    (params : Params) (fds : List FDir) (child : QNode) (v : Option VertexId) (a : Asg) :
    evalEdge env fuel owners name params (.fold fds) child v a =
      match v with
      | none => .ok [foldMissing a fds (outNames child)]
      | some _ =>
        match flatMapR (fun n => evalNode env fuel child (some n) { tags := a.tags, outs := [] })
            (edgeNbrs env owners name params v) with
        | .ok elems => foldFinish env a v fds (outNames child) elems
        | .panic s => .panic s
        | .fuel => .fuel := by
  cases v with
  | none => simp only [evalEdge]; rfl
  | some x =>
    simp only [evalEdge, edgeNbrs]
    cases flatMapR _ _ <;> rfl

/-! ### recursion depth -/

theorem sublist_flatMap_pointwise {α β : Type} (f g : α → List β) (l : List α)
    (h : ∀ x, (f x).Sublist (g x)) : (l.flatMap f).Sublist (l.flatMap g) := by
  induction l with
  | nil => simp
  | cons a l ih => simp only [List.flatMap_cons]; exact List.Sublist.append (h a) ih

/-- Raising the depth bound only adds reachable vertices, in place. -/
theorem reach_mono (d : Data) (e : Name) (ps : Params) {k k' : Nat} (h : k ≤ k') (v : VertexId) :
    (reach d e ps k v).Sublist (reach d e ps k' v) := by
  induction k generalizing k' v with
  | zero =>
    cases k' with
    | zero => exact List.Sublist.refl _
    | succ k' => simp only [reach]; exact List.Sublist.cons_cons v (List.nil_sublist _)
  | succ k ih =>
    cases k' with
    | zero => omega
    | succ k' =>
      simp only [reach]
      exact List.Sublist.cons_cons v (sublist_flatMap_pointwise _ _ _ (fun x => ih (by omega) x))

theorem RelR_sub_of_eq (X : Bool → R (List Asg)) (h : X false = X true) : RelR subRel X := by
  intro L hL
  have h0 := hL false
  rw [h, hL true] at h0
  show (L false).Sublist (L true)
  generalize L false = l0 at h0
  generalize L true = l1 at h0
  cases h0
  exact List.Sublist.refl _

theorem evalFields_single_edge_single {env : SpecEnv} {fuel : Nat} {owners : List Name} {nm : Name}
    {ps : Params} {k : Kind} {c : QNode} {v : Option VertexId} {a : Asg} {L : List Asg} :
    evalFields env fuel owners [.edge nm ps k c] v [a] = .ok L ↔
      evalEdge env fuel owners nm ps k c v a = .ok L := by
  rw [evalFields_single_edge, flatMapR_singleton]
  cases evalEdge env fuel owners nm ps k c v a <;> simp

theorem flatMapR_sublist {α β : Type} (f : α → R (List β)) {l0 l1 : List α} (h : l0.Sublist l1)
    {L0 L1 : List β} (h0 : flatMapR f l0 = .ok L0) (h1 : flatMapR f l1 = .ok L1) : L0.Sublist L1 := by
  rw [(flatMapR_ok h0).2, (flatMapR_ok h1).2]
  exact sublist_flatMap _ h

theorem PropsFixed.setDepthF (d : Nat) : PropsFixed (setDepthF d) := by
  refine ⟨fun _ _ => rfl, fun nm ps k c => ?_⟩
  cases k <;> rfl

theorem recurse_local (env : SpecEnv) (j : Nat) {d0 d1 : Nat} (hd : d0 ≤ d1) (t : QNode)
    (fuel : Nat) (v : Option VertexId) (a : Asg) :
    RelR subRel (fun i => evalNode env fuel
      (pick (modField j (setDepthF d0)) (modField j (setDepthF d1)) i t) v a) := by
  obtain ⟨ct, fields⟩ := t
  cases fuel with
  | zero => exact RelR_of_not_ok _ _ true (by simp [evalNode_zero])
  | succ fuel =>
    cases hj : fields[j]? with
    | none =>
      apply RelR_sub_of_eq
      simp only [pick, modField]
      rw [modify_eq_self fields j _ (by simp [hj]), modify_eq_self fields j _ (by simp [hj])]
    | some fld =>
      have := RelR_evalNode_modify subRel env fuel ct v (fun i => setDepthF (pick d0 d1 i))
        (fun i => PropsFixed.setDepthF _) (fun _ => trivial) fields j fld hj ?_ a
      · intro L hL
        apply this L
        intro i
        cases i with
        | false => simpa [pick, modField] using hL false
        | true => simpa [pick, modField] using hL true
      · intro a' L hL
        have h0 := hL false
        have h1 := hL true
        simp only [pick] at h0 h1
        show (L false).Sublist (L true)
        generalize L false = l0 at h0 ⊢
        generalize L true = l1 at h1 ⊢
        have same : setDepthF d0 fld = setDepthF d1 fld → l0.Sublist l1 := by
          intro e; rw [e, h1] at h0; cases h0; exact List.Sublist.refl _
        cases fld with
        | prop nm dirs => exact same rfl
        | edge nm ps k c =>
          cases k with
          | recurse d =>
            simp only [setDepthF, evalFields_single_edge_single, evalEdge_recurse] at h0 h1
            cases v with
            | none => simp only at h0 h1; rw [h1] at h0; cases h0; exact List.Sublist.refl _
            | some x =>
              simp only at h0 h1
              refine flatMapR_sublist _ ?_ h0 h1
              simp only [reachDecl]
              exact reach_mono _ _ _ hd _
          | plain => exact same rfl
          | optional => exact same rfl
          | fold fds => exact same rfl

theorem asgs_recurse_mono (env : SpecEnv) (q : Query) (p : Path) (j : Nat) {d0 d1 : Nat}
    (hd : d0 ≤ d1) (hp : NoFoldPath p q.root) (as0 as1 : List Asg)
    (h0 : asgs env (setRecurseDepth p j d0 q) = .ok as0)
    (h1 : asgs env (setRecurseDepth p j d1 q) = .ok as1) : as0.Sublist as1 := by
  obtain ⟨t, hdesc⟩ := noFold_descend hp
  have := RelR_asgs subRel env false (fun _ _ _ _ => trivial)
    (pick (modField j (setDepthF d0)) (modField j (setDepthF d1))) p q t hdesc
    (fun fuel v a _ => recurse_local env j hd t fuel v a) (pick as0 as1)
  apply this
  intro i
  cases i with
  | false => exact h0
  | true => exact h1

/-- Rewriting the node at the end of a path with something that does not change it. -/
theorem modNode_eq_self (f : QNode → QNode) (p : Path) (n t : QNode)
    (hd : descend anyKind p n = some t) (hf : f t = t) : modNode f p n = n := by
  induction p generalizing n with
  | nil => simp only [descend, Option.some.injEq] at hd; subst hd; exact hf
  | cons i p ih =>
    obtain ⟨ct, fields⟩ := n
    simp only [modNode]
    congr 1
    apply modify_eq_self
    intro x hx
    simp only [descend, hx] at hd
    cases x with
    | prop nm dirs => rfl
    | edge nm ps k c =>
      simp only [anyKind, if_true] at hd
      simp [onChild, ih c hd]

theorem setRecurseDepth_self (p : Path) (j d : Nat) (q : Query)
    (h : kindAt p j q.root = some (.recurse d)) : setRecurseDepth p j d q = q := by
  simp only [kindAt, fieldAt] at h
  cases hd : descend anyKind p q.root with
  | none => simp [hd] at h
  | some t =>
    simp only [hd] at h
    simp only [setRecurseDepth, onQuery]
    rw [modNode_eq_self _ p q.root t hd]
    obtain ⟨ct, fields⟩ := t
    simp only [modField]
    congr 1
    apply modify_eq_self
    intro x hx
    simp only [fieldsOf, hx] at h
    cases x with
    | prop nm dirs => rfl
    | edge nm ps k c =>
      simp only [Option.some.injEq] at h
      subst h; rfl

/-! ### `@optional` -/

theorem PropsFixed.makeOptionalF : PropsFixed makeOptionalF := by
  refine ⟨fun _ _ => rfl, fun nm ps k c => ?_⟩
  cases k <;> rfl

theorem optional_local (env : SpecEnv) (j : Nat) (t : QNode) (fuel : Nat) (v : Option VertexId)
    (a : Asg) :
    RelR subRel (fun i => evalNode env fuel (pick id (modField j makeOptionalF) i t) v a) := by
  obtain ⟨ct, fields⟩ := t
  cases fuel with
  | zero => exact RelR_of_not_ok _ _ true (by simp [evalNode_zero])
  | succ fuel =>
    cases hj : fields[j]? with
    | none =>
      apply RelR_sub_of_eq
      simp only [pick, modField, id]
      rw [modify_eq_self fields j _ (by simp [hj])]
    | some fld =>
      have := RelR_evalNode_modify subRel env fuel ct v (fun i => pick id makeOptionalF i)
        (fun i => by cases i; exact PropsFixed.id; exact PropsFixed.makeOptionalF)
        (fun _ => trivial) fields j fld hj ?_ a
      · intro L hL
        apply this L
        intro i
        cases i with
        | false =>
          have h := hL false
          have e : fields.modify j id = fields := modify_eq_self _ _ _ (fun _ _ => rfl)
          simp only [pick, id] at h ⊢
          rw [e]; exact h
        | true => simpa [pick, modField] using hL true
      · intro a' L hL
        have h0 := hL false
        have h1 := hL true
        simp only [pick, id] at h0 h1
        show (L false).Sublist (L true)
        generalize L false = l0 at h0 ⊢
        generalize L true = l1 at h1 ⊢
        have same : fld = makeOptionalF fld → l0.Sublist l1 := by
          intro e; rw [← e, h0] at h1; cases h1; exact List.Sublist.refl _
        cases fld with
        | prop nm dirs => exact same rfl
        | edge nm ps k c =>
          cases k with
          | plain =>
            simp only [makeOptionalF, evalFields_single_edge_single, evalEdge_plain,
              evalEdge_optional] at h0 h1
            cases v with
            | none =>
              simp only [edgeNbrs, Data.nbrsOpt, List.isEmpty_nil, if_true] at h0 h1
              rw [h1] at h0; cases h0; exact List.Sublist.refl _
            | some x =>
              simp only at h0 h1
              by_cases hn : (edgeNbrs env (ownersOf env (some x)) nm ps (some x)).isEmpty = true
              · simp only [List.isEmpty_iff.mp hn, flatMapR, R.ok.injEq] at h0
                rw [← h0]; exact List.nil_sublist _
              · simp only [hn, Bool.false_eq_true, if_false] at h1
                rw [h1] at h0; cases h0; exact List.Sublist.refl _
          | recurse d => exact same rfl
          | optional => exact same rfl
          | fold fds => exact same rfl

theorem asgs_optional_keeps (env : SpecEnv) (q : Query) (p : Path) (j : Nat)
    (hp : NoFoldPath p q.root) (as as' : List Asg) (h : asgs env q = .ok as)
    (h' : asgs env (makeOptional p j q) = .ok as') : as.Sublist as' := by
  obtain ⟨t, hdesc⟩ := noFold_descend hp
  have := RelR_asgs subRel env false (fun _ _ _ _ => trivial)
    (pick id (modField j makeOptionalF)) p q t hdesc
    (fun fuel v a _ => optional_local env j t fuel v a) (pick as as')
  apply this
  intro i
  cases i with
  | false => simpa [pick, onQuery_modNode_id] using h
  | true => exact h'


/-! ## §4 equalities through every context -/

theorem evalFields_modify_eq (env : SpecEnv) (fuel : Nat) (owners : List Name) (v : Option VertexId)
    (fields : List QField) (j : Nat) (g : QField → QField)
    (h : ∀ fld, fields[j]? = some fld → ∀ as,
      evalFields env fuel owners [g fld] v as = evalFields env fuel owners [fld] v as)
    (as : List Asg) :
    evalFields env fuel owners (fields.modify j g) v as = evalFields env fuel owners fields v as := by
  induction fields generalizing j as with
  | nil => simp
  | cons f0 rest ih =>
    cases j with
    | zero => rw [List.modify_zero_cons, evalFields_cons, evalFields_cons _ _ _ f0, h f0 (by simp)]
    | succ j =>
      rw [List.modify_succ_cons, evalFields_cons, evalFields_cons _ _ _ f0 rest]
      cases evalFields env fuel owners [f0] v as with
      | ok as' => exact ih j (fun fld hf => h fld (by simpa using hf)) as'
      | panic s => rfl
      | fuel => rfl

theorem outNamesFields_cons (fld : QField) (rest : List QField) :
    outNamesFields (fld :: rest) = outNamesFields [fld] ++ outNamesFields rest := by
  cases fld <;> simp [outNamesFields]

theorem outNamesFields_modify (fields : List QField) (j : Nat) (g : QField → QField)
    (h : ∀ fld, fields[j]? = some fld → outNamesFields [g fld] = outNamesFields [fld]) :
    outNamesFields (fields.modify j g) = outNamesFields fields := by
  induction fields generalizing j with
  | nil => simp
  | cons f0 rest ih =>
    cases j with
    | zero => rw [List.modify_zero_cons, outNamesFields_cons, h f0 (by simp), ← outNamesFields_cons]
    | succ j =>
      rw [List.modify_succ_cons, outNamesFields_cons, ih j (fun fld hf => h fld (by simpa using hf)),
        ← outNamesFields_cons]

theorem evalEdge_congr_child (env : SpecEnv) (fuel : Nat) (owners : List Name) (nm : Name)
    (ps : Params) (k : Kind) (c c' : QNode) (v : Option VertexId) (a : Asg)
    (he : ∀ v a, evalNode env fuel c' v a = evalNode env fuel c v a) (ho : outNames c' = outNames c) :
    evalEdge env fuel owners nm ps k c' v a = evalEdge env fuel owners nm ps k c v a := by
  cases k with
  | plain => simp only [evalEdge_plain, he]
  | optional => simp only [evalEdge_optional, he]
  | recurse d => simp only [evalEdge_recurse, he]
  | fold fds => simp only [evalEdge_fold, he, ho]

/-- A rewriting of the node at the end of *any* path (folds included) that changes neither the
node's denotation nor its output names changes nothing. -/
theorem evalNode_modNode_eq (env : SpecEnv) (f : QNode → QNode) (p : Path) (n t : QNode)
    (hd : descend anyKind p n = some t) (hout : outNames (f t) = outNames t)
    (hloc : ∀ fuel v a, evalNode env fuel (f t) v a = evalNode env fuel t v a) :
    (∀ fuel v a, evalNode env fuel (modNode f p n) v a = evalNode env fuel n v a) ∧
      outNames (modNode f p n) = outNames n := by
  induction p generalizing n with
  | nil =>
    simp only [descend, Option.some.injEq] at hd
    subst hd
    exact ⟨hloc, hout⟩
  | cons i p ih =>
    obtain ⟨ct, fields⟩ := n
    have key : ∀ fld, fields[i]? = some fld →
        (∀ fuel owners v as, evalFields env fuel owners [onChild (modNode f p) fld] v as =
          evalFields env fuel owners [fld] v as) ∧
        outNamesFields [onChild (modNode f p) fld] = outNamesFields [fld] := by
      intro fld hf
      cases fld with
      | prop nm dirs => exact ⟨fun _ _ _ _ => rfl, rfl⟩
      | edge nm ps k c =>
        simp only [descend, hf, anyKind, if_true] at hd
        obtain ⟨ih1, ih2⟩ := ih c hd
        refine ⟨fun fuel owners v as => ?_, ?_⟩
        · simp only [onChild, evalFields_single_edge]
          exact flatMapR_congr fun a _ => evalEdge_congr_child env fuel owners nm ps k c _ v a (ih1 fuel) ih2
        · simp [onChild, outNamesFields, ih2]
    constructor
    · intro fuel v a
      cases fuel with
      | zero => simp [evalNode_zero]
      | succ fuel =>
        simp only [modNode, evalNode_succ, bindProps_modify env v (PropsFixed.onChild _),
          propFiltersHold_modify env v (PropsFixed.onChild _), afterFilters_eq_gate]
        rw [evalFields_modify_eq env fuel _ v fields i _ (fun fld hf => (key fld hf).1 fuel _ v)]
    · simp only [modNode, outNames]
      exact outNamesFields_modify fields i _ (fun fld hf => (key fld hf).2)

theorem asgs_modNode_eq (env : SpecEnv) (f : QNode → QNode) (p : Path) (q : Query) (t : QNode)
    (hd : descend anyKind p q.root = some t) (hout : outNames (f t) = outNames t)
    (hloc : ∀ fuel v a, evalNode env fuel (f t) v a = evalNode env fuel t v a) :
    asgs env (onQuery (modNode f p) q) = asgs env q := by
  simp only [asgs, onQuery]
  exact flatMapR_congr fun v _ => (evalNode_modNode_eq env f p q.root t hd hout hloc).1 _ _ _

theorem rows_of_asgs_eq {env : SpecEnv} {q q' : Query} (h : asgs env q' = asgs env q) :
    rows env q' = rows env q := by
  rw [rows_eq, rows_eq, h]

/-! ### rewriting one filter directive in place -/

theorem foldl_bindDir_modify (v : Option VertexId) (value : Value) (g : Dir → Dir)
    (hg : ∀ d acc, bindDir v value acc (g d) = bindDir v value acc d) (dirs : List Dir) (k : Nat)
    (a : Asg) : (dirs.modify k g).foldl (bindDir v value) a = dirs.foldl (bindDir v value) a := by
  induction dirs generalizing k a with
  | nil => simp
  | cons d rest ih =>
    cases k with
    | zero => simp [List.modify_zero_cons, hg]
    | succ k => simp only [List.modify_succ_cons, List.foldl_cons]; exact ih _ _

theorem bindProps_modify_modDirF (env : SpecEnv) (v : Option VertexId) (g : Dir → Dir)
    (hg : ∀ value d acc, bindDir v value acc (g d) = bindDir v value acc d)
    (fields : List QField) (j k : Nat) (a : Asg) :
    bindProps env v (fields.modify j (modDirF k g)) a = bindProps env v fields a := by
  induction fields generalizing j a with
  | nil => simp
  | cons fld rest ih =>
    cases j with
    | zero =>
      cases fld with
      | prop nm dirs =>
        simp only [List.modify_zero_cons, modDirF, bindProps_prop, foldl_bindDir_modify _ _ g (hg _)]
      | edge nm ps k c => simp [List.modify_zero_cons, modDirF]
    | succ j =>
      cases fld with
      | prop nm dirs => simp only [List.modify_succ_cons, bindProps_prop]; exact ih _ _
      | edge nm ps k c => simp only [List.modify_succ_cons, bindProps]; exact ih _ _

/-- Replacing the filter at position `k` by one with the same verdict keeps the verdict of the
property's filters. -/
theorem filtersHold_modify_dir (env : SpecEnv) (a : Asg) (v : Option VertexId) (left : Value)
    (g : Dir → Dir) (dirs : List Dir) (k : Nat) (op op' : FOp) (arg arg' : QArg)
    (hk : dirs[k]? = some (.filter op arg)) (hg : g (.filter op arg) = .filter op' arg')
    (hsame : filterHolds env a v left op' arg' = filterHolds env a v left op arg) :
    filtersHold env a v left (dirFilters (dirs.modify k g)) =
      filtersHold env a v left (dirFilters dirs) := by
  induction dirs generalizing k with
  | nil => simp at hk
  | cons d rest ih =>
    cases k with
    | zero =>
      simp only [List.getElem?_cons_zero, Option.some.injEq] at hk
      subst hk
      simp only [List.modify_zero_cons, hg, dirFilters, List.filterMap_cons, filtersHold_cons, hsame]
    | succ k =>
      simp only [List.getElem?_cons_succ] at hk
      have := ih k hk
      simp only [dirFilters] at this
      cases d with
      | filter o x => simp only [List.modify_succ_cons, dirFilters, List.filterMap_cons, filtersHold_cons, this]
      | tag n => simpa only [List.modify_succ_cons, dirFilters, List.filterMap_cons] using this
      | output n => simpa only [List.modify_succ_cons, dirFilters, List.filterMap_cons] using this

theorem outNamesFields_modDirF (g : Dir → Dir)
    (hg : ∀ d, (match g d with | .output n => some n | _ => none) =
      (match d with | .output n => some n | _ => none))
    (fld : QField) (k : Nat) : outNamesFields [modDirF k g fld] = outNamesFields [fld] := by
  cases fld with
  | edge nm ps kd c => rfl
  | prop nm dirs =>
    simp only [modDirF, outNamesFields, List.append_nil]
    induction dirs generalizing k with
    | nil => simp
    | cons d rest ih =>
      cases k with
      | zero =>
        simp only [List.modify_zero_cons, List.filterMap_cons]
        have := hg d
        cases hd : g d <;> cases d <;> simp_all
      | succ k =>
        simp only [List.modify_succ_cons, List.filterMap_cons, ih k]

/-! ### `=` and `one_of` with a single-element list -/

theorem filterHolds_eq_oneOf (env : SpecEnv) (a : Asg) (v : Option VertexId) (left : Value)
    (x w : Name) (val : Value)
    (hx : (env.args.find? (·.1 == x)).map (·.2) = some val)
    (hw : (env.args.find? (·.1 == w)).map (·.2) = some (.list [val])) :
    filterHolds env a v left (.bin .oneOf) (.var w) = filterHolds env a v left (.bin .equals) (.var x) := by
  cases v with
  | none => rfl
  | some u =>
    simp only [filterHolds]
    cases h1 : env.args.find? (·.1 == x) with
    | none => simp [h1] at hx
    | some kv1 =>
      cases h2 : env.args.find? (·.1 == w) with
      | none => simp [h2] at hw
      | some kv2 =>
        obtain ⟨n1, r1⟩ := kv1
        obtain ⟨n2, r2⟩ := kv2
        simp only [h1, Option.map_some, Option.some.injEq] at hx
        simp only [h2, Option.map_some, Option.some.injEq] at hw
        subst hx; subst hw
        simp only [Filter.applyStatic, Filter.equalsOp, Filter.oneOf, Filter.oneOfLoop, R.ofOutcome,
          Filter.equals_eq_beq]
        congr 1
        show (if Value.beq left r1 = true then true else false) = Value.beq left r1
        cases Value.beq left r1 <;> rfl

theorem bindDir_eqToOneOfD (w : Name) (v : Option VertexId) (value : Value) (d : Dir) (acc : Asg) :
    bindDir v value acc (eqToOneOfD w d) = bindDir v value acc d := by
  unfold eqToOneOfD
  split <;> rfl

theorem evalNode_eqToOneOf (env : SpecEnv) (j k : Nat) (x w : Name) (val : Value)
    (hx : (env.args.find? (·.1 == x)).map (·.2) = some val)
    (hw : (env.args.find? (·.1 == w)).map (·.2) = some (.list [val]))
    (t : QNode) (nm : Name) (dirs : List Dir) (hj : (fieldsOf t)[j]? = some (.prop nm dirs))
    (hk : dirs[k]? = some (.filter (.bin .equals) (.var x)))
    (fuel : Nat) (v : Option VertexId) (a : Asg) :
    evalNode env fuel (modField j (modDirF k (eqToOneOfD w)) t) v a = evalNode env fuel t v a := by
  obtain ⟨ct, fields⟩ := t
  simp only [fieldsOf] at hj
  cases fuel with
  | zero => simp [evalNode_zero]
  | succ fuel =>
    simp only [modField, evalNode_succ,
      bindProps_modify_modDirF env v _ (fun value d acc => bindDir_eqToOneOfD w v value d acc),
      afterFilters_eq_gate, evalFields_modify_props _ _ _ (EdgesFixed.modDirF k _)]
    obtain ⟨P, Q, h1, h2⟩ := propFiltersHold_modify_split env (bindProps env v fields a) v fields j _ hj
    rw [h2, h1]
    congr 4
    simp only [modDirF, fieldFilters]
    exact filtersHold_modify_dir env _ v _ _ dirs k (.bin .equals) (.bin .oneOf) (.var x) (.var w) hk rfl
      (filterHolds_eq_oneOf env _ v _ x w val hx hw)

theorem asgs_eqToOneOf (env : SpecEnv) (q : Query) (p : Path) (j k : Nat) (x w : Name) (val : Value)
    (hd : dirAt p j k q.root = some (.filter (.bin .equals) (.var x)))
    (hx : (env.args.find? (·.1 == x)).map (·.2) = some val)
    (hw : (env.args.find? (·.1 == w)).map (·.2) = some (.list [val])) :
    asgs env (replaceEqByOneOf p j k w q) = asgs env q := by
  simp only [dirAt, fieldAt] at hd
  cases hdesc : descend anyKind p q.root with
  | none => simp [hdesc] at hd
  | some t =>
    simp only [hdesc] at hd
    cases hf : (fieldsOf t)[j]? with
    | none => simp [hf] at hd
    | some fld =>
      cases fld with
      | edge nm ps kd c => simp [hf] at hd
      | prop nm dirs =>
        simp only [hf] at hd
        apply asgs_modNode_eq env _ p q t hdesc
        · obtain ⟨ct, fields⟩ := t
          simp only [modField, outNames]
          apply outNamesFields_modify
          intro fld _
          apply outNamesFields_modDirF
          intro d
          cases d with
          | filter op arg =>
            have : ∃ op' arg', eqToOneOfD w (.filter op arg) = .filter op' arg' := by
              unfold eqToOneOfD; split <;> exact ⟨_, _, rfl⟩
            obtain ⟨op', arg', e⟩ := this
            rw [e]
          | tag n => rfl
          | output n => rfl
        · exact evalNode_eqToOneOf env j k x w val hx hw t nm dirs hf hd


/-! ### a parameterised edge as a filter -/

/-- Both variants give the same list (when both succeed). -/
def eqRel : ListRel Bool where
  Rel F := F false = F true
  Good _ := True
  nil := rfl
  append h1 h2 := by simp only [h1, h2]
  flatMap _ h := by simp only [h]

theorem outNames_prependFilterProp (prop : Name) (op : FOp) (arg : QArg) (c : QNode) :
    outNames (prependFilterProp prop op arg c) = outNames c := by
  obtain ⟨ct, fields⟩ := c
  simp [prependFilterProp, outNames, outNamesFields]

theorem evalNode_prepend_none (env : SpecEnv) (fuel : Nat) (prop : Name) (op : FOp) (arg : QArg)
    (c : QNode) (a : Asg) :
    evalNode env fuel (prependFilterProp prop op arg c) none a = evalNode env fuel c none a := by
  obtain ⟨ct, fields⟩ := c
  cases fuel with
  | zero => simp [evalNode_zero]
  | succ fuel =>
    simp only [prependFilterProp, evalNode_succ, afterFilters_eq_gate, bindProps_prop,
      List.foldl_cons, List.foldl_nil, bindDir, propFiltersHold_cons, evalFields_prop]
    simp [fieldFilters, dirFilters, filtersHold_cons, filtersHold, filterHolds]

theorem evalNode_prepend_some (env : SpecEnv) (fuel : Nat) (prop : Name) (op : FOp) (arg : QArg)
    (keep : VertexId → Bool) (n : VertexId)
    (hfilter : ∀ a, filterHolds env a (some n) (env.data.prop n prop) op arg = .ok (keep n))
    (c : QNode) (a : Asg) :
    evalNode env (fuel + 1) (prependFilterProp prop op arg c) (some n) a =
      if keep n then evalNode env (fuel + 1) c (some n) a else .ok [] := by
  obtain ⟨ct, fields⟩ := c
  simp only [prependFilterProp, evalNode_succ, afterFilters_eq_gate, bindProps_prop,
    List.foldl_cons, List.foldl_nil, bindDir, propFiltersHold_cons, evalFields_prop]
  simp only [fieldFilters, dirFilters, List.filterMap_cons, List.filterMap_nil, filtersHold_cons,
    filtersHold, Data.propOpt, hfilter, andR_true_right]
  cases keep n <;> simp [gate]

theorem flatMapR_filter_eq {α β : Type} (f f' : α → R (List β)) (keep : α → Bool) (l : List α)
    (h : ∀ n ∈ l, (∃ r, f' n = .ok r) → f' n = if keep n then f n else .ok [])
    {l0 l1 : List β} (h0 : flatMapR f (l.filter keep) = .ok l0) (h1 : flatMapR f' l = .ok l1) :
    l0 = l1 := by
  induction l generalizing l0 l1 with
  | nil => simp [flatMapR] at h0 h1; rw [h0, h1]
  | cons x l ih =>
    obtain ⟨r1, r2, hx, hl, rfl⟩ := flatMapR_cons_ok.mp h1
    have hx' := h x (by simp) ⟨r1, hx⟩
    rw [hx] at hx'
    by_cases hk : keep x = true
    · simp only [List.filter_cons, hk, if_true] at h0
      obtain ⟨s1, s2, hs, hs2, rfl⟩ := flatMapR_cons_ok.mp h0
      simp only [hk, if_true] at hx'
      rw [hs] at hx'; cases hx'
      rw [ih (fun n hn => h n (by simp [hn])) hs2 hl]
    · simp only [List.filter_cons, hk] at h0
      simp only [hk] at hx'
      cases hx'
      simp [ih (fun n hn => h n (by simp [hn])) h0 hl]

theorem PropsFixed.paramToFilterF (nm' : Name) (ps' : Params) (prop : Name) (op : FOp) (arg : QArg) :
    PropsFixed (paramToFilterF nm' ps' prop op arg) := by
  refine ⟨fun _ _ => rfl, fun nm ps k c => ?_⟩
  cases k <;> rfl

theorem param_local (env : SpecEnv) (j : Nat) (nm nm' : Name) (ps ps' : Params) (prop : Name)
    (op : FOp) (arg : QArg) (keep : VertexId → Bool)
    (hdata : ∀ x : VertexId, edgeNbrs env (ownersOf env (some x)) nm ps (some x) =
      (edgeNbrs env (ownersOf env (some x)) nm' ps' (some x)).filter keep)
    (hfilter : ∀ n a, filterHolds env a (some n) (env.data.prop n prop) op arg = .ok (keep n))
    (t : QNode) (k : Kind) (c : QNode) (hj : (fieldsOf t)[j]? = some (.edge nm ps k c))
    (fuel : Nat) (v : Option VertexId) (a : Asg) :
    RelR eqRel (fun i => evalNode env fuel
      (pick id (modField j (paramToFilterF nm' ps' prop op arg)) i t) v a) := by
  obtain ⟨ct, fields⟩ := t
  simp only [fieldsOf] at hj
  cases fuel with
  | zero => exact RelR_of_not_ok _ _ true (by simp [evalNode_zero])
  | succ fuel =>
    have := RelR_evalNode_modify eqRel env fuel ct v
      (fun i => pick id (paramToFilterF nm' ps' prop op arg) i)
      (fun i => by cases i; exact PropsFixed.id; exact PropsFixed.paramToFilterF ..)
      (fun _ => trivial) fields j _ hj ?_ a
    · intro L hL
      apply this L
      intro i
      cases i with
      | false =>
        have h := hL false
        have e : fields.modify j id = fields := modify_eq_self _ _ _ (fun _ _ => rfl)
        simp only [pick, id] at h ⊢
        rw [e]; exact h
      | true => simpa [pick, modField] using hL true
    · intro a' L hL
      have h0 := hL false
      have h1 := hL true
      simp only [pick, id] at h0 h1
      show L false = L true
      generalize L false = l0 at h0 ⊢
      generalize L true = l1 at h1 ⊢
      have hnode : ∀ n ∈ edgeNbrs env (ownersOf env v) nm' ps' v, ∀ a'',
          (∃ r, evalNode env fuel (prependFilterProp prop op arg c) (some n) a'' = .ok r) →
          evalNode env fuel (prependFilterProp prop op arg c) (some n) a'' =
            if keep n then evalNode env fuel c (some n) a'' else .ok [] := by
        intro n _ a'' hr
        cases fuel with
        | zero => obtain ⟨r, hr⟩ := hr; simp [evalNode_zero] at hr
        | succ fuel => exact evalNode_prepend_some env fuel prop op arg keep n (hfilter n) c a''
      cases k with
      | plain =>
        simp only [paramToFilterF, evalFields_single_edge_single, evalEdge_plain] at h0 h1
        cases v with
        | none =>
          simp only [evalNode_prepend_none] at h1
          rw [h1] at h0; cases h0; rfl
        | some x =>
          simp only [hdata x] at h0
          exact flatMapR_filter_eq _ _ keep _ (fun n hn => hnode n hn a') h0 h1
      | fold fds =>
        simp only [paramToFilterF, evalFields_single_edge_single, evalEdge_fold,
          outNames_prependFilterProp] at h0 h1
        cases v with
        | none => simp only at h0 h1; rw [h1] at h0; cases h0; rfl
        | some x =>
          simp only [hdata x] at h0
          cases he0 : flatMapR (fun n => evalNode env fuel c (some n) { tags := a'.tags, outs := [] })
              ((edgeNbrs env (ownersOf env (some x)) nm' ps' (some x)).filter keep) with
          | ok e0 =>
            cases he1 : flatMapR (fun n => evalNode env fuel (prependFilterProp prop op arg c) (some n)
                { tags := a'.tags, outs := [] }) (edgeNbrs env (ownersOf env (some x)) nm' ps' (some x)) with
            | ok e1 =>
              have : e0 = e1 := flatMapR_filter_eq _ _ keep _ (fun n hn => hnode n hn _) he0 he1
              subst this
              simp only [he0] at h0
              simp only [he1] at h1
              rw [h1] at h0; cases h0; rfl
            | panic s => simp [he1] at h1
            | fuel => simp [he1] at h1
          | panic s => simp [he0] at h0
          | fuel => simp [he0] at h0
      | optional =>
        simp only [paramToFilterF] at h1
        rw [h1] at h0; cases h0; rfl
      | recurse d =>
        simp only [paramToFilterF] at h1
        rw [h1] at h0; cases h0; rfl

theorem asgs_param_edge (env : SpecEnv) (q : Query) (p : Path) (j : Nat) (nm nm' : Name)
    (ps ps' : Params) (prop : Name) (op : FOp) (arg : QArg) (keep : VertexId → Bool)
    (hdata : ∀ x : VertexId, edgeNbrs env (ownersOf env (some x)) nm ps (some x) =
      (edgeNbrs env (ownersOf env (some x)) nm' ps' (some x)).filter keep)
    (hfilter : ∀ n a, filterHolds env a (some n) (env.data.prop n prop) op arg = .ok (keep n))
    (hp : NoFoldPath p q.root) (k : Kind) (c : QNode)
    (hf : fieldAt p j q.root = some (.edge nm ps k c))
    (as as' : List Asg) (h : asgs env q = .ok as)
    (h' : asgs env (paramEdgeToFilter p j nm' ps' prop op arg q) = .ok as') : as = as' := by
  obtain ⟨t, hdesc⟩ := noFold_descend hp
  have hft : (fieldsOf t)[j]? = some (.edge nm ps k c) := by
    simpa [fieldAt, descend_fieldAt hdesc] using hf
  have := RelR_asgs eqRel env false (fun _ _ _ _ => trivial)
    (pick id (modField j (paramToFilterF nm' ps' prop op arg))) p q t hdesc
    (fun fuel v a _ => param_local env j nm nm' ps ps' prop op arg keep hdata hfilter t k c hft fuel v a)
    (pick as as')
  apply this
  intro i
  cases i with
  | false => simpa [pick, onQuery_modNode_id] using h
  | true => exact h'


/-! ## §5 renaming outputs and tags -/

section Rename
variable (σo σt : Name → Name)

/-- An assignment with its keys renamed. -/
def renA (a : Asg) : Asg :=
  { tags := a.tags.map fun kv => (σt kv.1, kv.2), outs := a.outs.map fun kv => (σo kv.1, kv.2) }

theorem R_map_ok {α β : Type} (f : α → β) (x : α) : (R.ok x).map f = .ok (f x) := rfl

theorem flatMapR_map {α β γ : Type} (f : α → R (List β)) (g : β → γ) (l : List α) :
    flatMapR (fun x => (f x).map (List.map g)) l = (flatMapR f l).map (List.map g) := by
  induction l with
  | nil => rfl
  | cons x l ih =>
    simp only [flatMapR, ih]
    cases f x <;> cases flatMapR f l <;> simp [R.map]

theorem flatMapR_map_dom {α β γ : Type} (f : β → R (List γ)) (g : α → β) (l : List α) :
    flatMapR f (l.map g) = flatMapR (fun x => f (g x)) l := by
  induction l with
  | nil => rfl
  | cons x l ih => simp only [List.map_cons, flatMapR, ih]

variable {σo σt}

theorem tag?_renA (ht : Function.Injective σt) (a : Asg) (n : Name) :
    (renA σo σt a).tag? (σt n) = a.tag? n := by
  simp only [Asg.tag?, renA, List.find?_map, Option.map_map]
  have : ((fun x : Name × Tagged => x.1 == σt n) ∘ fun kv : Name × Tagged => (σt kv.1, kv.2)) =
      fun x => x.1 == n := by
    funext kv
    simp only [Function.comp]
    rw [Bool.eq_iff_iff]
    simp only [beq_iff_eq]
    exact ⟨fun h => ht h, fun h => congrArg σt h⟩
  rw [this]
  cases List.find? (fun x => x.1 == n) a.tags <;> rfl

theorem filterHolds_renA (ht : Function.Injective σt) (env : SpecEnv) (a : Asg)
    (v : Option VertexId) (left : Value) (op : FOp) (arg : QArg) :
    filterHolds env (renA σo σt a) v left op (renArg σt arg) = filterHolds env a v left op arg := by
  cases v with
  | none => rfl
  | some x =>
    cases op with
    | un o => rfl
    | bin o =>
      cases arg with
      | var n => rfl
      | none => rfl
      | tag n => simp only [renArg, filterHolds, tag?_renA ht]

def renFilter (σt : Name → Name) (f : FOp × QArg) : FOp × QArg := (f.1, renArg σt f.2)

theorem filtersHold_renA (ht : Function.Injective σt) (env : SpecEnv) (a : Asg)
    (v : Option VertexId) (left : Value) (fs : List (FOp × QArg)) :
    filtersHold env (renA σo σt a) v left (fs.map (renFilter σt)) = filtersHold env a v left fs := by
  induction fs with
  | nil => rfl
  | cons f fs ih =>
    obtain ⟨op, arg⟩ := f
    simp only [List.map_cons, renFilter, filtersHold_cons, filterHolds_renA ht, ih]

theorem dirFilters_map_renDir (dirs : List Dir) :
    dirFilters (dirs.map (renDir σo σt)) = (dirFilters dirs).map (renFilter σt) := by
  induction dirs with
  | nil => rfl
  | cons d dirs ih =>
    simp only [dirFilters] at ih ⊢
    cases d <;> simp [renDir, renFilter, ih]

theorem propFiltersHold_ren (ht : Function.Injective σt) (env : SpecEnv) (a : Asg)
    (v : Option VertexId) (fields : List QField) :
    propFiltersHold env (renA σo σt a) v (renFields σo σt fields) = propFiltersHold env a v fields := by
  induction fields with
  | nil => simp [renFields, propFiltersHold]
  | cons fld rest ih =>
    cases fld with
    | prop nm dirs =>
      simp only [renFields, propFiltersHold_cons, fieldFilters, dirFilters_map_renDir,
        filtersHold_renA ht, ih]
    | edge nm ps k c => simp only [renFields, propFiltersHold_cons, fieldFilters, ih]

theorem bindDir_renA (v : Option VertexId) (value : Value) (acc : Asg) (d : Dir) :
    bindDir v value (renA σo σt acc) (renDir σo σt d) = renA σo σt (bindDir v value acc d) := by
  cases d <;> simp [bindDir, renDir, renA]

theorem foldl_bindDir_renA (v : Option VertexId) (value : Value) (dirs : List Dir) (a : Asg) :
    (dirs.map (renDir σo σt)).foldl (bindDir v value) (renA σo σt a) =
      renA σo σt (dirs.foldl (bindDir v value) a) := by
  induction dirs generalizing a with
  | nil => rfl
  | cons d dirs ih => simp only [List.map_cons, List.foldl_cons, bindDir_renA, ih]

theorem bindProps_ren (env : SpecEnv) (v : Option VertexId) (fields : List QField) (a : Asg) :
    bindProps env v (renFields σo σt fields) (renA σo σt a) = renA σo σt (bindProps env v fields a) := by
  induction fields generalizing a with
  | nil => simp [renFields, bindProps]
  | cons fld rest ih =>
    cases fld with
    | prop nm dirs => simp only [renFields, bindProps_prop, foldl_bindDir_renA, ih]
    | edge nm ps k c => simp only [renFields, bindProps, ih]

theorem filterMap_map_comm {α β : Type} (f : α → Option β) (g : α → α) (h : β → β)
    (hc : ∀ a, f (g a) = (f a).map h) (l : List α) :
    (l.map g).filterMap f = (l.filterMap f).map h := by
  induction l with
  | nil => rfl
  | cons a l ih =>
    simp only [List.map_cons, List.filterMap_cons, hc a]
    cases f a <;> simp [ih]

theorem kindOutNames_ren (k : Kind) : kindOutNames (renKind σo σt k) = (kindOutNames k).map σo := by
  cases k with
  | fold fds =>
    simp only [renKind, kindOutNames]
    exact filterMap_map_comm _ _ _ (fun d => by cases d <;> rfl) fds
  | plain => rfl
  | optional => rfl
  | recurse d => rfl

mutual
theorem outNames_renNode : ∀ n : QNode, outNames (renNode σo σt n) = (outNames n).map σo
  | .mk ct fields => by
    simp only [renNode, outNames]
    exact outNamesFields_renFields fields
theorem outNamesFields_renFields :
    ∀ fs : List QField, outNamesFields (renFields σo σt fs) = (outNamesFields fs).map σo
  | [] => by simp [renFields, outNamesFields]
  | .prop nm dirs :: rest => by
    simp only [renFields, outNamesFields_prop, List.map_append, outNamesFields_renFields rest]
    congr 1
    exact filterMap_map_comm _ _ _ (fun d => by cases d <;> rfl) dirs
  | .edge nm ps k c :: rest => by
    simp only [renFields, outNamesFields_edge, List.map_append, outNamesFields_renFields rest,
      outNames_renNode c, kindOutNames_ren]
end

theorem missStep_ren (b : Asg) (d : FDir) :
    missStep (renA σo σt b) (renFDir σo σt d) = renA σo σt (missStep b d) := by
  cases d <;> simp [missStep, renFDir, renA]

theorem tagStep_ren (count : Value) (b : Asg) (d : FDir) :
    tagStep count (renA σo σt b) (renFDir σo σt d) = renA σo σt (tagStep count b d) := by
  cases d <;> simp [tagStep, renFDir, renA]

theorem foldl_step_ren (step : Asg → FDir → Asg)
    (h : ∀ b d, step (renA σo σt b) (renFDir σo σt d) = renA σo σt (step b d))
    (fds : List FDir) (b : Asg) :
    (fds.map (renFDir σo σt)).foldl step (renA σo σt b) = renA σo σt (fds.foldl step b) := by
  induction fds generalizing b with
  | nil => rfl
  | cons d fds ih => simp only [List.map_cons, List.foldl_cons, h, ih]

theorem foldMissing_ren (a : Asg) (fds : List FDir) (names : List Name) :
    foldMissing (renA σo σt a) (fds.map (renFDir σo σt)) (names.map σo) =
      renA σo σt (foldMissing a fds names) := by
  simp only [foldMissing]
  rw [← foldl_step_ren missStep missStep_ren]
  congr 1
  simp [renA]

theorem lookupOut_renA (ho : Function.Injective σo) (e : Asg) (n : Name) :
    lookupOut (renA σo σt e) (σo n) = lookupOut e n := by
  simp only [lookupOut, renA, List.find?_map]
  have : ((fun x : Name × Value => x.1 == σo n) ∘ fun kv : Name × Value => (σo kv.1, kv.2)) =
      fun x => x.1 == n := by
    funext kv
    simp only [Function.comp]
    rw [Bool.eq_iff_iff]
    simp only [beq_iff_eq]
    exact ⟨fun h => ho h, fun h => congrArg σo h⟩
  rw [this]
  cases List.find? (fun x => x.1 == n) e.outs <;> rfl

theorem foldOk_ren (ho : Function.Injective σo) (a : Asg) (fds : List FDir) (names : List Name)
    (elems : List Asg) :
    foldOk (renA σo σt a) (fds.map (renFDir σo σt)) (names.map σo) (elems.map (renA σo σt)) =
      renA σo σt (foldOk a fds names elems) := by
  have hc : countOf (elems.map (renA σo σt)) = countOf elems := by simp [countOf]
  have hCo : (fds.map (renFDir σo σt)).filterMap (countOutOf (countOf elems)) =
      (fds.filterMap (countOutOf (countOf elems))).map (fun kv => (σo kv.1, kv.2)) :=
    filterMap_map_comm _ _ _ (fun d => by cases d <;> rfl) fds
  simp only [foldOk, hc, foldl_step_ren (tagStep (countOf elems)) (tagStep_ren _), hCo]
  simp only [renA, List.map_append, List.map_map, Asg.mk.injEq, true_and]
  congr 1
  apply List.map_congr_left
  intro n _
  simp only [Function.comp]
  congr 2
  apply List.map_congr_left
  intro e _
  exact lookupOut_renA (σt := σt) ho e n

theorem foldFinish_ren (ho : Function.Injective σo) (ht : Function.Injective σt) (env : SpecEnv)
    (a : Asg) (v : Option VertexId) (fds : List FDir) (names : List Name) (elems : List Asg) :
    foldFinish env (renA σo σt a) v (fds.map (renFDir σo σt)) (names.map σo)
        (elems.map (renA σo σt)) =
      (foldFinish env a v fds names elems).map (List.map (renA σo σt)) := by
  have hc : countOf (elems.map (renA σo σt)) = countOf elems := by simp [countOf]
  have hFs : (fds.map (renFDir σo σt)).filterMap fdirFilter =
      (fds.filterMap fdirFilter).map (renFilter σt) :=
    filterMap_map_comm _ _ _ (fun d => by cases d <;> rfl) fds
  simp only [foldFinish, hc, foldl_step_ren (tagStep (countOf elems)) (tagStep_ren _), hFs,
    filtersHold_renA ht]
  cases filtersHold env _ v _ _ with
  | ok b =>
    cases b with
    | false => rfl
    | true => simp only [R.map, List.map_cons, List.map_nil, foldOk_ren ho]
  | panic s => rfl
  | fuel => rfl

/-- Renaming commutes with the denotation: evaluate the renamed node under the renamed assignment
and get the renamed results (errors included). -/
theorem evalNode_ren (ho : Function.Injective σo) (ht : Function.Injective σt) (env : SpecEnv)
    (fuel : Nat) : ∀ (n : QNode) (v : Option VertexId) (a : Asg),
    evalNode env fuel (renNode σo σt n) v (renA σo σt a) =
      (evalNode env fuel n v a).map (List.map (renA σo σt)) := by
  induction fuel with
  | zero => intro n v a; simp [evalNode_zero, R.map]
  | succ fuel ih =>
    -- edges at this fuel
    have hedge : ∀ owners nm ps k c v a,
        evalEdge env fuel owners nm ps (renKind σo σt k) (renNode σo σt c) v (renA σo σt a) =
          (evalEdge env fuel owners nm ps k c v a).map (List.map (renA σo σt)) := by
      intro owners nm ps k c v a
      cases k with
      | plain =>
        simp only [renKind, evalEdge_plain]
        cases v with
        | none => exact ih c none a
        | some x => simp only [ih, flatMapR_map]
      | optional =>
        simp only [renKind, evalEdge_optional]
        split
        · exact ih c none a
        · simp only [ih, flatMapR_map]
      | recurse d =>
        simp only [renKind, evalEdge_recurse]
        cases v with
        | none => exact ih c none a
        | some x => simp only [ih, flatMapR_map]
      | fold fds =>
        simp only [renKind, evalEdge_fold, outNames_renNode]
        cases v with
        | none => simp only [foldMissing_ren, R.map, List.map_cons, List.map_nil]
        | some x =>
          have e0 : ({ tags := (renA σo σt a).tags, outs := [] } : Asg) =
              renA σo σt { tags := a.tags, outs := [] } := by simp [renA]
          simp only [e0, ih, flatMapR_map]
          cases flatMapR (fun n => evalNode env fuel c (some n) { tags := a.tags, outs := [] })
              (edgeNbrs env owners nm ps (some x)) with
          | ok elems => simp only [R.map]; exact foldFinish_ren ho ht env a (some x) fds _ elems
          | panic s => rfl
          | fuel => rfl
    have hfields : ∀ owners (fs : List QField) v (as : List Asg),
        evalFields env fuel owners (renFields σo σt fs) v (as.map (renA σo σt)) =
          (evalFields env fuel owners fs v as).map (List.map (renA σo σt)) := by
      intro owners fs v
      induction fs with
      | nil => intro as; simp [renFields, evalFields_nil, R.map]
      | cons fld rest ihf =>
        intro as
        cases fld with
        | prop nm dirs => simp only [renFields, evalFields_prop]; exact ihf as
        | edge nm ps k c =>
          simp only [renFields, evalFields_edge, flatMapR_map_dom, hedge, flatMapR_map]
          cases flatMapR (fun a => evalEdge env fuel owners nm ps k c v a) as with
          | ok as' => simp only [R.map]; exact ihf as'
          | panic s => rfl
          | fuel => rfl
    intro n v a
    obtain ⟨ct, fields⟩ := n
    simp only [renNode, evalNode_succ, bindProps_ren, propFiltersHold_ren ht, afterFilters_eq_gate]
    have := hfields (ownersOf env v) fields v [bindProps env v fields a]
    simp only [List.map_cons, List.map_nil] at this
    rw [this]
    split
    · cases propFiltersHold env (bindProps env v fields a) v fields with
      | ok b => cases b <;> simp [gate, R.map]
      | panic s => simp [gate, R.map]
      | fuel => simp [gate, R.map]
    · rfl

theorem asgs_ren (ho : Function.Injective σo) (ht : Function.Injective σt) (env : SpecEnv)
    (q : Query) :
    asgs env (onQuery (renNode σo σt) q) = (asgs env q).map (List.map (renA σo σt)) := by
  simp only [asgs, onQuery]
  have e0 : ({ tags := [], outs := [] } : Asg) = renA σo σt { tags := [], outs := [] } := rfl
  rw [← flatMapR_map]
  apply flatMapR_congr
  intro v _
  rw [e0]
  exact evalNode_ren ho ht env sizeBound q.root (some v) _

end Rename


/-! ### rows after renaming -/

/-- Pointwise relation between two lists of the same length. -/
inductive Forall₂ {α β : Type} (P : α → β → Prop) : List α → List β → Prop
  | nil : Forall₂ P [] []
  | cons {a : α} {b : β} {l1 : List α} {l2 : List β} : P a b → Forall₂ P l1 l2 → Forall₂ P (a :: l1) (b :: l2)

theorem Forall₂.of_map {α β γ : Type} (P : β → γ → Prop) (f : α → β) (g : α → γ) (l : List α)
    (h : ∀ a ∈ l, P (f a) (g a)) : Forall₂ P (l.map f) (l.map g) := by
  induction l with
  | nil => exact .nil
  | cons a l ih => exact .cons (h a (by simp)) (ih fun b hb => h b (by simp [hb]))

theorem Forall₂.length_eq {α β : Type} {P : α → β → Prop} {l1 : List α} {l2 : List β}
    (h : Forall₂ P l1 l2) : l1.length = l2.length := by
  induction h with
  | nil => rfl
  | cons _ _ ih => simp [ih]

theorem insertSorted_perm (kv : Name × Value) (r : Row) : (insertSorted kv r).Perm (kv :: r) := by
  induction r with
  | nil => exact List.Perm.refl _
  | cons x xs ih =>
    simp only [insertSorted]
    split
    · exact List.Perm.refl _
    · exact (List.Perm.cons x ih).trans (List.Perm.swap kv x xs)

theorem sortRow_perm (r : Row) : (sortRow r).Perm r := by
  induction r with
  | nil => exact List.Perm.refl _
  | cons kv r ih => exact (insertSorted_perm kv _).trans (List.Perm.cons kv ih)

theorem rows_renameOutputs {σ : Name → Name} (hσ : Function.Injective σ) (env : SpecEnv) (q : Query) :
    rows env (renameOutputs σ q) =
      (asgs env q).map (List.map fun a => sortRow (renameRowKeys σ a.outs)) := by
  rw [rows_eq, renameOutputs, asgs_ren (σo := σ) (σt := id) hσ (fun _ _ h => h)]
  cases asgs env q <;> simp [R.map, rowOf, renA, renameRowKeys]

theorem rows_renameTags {σ : Name → Name} (hσ : Function.Injective σ) (env : SpecEnv) (q : Query) :
    rows env (renameTags σ q) = rows env q := by
  rw [rows_eq, rows_eq, renameTags, asgs_ren (σo := id) (σt := σ) (fun _ _ h => h) hσ]
  cases asgs env q <;> simp [R.map, rowOf, renA]

/-- Row by row, the renamed query's row is the original row with its keys renamed (as a multiset of
`(name, value)` pairs: the row is re-sorted by the new names). -/
theorem rows_renameOutputs_perm {σ : Name → Name} (hσ : Function.Injective σ) (env : SpecEnv)
    (q : Query) (rs : List Row) (h : rows env q = .ok rs) :
    ∃ rs', rows env (renameOutputs σ q) = .ok rs' ∧
      Forall₂ (fun r' r => r'.Perm (renameRowKeys σ r)) rs' rs := by
  obtain ⟨as, has, rfl⟩ := rows_ok.mp h
  refine ⟨_, by rw [rows_renameOutputs hσ, has]; rfl, ?_⟩
  apply Forall₂.of_map
  intro a _
  refine (sortRow_perm _).trans ?_
  simp only [renameRowKeys, rowOf]
  exact ((sortRow_perm a.outs).map _).symm

/-! ### from assignments to rows -/

theorem rows_sublist_of_asgs {env : SpecEnv} {q q' : Query}
    (h : ∀ as as', asgs env q = .ok as → asgs env q' = .ok as' → as'.Sublist as)
    {rs rs' : List Row} (hr : rows env q = .ok rs) (hr' : rows env q' = .ok rs') : rs'.Sublist rs := by
  obtain ⟨as, has, rfl⟩ := rows_ok.mp hr
  obtain ⟨as', has', rfl⟩ := rows_ok.mp hr'
  exact (h as as' has has').map _


/-! ## §6 reordering sibling selections

Swapping two selections changes the *order* in which tags and outputs are appended to an
assignment, never their content.  `AsgEq` identifies assignments up to that order; the denotation
respects it. -/

theorem Forall₂.append {α β : Type} {P : α → β → Prop} {l1 l3 : List α} {l2 l4 : List β}
    (h1 : Forall₂ P l1 l2) (h2 : Forall₂ P l3 l4) : Forall₂ P (l1 ++ l3) (l2 ++ l4) := by
  induction h1 with
  | nil => exact h2
  | cons h _ ih => exact .cons h ih

theorem Forall₂.refl_of {α : Type} {P : α → α → Prop} (h : ∀ a, P a a) (l : List α) : Forall₂ P l l := by
  induction l with
  | nil => exact .nil
  | cons a l ih => exact .cons (h a) ih

theorem Forall₂.flatMap {α β γ δ : Type} {P : α → β → Prop} {Q : γ → δ → Prop} {l1 : List α}
    {l2 : List β} {f : α → List γ} {g : β → List δ} (h : Forall₂ P l1 l2)
    (hfg : ∀ a b, P a b → Forall₂ Q (f a) (g b)) : Forall₂ Q (l1.flatMap f) (l2.flatMap g) := by
  induction h with
  | nil => exact .nil
  | cons h _ ih => simp only [List.flatMap_cons]; exact (hfg _ _ h).append ih

theorem Forall₂.map {α β γ δ : Type} {P : γ → δ → Prop} {l1 : List α} {l2 : List β}
    {Q : α → β → Prop} (h : Forall₂ Q l1 l2) {f : α → γ} {g : β → δ}
    (hfg : ∀ a b, Q a b → P (f a) (g b)) : Forall₂ P (l1.map f) (l2.map g) := by
  induction h with
  | nil => exact .nil
  | cons h _ ih => exact .cons (hfg _ _ h) ih

/-- Same tag bindings (as a lookup table) and same outputs (as a multiset and as a lookup table). -/
structure AsgEq (a b : Asg) : Prop where
  tags : ∀ n, a.tag? n = b.tag? n
  perm : a.outs.Perm b.outs
  outs : ∀ n, a.outs.find? (·.1 == n) = b.outs.find? (·.1 == n)

theorem AsgEq.refl (a : Asg) : AsgEq a a := ⟨fun _ => rfl, List.Perm.refl _, fun _ => rfl⟩

theorem tag?_append (ta t : List (Name × Tagged)) (o : List (Name × Value)) (n : Name) :
    Asg.tag? ⟨ta ++ t, o⟩ n = (Asg.tag? ⟨ta, o⟩ n).or (Asg.tag? ⟨t, o⟩ n) := by
  simp only [Asg.tag?, List.find?_append]
  cases List.find? (fun x => x.1 == n) ta <;> simp

theorem tag?_outs_irrel (t : List (Name × Tagged)) (o o' : List (Name × Value)) (n : Name) :
    Asg.tag? ⟨t, o⟩ n = Asg.tag? ⟨t, o'⟩ n := rfl

theorem AsgEq.append_tags {a b : Asg} (h : AsgEq a b) (t : List (Name × Tagged)) :
    AsgEq ⟨a.tags ++ t, a.outs⟩ ⟨b.tags ++ t, b.outs⟩ := by
  refine ⟨fun n => ?_, h.perm, h.outs⟩
  rw [tag?_append, tag?_append]
  have := h.tags n
  simp only [Asg.tag?] at this ⊢
  rw [this]

theorem AsgEq.append_outs {a b : Asg} (h : AsgEq a b) (o : List (Name × Value)) :
    AsgEq ⟨a.tags, a.outs ++ o⟩ ⟨b.tags, b.outs ++ o⟩ := by
  refine ⟨h.tags, h.perm.append_right o, fun n => ?_⟩
  simp only [List.find?_append, h.outs n]

theorem AsgEq.bindDir {a b : Asg} (h : AsgEq a b) (v : Option VertexId) (value : Value) (d : Dir) :
    AsgEq (bindDir v value a d) (bindDir v value b d) := by
  cases d with
  | filter op arg => exact h
  | tag n => exact h.append_tags _
  | output n => exact h.append_outs _

theorem AsgEq.foldl_bindDir {a b : Asg} (h : AsgEq a b) (v : Option VertexId) (value : Value)
    (dirs : List Dir) : AsgEq (dirs.foldl (SpecMeta.bindDir v value) a) (dirs.foldl (SpecMeta.bindDir v value) b) := by
  induction dirs generalizing a b with
  | nil => exact h
  | cons d dirs ih => exact ih (h.bindDir v value d)

theorem AsgEq.bindProps {a b : Asg} (h : AsgEq a b) (env : SpecEnv) (v : Option VertexId)
    (fields : List QField) : AsgEq (bindProps env v fields a) (bindProps env v fields b) := by
  induction fields generalizing a b with
  | nil => simpa [Spec.bindProps] using h
  | cons fld rest ih =>
    cases fld with
    | prop nm dirs => simp only [bindProps_prop]; exact ih (h.foldl_bindDir v _ dirs)
    | edge nm ps k c => simp only [Spec.bindProps]; exact ih h

/-- A filter looks at the assignment only through the tag it compares with. -/
theorem filterHolds_congr (env : SpecEnv) (a b : Asg) (v : Option VertexId) (left : Value) (op : FOp)
    (arg : QArg) (h : ∀ n, arg = .tag n → a.tag? n = b.tag? n) :
    filterHolds env a v left op arg = filterHolds env b v left op arg := by
  cases v with
  | none => rfl
  | some x =>
    cases op with
    | un o => rfl
    | bin o =>
      cases arg with
      | var n => rfl
      | none => rfl
      | tag n => simp only [filterHolds, h n rfl]

theorem filtersHold_congr (env : SpecEnv) (a b : Asg) (v : Option VertexId) (left : Value)
    (fs : List (FOp × QArg)) (h : ∀ f ∈ fs, ∀ n, f.2 = .tag n → a.tag? n = b.tag? n) :
    filtersHold env a v left fs = filtersHold env b v left fs := by
  induction fs with
  | nil => rfl
  | cons f fs ih =>
    obtain ⟨op, arg⟩ := f
    rw [filtersHold_cons, filtersHold_cons, filterHolds_congr env a b v left op arg (h (op, arg) (by simp)),
      ih (fun f hf => h f (by simp [hf]))]

theorem mem_dirTagUses {dirs : List Dir} {f : FOp × QArg} (hf : f ∈ dirFilters dirs) {n : Name}
    (hn : f.2 = .tag n) : n ∈ dirs.flatMap dirTagUses := by
  simp only [dirFilters, List.mem_filterMap] at hf
  obtain ⟨d, hd, hdf⟩ := hf
  rw [List.mem_flatMap]
  refine ⟨d, hd, ?_⟩
  cases d with
  | filter op arg =>
    simp only [Option.some.injEq] at hdf
    subst hdf
    simp only at hn
    subst hn
    simp [dirTagUses]
  | tag t => simp at hdf
  | output o => simp at hdf

theorem propFiltersHold_congr (env : SpecEnv) (a b : Asg) (v : Option VertexId)
    (fields : List QField) (h : ∀ n ∈ tagUsesFields fields, a.tag? n = b.tag? n) :
    propFiltersHold env a v fields = propFiltersHold env b v fields := by
  induction fields with
  | nil => rfl
  | cons fld rest ih =>
    rw [propFiltersHold_cons, propFiltersHold_cons]
    cases fld with
    | prop nm dirs =>
      simp only [tagUsesFields, List.mem_append] at h
      rw [ih (fun n hn => h n (Or.inr hn))]
      simp only [fieldFilters]
      rw [filtersHold_congr env a b v _ _ (fun f hf n hn => h n (Or.inl (mem_dirTagUses hf hn)))]
    | edge nm ps k c =>
      simp only [tagUsesFields, List.mem_append] at h
      rw [ih (fun n hn => h n (Or.inr hn))]
      simp only [fieldFilters]

/-- Results related by `P` on success, the same failure otherwise. -/
def RelRR (P : List Asg → List Asg → Prop) : R (List Asg) → R (List Asg) → Prop
  | .ok l, .ok l' => P l l'
  | .panic s, .panic s' => s = s'
  | .fuel, .fuel => True
  | _, _ => False

abbrev F₂ := Forall₂ AsgEq

theorem flatMapR_rel {α β : Type} {Q : α → β → Prop} {f : α → R (List Asg)} {g : β → R (List Asg)}
    {xs : List α} {ys : List β} (h : Forall₂ Q xs ys)
    (hfg : ∀ x y, Q x y → RelRR F₂ (f x) (g y)) : RelRR F₂ (flatMapR f xs) (flatMapR g ys) := by
  induction h with
  | nil => exact .nil
  | cons hxy _ ih =>
    rename_i x y xs ys _
    simp only [flatMapR]
    have h1 := hfg x y hxy
    revert h1 ih
    cases f x <;> cases g y <;> simp only [RelRR, false_imp_iff, imp_true_iff] <;>
      cases flatMapR f xs <;> cases flatMapR g ys <;> simp only [RelRR, false_imp_iff, imp_true_iff]
    · intro h1 h2; exact h2.append h1
    all_goals first | (intro h1 h2; exact h2) | (intro h1; exact h1) | (intro h1 h2; exact h1)

theorem RelRR.of_eq (x : R (List Asg)) : RelRR F₂ x x := by
  cases x with
  | ok l => exact Forall₂.refl_of AsgEq.refl l
  | panic s => rfl
  | fuel => trivial

theorem AsgEq.tagStep {a b : Asg} (h : AsgEq a b) (count : Value) (d : FDir) :
    AsgEq (tagStep count a d) (tagStep count b d) := by
  cases d with
  | countTag n => exact h.append_tags _
  | countOutput n => exact h
  | countFilter op arg => exact h

theorem AsgEq.missStep {a b : Asg} (h : AsgEq a b) (d : FDir) :
    AsgEq (missStep a d) (missStep b d) := by
  cases d with
  | countTag n => exact h.append_tags _
  | countOutput n => exact h.append_outs _
  | countFilter op arg => exact h

theorem AsgEq.foldl_step {step : Asg → FDir → Asg}
    (hs : ∀ a b d, AsgEq a b → AsgEq (step a d) (step b d)) {a b : Asg} (h : AsgEq a b)
    (fds : List FDir) : AsgEq (fds.foldl step a) (fds.foldl step b) := by
  induction fds generalizing a b with
  | nil => exact h
  | cons d fds ih => exact ih (hs a b d h)

theorem lookupOut_congr {e e' : Asg} (h : AsgEq e e') (n : Name) : lookupOut e n = lookupOut e' n := by
  simp only [lookupOut, h.outs n]

theorem map_lookupOut_congr {elems elems' : List Asg} (he : F₂ elems elems') (n : Name) :
    elems.map (fun e => lookupOut e n) = elems'.map (fun e => lookupOut e n) := by
  induction he with
  | nil => rfl
  | cons hab _ ih => simp only [List.map_cons, lookupOut_congr hab n, ih]

theorem foldFinish_resp (env : SpecEnv) (v : Option VertexId) (fds : List FDir) (names : List Name)
    {a b : Asg} (h : AsgEq a b) {elems elems' : List Asg} (he : F₂ elems elems') :
    RelRR F₂ (foldFinish env a v fds names elems) (foldFinish env b v fds names elems') := by
  have hc : countOf elems = countOf elems' := by simp [countOf, he.length_eq]
  have hT := AsgEq.foldl_step (step := tagStep (countOf elems)) (fun a b d h => h.tagStep _ d) h fds
  have hl : ∀ n : Name, elems.map (fun e => lookupOut e n) = elems'.map (fun e => lookupOut e n) :=
    fun n => map_lookupOut_congr he n
  simp only [foldFinish, ← hc]
  rw [filtersHold_congr env _ _ v _ _ (fun _ _ n _ => hT.tags n)]
  cases filtersHold env (fds.foldl (tagStep (countOf elems)) b) v (countOf elems) (fds.filterMap fdirFilter) with
  | ok ok =>
    cases ok with
    | false => exact .nil
    | true =>
      refine .cons ?_ .nil
      simp only [foldOk, ← hc, hl]
      exact (hT.append_outs _).append_outs _ |> fun x => by simpa [List.append_assoc] using x
  | panic s => rfl
  | fuel => trivial

/-- "`evalNode` at this fuel respects `AsgEq`" — the induction hypothesis of `evalNode_resp`. -/
def NodeResp (env : SpecEnv) (fuel : Nat) : Prop :=
  ∀ (n : QNode) (v : Option VertexId) (a b : Asg),
    AsgEq a b → RelRR F₂ (evalNode env fuel n v a) (evalNode env fuel n v b)

theorem flatMapR_nbrs_resp {env : SpecEnv} {fuel : Nat} (ih : NodeResp env fuel) (c : QNode)
    (a b : Asg) (l : List VertexId) (hab : AsgEq a b) :
    RelRR F₂ (flatMapR (fun n => evalNode env fuel c (some n) a) l)
      (flatMapR (fun n => evalNode env fuel c (some n) b) l) :=
  flatMapR_rel (Q := Eq) (Forall₂.refl_of (fun _ => rfl) l)
    (fun x y hxy => by subst hxy; exact ih c (some x) a b hab)

theorem evalEdge_resp_of {env : SpecEnv} {fuel : Nat} (ih : NodeResp env fuel) (owners : List Name)
    (nm : Name) (ps : Params) (k : Kind) (c : QNode) (v : Option VertexId) (a b : Asg)
    (hab : AsgEq a b) :
    RelRR F₂ (evalEdge env fuel owners nm ps k c v a) (evalEdge env fuel owners nm ps k c v b) := by
  cases k with
  | plain =>
    simp only [evalEdge_plain]
    cases v with
    | none => exact ih c none a b hab
    | some x => exact flatMapR_nbrs_resp ih c a b _ hab
  | optional =>
    simp only [evalEdge_optional]
    split
    · exact ih c none a b hab
    · exact flatMapR_nbrs_resp ih c a b _ hab
  | recurse d =>
    simp only [evalEdge_recurse]
    cases v with
    | none => exact ih c none a b hab
    | some x => exact flatMapR_nbrs_resp ih c a b _ hab
  | fold fds =>
    simp only [evalEdge_fold]
    cases v with
    | none =>
      refine .cons ?_ .nil
      simp only [foldMissing]
      exact AsgEq.foldl_step (fun a b d h => h.missStep d) (hab.append_outs _) fds
    | some x =>
      have h0 : AsgEq { tags := a.tags, outs := [] } { tags := b.tags, outs := [] } :=
        ⟨hab.tags, List.Perm.refl _, fun _ => rfl⟩
      have he := flatMapR_nbrs_resp ih c _ _ (edgeNbrs env owners nm ps (some x)) h0
      revert he
      cases flatMapR (fun n => evalNode env fuel c (some n) { tags := a.tags, outs := [] })
          (edgeNbrs env owners nm ps (some x)) <;>
        cases flatMapR (fun n => evalNode env fuel c (some n) { tags := b.tags, outs := [] })
          (edgeNbrs env owners nm ps (some x)) <;> simp only [RelRR, false_imp_iff, imp_true_iff]
      · intro he; exact foldFinish_resp env (some x) fds _ hab he
      · intro he; exact he

theorem evalFields_resp_of {env : SpecEnv} {fuel : Nat} (ih : NodeResp env fuel) (owners : List Name)
    (fs : List QField) (v : Option VertexId) (as bs : List Asg) (h : F₂ as bs) :
    RelRR F₂ (evalFields env fuel owners fs v as) (evalFields env fuel owners fs v bs) := by
  induction fs generalizing as bs with
  | nil => simpa [evalFields_nil, RelRR] using h
  | cons fld rest ihf =>
    cases fld with
    | prop nm dirs => simp only [evalFields_prop]; exact ihf as bs h
    | edge nm ps k c =>
      simp only [evalFields_edge]
      have he := flatMapR_rel (f := fun a => evalEdge env fuel owners nm ps k c v a)
        (g := fun a => evalEdge env fuel owners nm ps k c v a) h
        (fun x y hxy => evalEdge_resp_of ih owners nm ps k c v x y hxy)
      revert he
      cases flatMapR (fun a => evalEdge env fuel owners nm ps k c v a) as <;>
        cases flatMapR (fun a => evalEdge env fuel owners nm ps k c v a) bs <;>
        simp only [RelRR, false_imp_iff, imp_true_iff]
      · intro he; exact ihf _ _ he
      · intro he; exact he

/-- The denotation respects `AsgEq`. -/
theorem evalNode_resp (env : SpecEnv) (fuel : Nat) : NodeResp env fuel := by
  induction fuel with
  | zero => intro n v a b _; simp only [evalNode_zero]; trivial
  | succ fuel ih =>
    intro n v a b hab
    obtain ⟨ct, fields⟩ := n
    simp only [evalNode_succ, afterFilters_eq_gate]
    have h1 := hab.bindProps env v fields
    rw [propFiltersHold_congr env _ _ v fields (fun n _ => h1.tags n)]
    split
    · cases propFiltersHold env (bindProps env v fields b) v fields with
      | ok ok =>
        cases ok with
        | true => exact evalFields_resp_of ih _ fields v _ _ (.cons h1 .nil)
        | false => exact .nil
      | panic s => simp [gate, RelRR]
      | fuel => simp [gate, RelRR]
    · exact .nil

theorem evalFields_resp (env : SpecEnv) (fuel : Nat) (owners : List Name) (fs : List QField)
    (v : Option VertexId) (as bs : List Asg) (h : F₂ as bs) :
    RelRR F₂ (evalFields env fuel owners fs v as) (evalFields env fuel owners fs v bs) :=
  evalFields_resp_of (evalNode_resp env fuel) owners fs v as bs h

/-- Continuations respect `AsgEq`. -/
theorem contOf_resp (env : SpecEnv) (fuel : Nat) (owners : List Name) (fs : List QField)
    (v : Option VertexId) (a b : Asg) (h : AsgEq a b) :
    F₂ (contOf env fuel owners fs v a) (contOf env fuel owners fs v b) := by
  have := evalFields_resp env fuel owners fs v [a] [b] (.cons h .nil)
  simp only [contOf]
  revert this
  cases evalFields env fuel owners fs v [a] <;> cases evalFields env fuel owners fs v [b] <;>
    simp only [RelRR, false_imp_iff, imp_true_iff, okOr] <;> first | exact id | (intro; exact .nil)

/-- `F false` and `F true` agree element by element up to `AsgEq`. -/
def f2Rel : ListRel Bool where
  Rel F := F₂ (F false) (F true)
  Good g := ∀ a b, AsgEq a b → F₂ (g a) (g b)
  nil := .nil
  append h1 h2 := h1.append h2
  flatMap hg h := h.flatMap hg

/-- `F false` is a permutation of a list that agrees with `F true` up to `AsgEq`. -/
def PermE (l0 l1 : List Asg) : Prop := ∃ l, l0.Perm l ∧ F₂ l l1

theorem PermE.append {l0 l1 m0 m1 : List Asg} (h1 : PermE l0 l1) (h2 : PermE m0 m1) :
    PermE (l0 ++ m0) (l1 ++ m1) := by
  obtain ⟨l, hl, hf⟩ := h1
  obtain ⟨m, hm, hg⟩ := h2
  exact ⟨l ++ m, hl.append hm, hf.append hg⟩

def permRel : ListRel Bool where
  Rel F := PermE (F false) (F true)
  Good g := ∀ a b, AsgEq a b → F₂ (g a) (g b)
  nil := ⟨[], List.Perm.refl _, .nil⟩
  append h1 h2 := h1.append h2
  flatMap hg h := by
    obtain ⟨l, hl, hf⟩ := h
    exact ⟨l.flatMap _, List.Perm.flatMap_right _ hl, hf.flatMap hg⟩


/-! ### assignments as a base plus an extension -/

/-- `a` extended by the tags and outputs of `δ`. -/
def ext (a δ : Asg) : Asg := { tags := a.tags ++ δ.tags, outs := a.outs ++ δ.outs }

def emptyAsg : Asg := { tags := [], outs := [] }

theorem ext_empty (a : Asg) : ext a emptyAsg = a := by simp [ext, emptyAsg]

theorem ext_assoc (a δ ε : Asg) : ext (ext a δ) ε = ext a (ext δ ε) := by
  simp [ext, List.append_assoc]

theorem ext_inj (a : Asg) {δ ε : Asg} (h : ext a δ = ext a ε) : δ = ε := by
  obtain ⟨t1, o1⟩ := δ
  obtain ⟨t2, o2⟩ := ε
  simp only [ext, Asg.mk.injEq, List.append_cancel_left_eq] at h
  simp [h.1, h.2]

def tagKeys (δ : Asg) : List Name := δ.tags.map (·.1)
def outKeys (δ : Asg) : List Name := δ.outs.map (·.1)

/-- Tag lookup on the bare list. -/
def lookupTag (t : List (Name × Tagged)) (n : Name) : Option Tagged := (t.find? (·.1 == n)).map (·.2)

theorem lookupTag_append (t1 t2 : List (Name × Tagged)) (n : Name) :
    lookupTag (t1 ++ t2) n = (lookupTag t1 n).or (lookupTag t2 n) := by
  simp only [lookupTag, List.find?_append]
  cases List.find? (fun x => x.1 == n) t1 <;> simp

theorem lookupTag_some_mem {t : List (Name × Tagged)} {n : Name} {x : Tagged}
    (h : lookupTag t n = some x) : n ∈ t.map (·.1) := by
  simp only [lookupTag] at h
  cases hf : List.find? (fun x => x.1 == n) t with
  | none => simp [hf] at h
  | some kv =>
    have h1 := List.find?_some hf
    have h2 := List.mem_of_find?_eq_some hf
    simp only [beq_iff_eq] at h1
    exact List.mem_map.mpr ⟨kv, h2, h1⟩

theorem tag?_some_mem {t : List (Name × Tagged)} {o : List (Name × Value)} {n : Name} {x : Tagged}
    (h : Asg.tag? ⟨t, o⟩ n = some x) : n ∈ t.map (·.1) := by
  simp only [Asg.tag?] at h
  cases hf : List.find? (fun x => x.1 == n) t with
  | none => simp [hf] at h
  | some kv =>
    have h1 := List.find?_some hf
    have h2 := List.mem_of_find?_eq_some hf
    simp only [beq_iff_eq] at h1
    exact List.mem_map.mpr ⟨kv, h2, h1⟩

theorem find?_some_mem_keys {o : List (Name × Value)} {n : Name} {x : Name × Value}
    (h : o.find? (·.1 == n) = some x) : n ∈ o.map (·.1) := by
  have h1 := List.find?_some h
  have h2 := List.mem_of_find?_eq_some h
  simp only [beq_iff_eq] at h1
  exact List.mem_map.mpr ⟨x, h2, h1⟩

theorem disjoint_iff {a b : List Name} : disjoint a b = true ↔ ∀ x ∈ a, x ∉ b := by
  simp [disjoint, List.all_eq_true]

/-- Two extensions with different keys commute up to `AsgEq`. -/
theorem AsgEq.ext_comm (a δ ε : Asg) (ht : ∀ x ∈ tagKeys δ, x ∉ tagKeys ε)
    (ho : ∀ x ∈ outKeys δ, x ∉ outKeys ε) : AsgEq (ext (ext a δ) ε) (ext (ext a ε) δ) := by
  refine ⟨fun n => ?_, ?_, fun n => ?_⟩
  · show lookupTag ((a.tags ++ δ.tags) ++ ε.tags) n = lookupTag ((a.tags ++ ε.tags) ++ δ.tags) n
    simp only [lookupTag_append]
    cases lookupTag a.tags n with
    | some x => simp
    | none =>
      simp only [Option.none_or]
      cases hD : lookupTag δ.tags n with
      | none => simp
      | some x =>
        cases hE : lookupTag ε.tags n with
        | none => simp
        | some y => exact absurd (lookupTag_some_mem hE) (ht n (lookupTag_some_mem hD))
  · simp only [ext, List.append_assoc]
    exact List.Perm.append_left _ List.perm_append_comm
  · simp only [ext, List.find?_append]
    cases List.find? (fun x => x.1 == n) a.outs with
    | some x => simp
    | none =>
      simp only [Option.none_or]
      cases hD : List.find? (fun x => x.1 == n) δ.outs with
      | none => simp
      | some x =>
        cases hE : List.find? (fun x => x.1 == n) ε.outs with
        | none => simp
        | some y => exact absurd (find?_some_mem_keys hE) (ho n (find?_some_mem_keys hD))

/-- The tags and outputs one property contributes, as an extension. -/
def propDelta (v : Option VertexId) (value : Value) (dirs : List Dir) : Asg :=
  dirs.foldl (bindDir v value) emptyAsg

theorem foldl_bindDir_ext (v : Option VertexId) (value : Value) (dirs : List Dir) (a δ : Asg) :
    dirs.foldl (bindDir v value) (ext a δ) = ext a (dirs.foldl (bindDir v value) δ) := by
  induction dirs generalizing δ with
  | nil => rfl
  | cons d dirs ih =>
    simp only [List.foldl_cons]
    have : bindDir v value (ext a δ) d = ext a (bindDir v value δ d) := by
      cases d <;> simp [bindDir, ext, List.append_assoc]
    rw [this, ih]

theorem foldl_bindDir_eq_ext (v : Option VertexId) (value : Value) (dirs : List Dir) (a : Asg) :
    dirs.foldl (bindDir v value) a = ext a (propDelta v value dirs) := by
  have := foldl_bindDir_ext v value dirs a emptyAsg
  rwa [ext_empty] at this

theorem tagKeys_foldl_bindDir (v : Option VertexId) (value : Value) (dirs : List Dir) (δ : Asg) :
    tagKeys (dirs.foldl (bindDir v value) δ) = tagKeys δ ++ dirs.flatMap dirTagDefs := by
  induction dirs generalizing δ with
  | nil => simp
  | cons d dirs ih =>
    simp only [List.foldl_cons, ih, List.flatMap_cons]
    cases d <;> simp [bindDir, tagKeys, dirTagDefs]

theorem outKeys_foldl_bindDir (v : Option VertexId) (value : Value) (dirs : List Dir) (δ : Asg) :
    outKeys (dirs.foldl (bindDir v value) δ) = outKeys δ ++ dirs.flatMap dirOutNames := by
  induction dirs generalizing δ with
  | nil => simp
  | cons d dirs ih =>
    simp only [List.foldl_cons, ih, List.flatMap_cons]
    cases d <;> simp [bindDir, outKeys, dirOutNames]

/-! ### swapping a property with its neighbour -/

theorem evalFields_single_prop_like (env : SpecEnv) (fuel : Nat) (owners : List Name) (f : QField)
    (hf : isProp f = true) (v : Option VertexId) (as : List Asg) :
    evalFields env fuel owners [f] v as = .ok as := by
  cases f with
  | prop nm dirs => simp [evalFields_prop, evalFields_nil]
  | edge nm ps k c => simp [isProp] at hf

theorem evalFields_swap_prop (env : SpecEnv) (fuel : Nat) (owners : List Name) (f g : QField)
    (h : isProp f = true ∨ isProp g = true) (rest : List QField) (v : Option VertexId)
    (as : List Asg) :
    evalFields env fuel owners (g :: f :: rest) v as = evalFields env fuel owners (f :: g :: rest) v as := by
  cases f <;> cases g <;> simp [isProp] at h <;> simp only [evalFields_prop, evalFields_edge]

/-- The hypotheses of a swap at position `j`: the two fields there. -/
theorem swapAdj_spec {α : Type} (j : Nat) (l : List α) (f g : α) (hf : l[j]? = some f)
    (hg : l[j + 1]? = some g) :
    ∃ pre post, l = pre ++ f :: g :: post ∧ swapAdj j l = pre ++ g :: f :: post := by
  induction l generalizing j with
  | nil => simp at hf
  | cons a l ih =>
    cases j with
    | zero =>
      simp only [List.getElem?_cons_zero, Option.some.injEq] at hf
      subst hf
      cases l with
      | nil => simp at hg
      | cons b l =>
        simp only [List.getElem?_cons_succ, List.getElem?_cons_zero, Option.some.injEq] at hg
        subst hg
        exact ⟨[], l, rfl, rfl⟩
    | succ j =>
      simp only [List.getElem?_cons_succ] at hf hg
      obtain ⟨pre, post, h1, h2⟩ := ih j hf hg
      exact ⟨a :: pre, post, by simp [h1], by simp [swapAdj, h2]⟩

theorem evalFields_append (env : SpecEnv) (fuel : Nat) (owners : List Name) (pre rest : List QField)
    (v : Option VertexId) (as : List Asg) :
    evalFields env fuel owners (pre ++ rest) v as =
      match evalFields env fuel owners pre v as with
      | .ok as' => evalFields env fuel owners rest v as'
      | .panic s => .panic s
      | .fuel => .fuel := by
  induction pre generalizing as with
  | nil => simp [evalFields_nil]
  | cons f pre ih =>
    rw [List.cons_append, evalFields_cons, evalFields_cons _ _ _ f pre]
    cases evalFields env fuel owners [f] v as with
    | ok as' => exact ih as'
    | panic s => rfl
    | fuel => rfl

theorem propFiltersHold_append (env : SpecEnv) (a : Asg) (v : Option VertexId)
    (pre rest : List QField) :
    propFiltersHold env a v (pre ++ rest) =
      andR (propFiltersHold env a v pre) (propFiltersHold env a v rest) := by
  induction pre with
  | nil => simp [propFiltersHold]
  | cons f pre ih => rw [List.cons_append, propFiltersHold_cons, propFiltersHold_cons, ih, andR_assoc]

theorem bindProps_append (env : SpecEnv) (v : Option VertexId) (pre rest : List QField) (a : Asg) :
    bindProps env v (pre ++ rest) a = bindProps env v rest (bindProps env v pre a) := by
  induction pre generalizing a with
  | nil => simp [bindProps]
  | cons f pre ih =>
    cases f with
    | prop nm dirs => simp only [List.cons_append, bindProps_prop, ih]
    | edge nm ps k c => simp only [List.cons_append, bindProps, ih]

/-- The verdict of the filters does not depend on the order of two adjacent fields, when it exists
in both orders. -/
theorem andR_swap_ok (P F G Q : R Bool) (x y : Bool)
    (h1 : andR P (andR G (andR F Q)) = .ok x) (h2 : andR P (andR F (andR G Q)) = .ok y) : x = y := by
  rcases P with (_ | _) | _ | _ <;> rcases F with (_ | _) | _ | _ <;> rcases G with (_ | _) | _ | _ <;>
    rcases Q with (_ | _) | _ | _ <;> simp_all [andR]

theorem bindProps_swap (env : SpecEnv) (v : Option VertexId) (f g : QField)
    (hok : swapPropsOK f g = true) (rest : List QField) (a : Asg) :
    AsgEq (bindProps env v (g :: f :: rest) a) (bindProps env v (f :: g :: rest) a) := by
  cases f with
  | edge nm ps k c =>
    cases g with
    | edge nm' ps' k' c' => simp [swapPropsOK] at hok
    | prop nm' d' => simp only [bindProps_prop, bindProps]; exact AsgEq.refl _
  | prop nm d =>
    cases g with
    | edge nm' ps' k' c' => simp only [bindProps_prop, bindProps]; exact AsgEq.refl _
    | prop nm' d' =>
      simp only [swapPropsOK, Bool.and_eq_true, disjoint_iff] at hok
      simp only [bindProps_prop]
      apply AsgEq.bindProps
      rw [foldl_bindDir_eq_ext v _ d' a, foldl_bindDir_eq_ext v _ d, foldl_bindDir_eq_ext v _ d a,
        foldl_bindDir_eq_ext v _ d']
      apply AsgEq.ext_comm
      · intro x hx hx'
        rw [propDelta, tagKeys_foldl_bindDir] at hx hx'
        simp only [tagKeys, emptyAsg, List.map_nil, List.nil_append] at hx hx'
        exact hok.1 x hx' hx
      · intro x hx hx'
        rw [propDelta, outKeys_foldl_bindDir] at hx hx'
        simp only [outKeys, emptyAsg, List.map_nil, List.nil_append] at hx hx'
        exact hok.2 x hx' hx

theorem swapPropsOK_isProp {f g : QField} (h : swapPropsOK f g = true) :
    isProp f = true ∨ isProp g = true := by
  cases f <;> cases g <;> simp_all [swapPropsOK, isProp]

theorem swapProps_local (env : SpecEnv) (j : Nat) (t : QNode) (f g : QField)
    (hf : (fieldsOf t)[j]? = some f) (hg : (fieldsOf t)[j + 1]? = some g)
    (hok : swapPropsOK f g = true) (fuel : Nat) (v : Option VertexId) (a : Asg) :
    RelR f2Rel (fun i => evalNode env fuel (pick (swapAtF j) id i t) v a) := by
  intro L hL
  have h0 := hL false
  have h1 := hL true
  simp only [pick, id] at h0 h1
  show F₂ (L false) (L true)
  generalize L false = l0 at h0 ⊢
  generalize L true = l1 at h1 ⊢
  obtain ⟨ct, fields⟩ := t
  simp only [fieldsOf] at hf hg
  obtain ⟨pre, post, e1, e2⟩ := swapAdj_spec j fields f g hf hg
  cases fuel with
  | zero => simp [evalNode_zero] at h1
  | succ fuel =>
    simp only [swapAtF, e2, evalNode_succ, afterFilters_eq_gate] at h0
    simp only [e1, evalNode_succ, afterFilters_eq_gate] at h1
    by_cases hco : coercionOk env ct v = true
    · simp only [hco, if_true] at h0 h1
      -- the two assignments after binding the properties
      have hA : AsgEq (bindProps env v (pre ++ g :: f :: post) a) (bindProps env v (pre ++ f :: g :: post) a) := by
        rw [bindProps_append, bindProps_append]
        exact bindProps_swap env v f g hok post _
      -- same edges
      have hE : ∀ as, evalFields env fuel (ownersOf env v) (pre ++ g :: f :: post) v as =
          evalFields env fuel (ownersOf env v) (pre ++ f :: g :: post) v as := by
        intro as
        rw [evalFields_append, evalFields_append]
        cases evalFields env fuel (ownersOf env v) pre v as with
        | ok as' => exact evalFields_swap_prop env fuel _ f g (swapPropsOK_isProp hok) post v as'
        | panic s => rfl
        | fuel => rfl
      rw [hE, propFiltersHold_congr env _ _ v _ (fun n _ => hA.tags n)] at h0
      -- the verdicts
      obtain ⟨b, hb⟩ : ∃ b, b = bindProps env v (pre ++ f :: g :: post) a := ⟨_, rfl⟩
      rw [← hb] at h0 h1 hA
      have hv : ∀ x y, propFiltersHold env b v (pre ++ g :: f :: post) = .ok x →
          propFiltersHold env b v (pre ++ f :: g :: post) = .ok y → x = y := by
        intro x y hx hy
        rw [propFiltersHold_append, propFiltersHold_cons, propFiltersHold_cons] at hx hy
        exact andR_swap_ok _ _ _ _ x y hx hy
      have hR := evalFields_resp env fuel (ownersOf env v) (pre ++ f :: g :: post) v _ _
        (Forall₂.cons hA .nil)
      cases hp0 : propFiltersHold env b v (pre ++ g :: f :: post) with
      | ok x =>
        cases hp1 : propFiltersHold env b v (pre ++ f :: g :: post) with
        | ok y =>
          have := hv x y hp0 hp1
          subst this
          rw [hp0] at h0
          rw [hp1] at h1
          cases x with
          | false => simp only [gate, R.ok.injEq] at h0 h1; rw [← h0, ← h1]; exact .nil
          | true =>
            simp only [gate] at h0 h1
            rw [h0, h1] at hR
            exact hR
        | panic s => rw [hp1] at h1; simp [gate] at h1
        | fuel => rw [hp1] at h1; simp [gate] at h1
      | panic s => rw [hp0] at h0; simp [gate] at h0
      | fuel => rw [hp0] at h0; simp [gate] at h0
    · simp only [hco] at h0 h1
      cases h0; cases h1; exact .nil

theorem f2Rel_good (env : SpecEnv) (fuel : Nat) (owners : List Name) (rest : List QField)
    (v : Option VertexId) : f2Rel.Good (contOf env fuel owners rest v) :=
  fun a b h => contOf_resp env fuel owners rest v a b h

theorem asgs_swapProps (env : SpecEnv) (q : Query) (p : Path) (j : Nat) (f g : QField)
    (hp : NoFoldPath p q.root) (hf : fieldAt p j q.root = some f)
    (hg : fieldAt p (j + 1) q.root = some g) (hok : swapPropsOK f g = true)
    (as as' : List Asg) (h : asgs env q = .ok as) (h' : asgs env (swapSiblings p j q) = .ok as') :
    F₂ as' as := by
  obtain ⟨t, hdesc⟩ := noFold_descend hp
  have hft : (fieldsOf t)[j]? = some f := by simpa [fieldAt, descend_fieldAt hdesc] using hf
  have hgt : (fieldsOf t)[j + 1]? = some g := by simpa [fieldAt, descend_fieldAt hdesc] using hg
  have := RelR_asgs f2Rel env false (fun fuel owners rest v => f2Rel_good env fuel owners rest v)
    (pick (swapAtF j) id) p q t hdesc
    (fun fuel v a _ => swapProps_local env j t f g hft hgt hok fuel v a) (pick as' as)
  apply this
  intro i
  cases i with
  | false => exact h'
  | true => simpa [pick, onQuery_modNode_id] using h


/-! ### small evaluation lemmas for the directive classifiers -/

@[simp] theorem dirOutName_filter (o : FOp) (a : QArg) : dirOutName (.filter o a) = none := rfl
@[simp] theorem dirOutName_tag (n : Name) : dirOutName (.tag n) = none := rfl
@[simp] theorem dirOutName_output (n : Name) : dirOutName (.output n) = some n := rfl
@[simp] theorem dirOutNames_filter (o : FOp) (a : QArg) : dirOutNames (.filter o a) = [] := rfl
@[simp] theorem dirOutNames_tag (n : Name) : dirOutNames (.tag n) = [] := rfl
@[simp] theorem dirOutNames_output (n : Name) : dirOutNames (.output n) = [n] := rfl
@[simp] theorem fdirOutName_co (n : Name) : fdirOutName (.countOutput n) = some n := rfl
@[simp] theorem fdirOutName_ct (n : Name) : fdirOutName (.countTag n) = none := rfl
@[simp] theorem fdirOutName_cf (o : FOp) (a : QArg) : fdirOutName (.countFilter o a) = none := rfl
@[simp] theorem fdirFilter_co (n : Name) : fdirFilter (.countOutput n) = none := rfl
@[simp] theorem fdirFilter_ct (n : Name) : fdirFilter (.countTag n) = none := rfl
@[simp] theorem fdirFilter_cf (o : FOp) (a : QArg) : fdirFilter (.countFilter o a) = some (o, a) := rfl
@[simp] theorem countOutOf_co (c : Value) (n : Name) : countOutOf c (.countOutput n) = some (n, c) := rfl
@[simp] theorem countOutOf_ct (c : Value) (n : Name) : countOutOf c (.countTag n) = none := rfl
@[simp] theorem countOutOf_cf (c : Value) (o : FOp) (a : QArg) : countOutOf c (.countFilter o a) = none := rfl
@[simp] theorem fdirTagDefs_co (n : Name) : fdirTagDefs (.countOutput n) = [] := rfl
@[simp] theorem fdirTagDefs_ct (n : Name) : fdirTagDefs (.countTag n) = [n] := rfl
@[simp] theorem fdirTagDefs_cf (o : FOp) (a : QArg) : fdirTagDefs (.countFilter o a) = [] := rfl

/-! ### the frame property

Evaluating a subtree under an assignment only *extends* the assignment, and the extensions depend
on the assignment only through the tags the subtree reads. -/

/-- The two assignments give the same value to every tag in `U`. -/
def Agree (U : List Name) (a b : Asg) : Prop := ∀ n ∈ U, a.tag? n = b.tag? n

theorem Agree.mono {U U' : List Name} {a b : Asg} (h : Agree U a b) (hs : ∀ n ∈ U', n ∈ U) :
    Agree U' a b := fun n hn => h n (hs n hn)

theorem tag?_ext (a δ : Asg) (n : Name) : (ext a δ).tag? n = (a.tag? n).or (lookupTag δ.tags n) := by
  show lookupTag (a.tags ++ δ.tags) n = _
  rw [lookupTag_append]; rfl

theorem Agree.ext {U : List Name} {a b : Asg} (h : Agree U a b) (δ : Asg) :
    Agree U (ext a δ) (ext b δ) := by
  intro n hn
  rw [tag?_ext, tag?_ext, h n hn]

/-- Every extension in `Δ` binds tags among `T` and outputs among `O` only. -/
def Bounded (T O : List Name) (Δ : List Asg) : Prop :=
  ∀ δ ∈ Δ, (∀ x ∈ tagKeys δ, x ∈ T) ∧ (∀ x ∈ outKeys δ, x ∈ O)

theorem Bounded.mono {T O T' O' : List Name} {Δ : List Asg} (h : Bounded T O Δ)
    (hT : ∀ x ∈ T, x ∈ T') (hO : ∀ x ∈ O, x ∈ O') : Bounded T' O' Δ :=
  fun δ hδ => ⟨fun x hx => hT x ((h δ hδ).1 x hx), fun x hx => hO x ((h δ hδ).2 x hx)⟩

theorem Bounded.append {T O : List Name} {Δ Δ' : List Asg} (h : Bounded T O Δ) (h' : Bounded T O Δ') :
    Bounded T O (Δ ++ Δ') := by
  intro δ hδ
  rcases List.mem_append.mp hδ with hδ | hδ
  · exact h δ hδ
  · exact h' δ hδ

theorem tagKeys_ext (δ ε : Asg) : tagKeys (ext δ ε) = tagKeys δ ++ tagKeys ε := by simp [tagKeys, ext]
theorem outKeys_ext (δ ε : Asg) : outKeys (ext δ ε) = outKeys δ ++ outKeys ε := by simp [outKeys, ext]

/-- Both results, when they exist, are the same list of extensions applied to `a` resp. `b`. -/
def FrameOK (T O : List Name) (a b : Asg) (X Y : R (List Asg)) : Prop :=
  ∀ La Lb, X = .ok La → Y = .ok Lb →
    ∃ Δ, La = Δ.map (ext a) ∧ Lb = Δ.map (ext b) ∧ Bounded T O Δ

theorem FrameOK.mono {T O T' O' : List Name} {a b : Asg} {X Y : R (List Asg)} (h : FrameOK T O a b X Y)
    (hT : ∀ x ∈ T, x ∈ T') (hO : ∀ x ∈ O, x ∈ O') : FrameOK T' O' a b X Y := by
  intro La Lb hX hY
  obtain ⟨Δ, h1, h2, h3⟩ := h La Lb hX hY
  exact ⟨Δ, h1, h2, h3.mono hT hO⟩

theorem FrameOK.ofFlatMapR {α : Type} {T O : List Name} {a b : Asg} (fa fb : α → R (List Asg))
    (l : List α) (h : ∀ x ∈ l, FrameOK T O a b (fa x) (fb x)) :
    FrameOK T O a b (flatMapR fa l) (flatMapR fb l) := by
  induction l with
  | nil =>
    intro La Lb hX hY
    simp only [flatMapR, R.ok.injEq] at hX hY
    exact ⟨[], by simp [← hX], by simp [← hY], fun _ h => by simp at h⟩
  | cons x l ih =>
    intro La Lb hX hY
    obtain ⟨la, La', h1, h2, rfl⟩ := flatMapR_cons_ok.mp hX
    obtain ⟨lb, Lb', h3, h4, rfl⟩ := flatMapR_cons_ok.mp hY
    obtain ⟨Δ1, e1, e2, b1⟩ := h x (by simp) la lb h1 h3
    obtain ⟨Δ2, e3, e4, b2⟩ := ih (fun y hy => h y (by simp [hy])) La' Lb' h2 h4
    exact ⟨Δ1 ++ Δ2, by simp [e1, e3], by simp [e2, e4], b1.append b2⟩

/-- Starting from extensions of the two bases. -/
theorem FrameOK.ofFlatMapR_ext {T O : List Name} {a b : Asg} (f : Asg → R (List Asg)) (δs : List Asg)
    (hδ : Bounded T O δs)
    (h : ∀ δ ∈ δs, FrameOK T O (ext a δ) (ext b δ) (f (ext a δ)) (f (ext b δ))) :
    FrameOK T O a b (flatMapR f (δs.map (ext a))) (flatMapR f (δs.map (ext b))) := by
  rw [flatMapR_map_dom, flatMapR_map_dom]
  apply FrameOK.ofFlatMapR
  intro δ hδm La Lb hX hY
  obtain ⟨Δ, e1, e2, b1⟩ := h δ hδm La Lb hX hY
  refine ⟨Δ.map (ext δ), ?_, ?_, ?_⟩
  · rw [e1]; simp [ext_assoc]
  · rw [e2]; simp [ext_assoc]
  · intro ε hε
    obtain ⟨ε', hε', rfl⟩ := List.mem_map.mp hε
    constructor
    · intro x hx
      rw [tagKeys_ext] at hx
      rcases List.mem_append.mp hx with hx | hx
      · exact (hδ δ hδm).1 x hx
      · exact (b1 ε' hε').1 x hx
    · intro x hx
      rw [outKeys_ext] at hx
      rcases List.mem_append.mp hx with hx | hx
      · exact (hδ δ hδm).2 x hx
      · exact (b1 ε' hε').2 x hx

/-! #### the pieces of `evalNode` as extensions -/

theorem foldl_step_ext (step : Asg → FDir → Asg)
    (h : ∀ a δ d, step (ext a δ) d = ext a (step δ d)) (fds : List FDir) (a δ : Asg) :
    fds.foldl step (ext a δ) = ext a (fds.foldl step δ) := by
  induction fds generalizing δ with
  | nil => rfl
  | cons d fds ih => simp only [List.foldl_cons, h, ih]

theorem missStep_ext (a δ : Asg) (d : FDir) : missStep (ext a δ) d = ext a (missStep δ d) := by
  cases d <;> simp [missStep, ext, List.append_assoc]

theorem tagStep_ext (count : Value) (a δ : Asg) (d : FDir) :
    tagStep count (ext a δ) d = ext a (tagStep count δ d) := by
  cases d <;> simp [tagStep, ext, List.append_assoc]

theorem bindProps_ext (env : SpecEnv) (v : Option VertexId) (fields : List QField) (a δ : Asg) :
    bindProps env v fields (ext a δ) = ext a (bindProps env v fields δ) := by
  induction fields generalizing δ with
  | nil => simp [bindProps]
  | cons fld rest ih =>
    cases fld with
    | prop nm dirs => simp only [bindProps_prop, foldl_bindDir_ext, ih]
    | edge nm ps k c => simp only [bindProps, ih]

/-- The tags the properties of a node define. -/
def propTagDefs : List QField → List Name
  | [] => []
  | .prop _ dirs :: rest => dirs.flatMap dirTagDefs ++ propTagDefs rest
  | .edge .. :: rest => propTagDefs rest

/-- The outputs the properties of a node define. -/
def propOutNames : List QField → List Name
  | [] => []
  | .prop _ dirs :: rest => dirs.flatMap dirOutNames ++ propOutNames rest
  | .edge .. :: rest => propOutNames rest

theorem tagKeys_bindProps (env : SpecEnv) (v : Option VertexId) (fields : List QField) (δ : Asg) :
    tagKeys (bindProps env v fields δ) = tagKeys δ ++ propTagDefs fields := by
  induction fields generalizing δ with
  | nil => simp [bindProps, propTagDefs]
  | cons fld rest ih =>
    cases fld with
    | prop nm dirs => simp only [bindProps_prop, ih, tagKeys_foldl_bindDir, propTagDefs, List.append_assoc]
    | edge nm ps k c => simp only [bindProps, ih, propTagDefs]

theorem outKeys_bindProps (env : SpecEnv) (v : Option VertexId) (fields : List QField) (δ : Asg) :
    outKeys (bindProps env v fields δ) = outKeys δ ++ propOutNames fields := by
  induction fields generalizing δ with
  | nil => simp [bindProps, propOutNames]
  | cons fld rest ih =>
    cases fld with
    | prop nm dirs => simp only [bindProps_prop, ih, outKeys_foldl_bindDir, propOutNames, List.append_assoc]
    | edge nm ps k c => simp only [bindProps, ih, propOutNames]

theorem propTagDefs_sub (fields : List QField) : ∀ x ∈ propTagDefs fields, x ∈ tagDefsFields fields := by
  induction fields with
  | nil => simp [propTagDefs]
  | cons fld rest ih =>
    cases fld with
    | prop nm dirs =>
      intro x hx
      simp only [propTagDefs, tagDefsFields, List.mem_append] at hx ⊢
      rcases hx with hx | hx
      · exact Or.inl hx
      · exact Or.inr (ih x hx)
    | edge nm ps k c =>
      intro x hx
      simp only [propTagDefs] at hx
      simp only [tagDefsFields, List.mem_append]
      exact Or.inr (ih x hx)

theorem flatMap_dirOutNames (dirs : List Dir) : dirs.flatMap dirOutNames = dirs.filterMap dirOutName := by
  induction dirs with
  | nil => rfl
  | cons d dirs ih => cases d <;> simp [ih, List.filterMap_cons]

theorem propOutNames_sub (fields : List QField) : ∀ x ∈ propOutNames fields, x ∈ outNamesFields fields := by
  induction fields with
  | nil => simp [propOutNames]
  | cons fld rest ih =>
    cases fld with
    | prop nm dirs =>
      intro x hx
      simp only [propOutNames, outNamesFields_prop, List.mem_append, flatMap_dirOutNames] at hx ⊢
      rcases hx with hx | hx
      · exact Or.inl hx
      · exact Or.inr (ih x hx)
    | edge nm ps k c =>
      intro x hx
      simp only [propOutNames] at hx
      simp only [outNamesFields_edge, List.mem_append]
      exact Or.inr (ih x hx)

/-- The tags an edge can add to the assignment it extends. -/
def edgeTagDefs (k : Kind) (c : QNode) : List Name :=
  match k with
  | .fold _ => kindTagDefs k
  | _ => tagDefs c

theorem tagDefsFields_edge (nm : Name) (ps : Params) (k : Kind) (c : QNode) (rest : List QField) :
    tagDefsFields (.edge nm ps k c :: rest) = edgeTagDefs k c ++ tagDefsFields rest := by
  cases k <;> simp [tagDefsFields, edgeTagDefs]

theorem edge_tagDefs_sub (nm : Name) (ps : Params) (k : Kind) (c : QNode) (rest : List QField) :
    (∀ x ∈ edgeTagDefs k c, x ∈ tagDefsFields (.edge nm ps k c :: rest)) ∧
      (∀ x ∈ tagDefsFields rest, x ∈ tagDefsFields (.edge nm ps k c :: rest)) := by
  constructor <;> intro x hx <;> simp only [tagDefsFields_edge, List.mem_append]
  · exact Or.inl hx
  · exact Or.inr hx

theorem tagKeys_foldl_missStep (fds : List FDir) (δ : Asg) :
    tagKeys (fds.foldl missStep δ) = tagKeys δ ++ fds.flatMap fdirTagDefs := by
  induction fds generalizing δ with
  | nil => simp
  | cons d fds ih =>
    simp only [List.foldl_cons, ih, List.flatMap_cons]
    cases d <;> simp [missStep, tagKeys]

theorem tagKeys_foldl_tagStep (count : Value) (fds : List FDir) (δ : Asg) :
    tagKeys (fds.foldl (tagStep count) δ) = tagKeys δ ++ fds.flatMap fdirTagDefs := by
  induction fds generalizing δ with
  | nil => simp
  | cons d fds ih =>
    simp only [List.foldl_cons, ih, List.flatMap_cons]
    cases d <;> simp [tagStep, tagKeys]

theorem outKeys_foldl_tagStep (count : Value) (fds : List FDir) (δ : Asg) :
    outKeys (fds.foldl (tagStep count) δ) = outKeys δ := by
  induction fds generalizing δ with
  | nil => rfl
  | cons d fds ih =>
    simp only [List.foldl_cons, ih]
    cases d <;> simp [tagStep, outKeys]

theorem outKeys_foldl_missStep (fds : List FDir) (δ : Asg) :
    outKeys (fds.foldl missStep δ) = outKeys δ ++ fds.filterMap fdirOutName := by
  induction fds generalizing δ with
  | nil => simp
  | cons d fds ih =>
    simp only [List.foldl_cons, ih]
    cases d <;> simp [missStep, outKeys, List.filterMap_cons]

theorem map_fst_countOutOf (count : Value) (fds : List FDir) :
    (fds.filterMap (countOutOf count)).map (·.1) = fds.filterMap fdirOutName := by
  induction fds with
  | nil => rfl
  | cons d fds ih => cases d <;> simp [ih, List.filterMap_cons]

/-- "`evalNode` at this fuel has the frame property" — the induction hypothesis. -/
def NodeFrame (env : SpecEnv) (fuel : Nat) : Prop :=
  ∀ (n : QNode) (v : Option VertexId) (a b : Asg), Agree (tagUses n) a b →
    FrameOK (tagDefs n) (outNames n) a b (evalNode env fuel n v a) (evalNode env fuel n v b)

theorem foldFinish_frame (env : SpecEnv) (v : Option VertexId) (fds : List FDir) (names : List Name)
    (a b : Asg) (hU : Agree (fds.flatMap fdirTagUses) a b) (Δc : List Asg) (ta tb : List (Name × Tagged)) :
    FrameOK (fds.flatMap fdirTagDefs) (fds.filterMap fdirOutName ++ names) a b
      (foldFinish env a v fds names (Δc.map (ext ⟨ta, []⟩)))
      (foldFinish env b v fds names (Δc.map (ext ⟨tb, []⟩))) := by
  intro La Lb hX hY
  have hc : countOf (Δc.map (ext ⟨tb, []⟩)) = countOf (Δc.map (ext ⟨ta, []⟩)) := by simp [countOf]
  have hl : ∀ n : Name, (Δc.map (ext ⟨tb, []⟩)).map (fun e => lookupOut e n) =
      (Δc.map (ext ⟨ta, []⟩)).map (fun e => lookupOut e n) := by
    intro n
    simp only [List.map_map]
    apply List.map_congr_left
    intro δ _
    simp [Function.comp, lookupOut, ext]
  generalize hcount : countOf (Δc.map (ext ⟨ta, []⟩)) = count at hX hY hc
  have eA : fds.foldl (tagStep count) a = ext a (fds.foldl (tagStep count) emptyAsg) := by
    have := foldl_step_ext (tagStep count) (tagStep_ext count) fds a emptyAsg
    rwa [ext_empty] at this
  have eB : fds.foldl (tagStep count) b = ext b (fds.foldl (tagStep count) emptyAsg) := by
    have := foldl_step_ext (tagStep count) (tagStep_ext count) fds b emptyAsg
    rwa [ext_empty] at this
  simp only [foldFinish, hcount, hc] at hX hY
  have hF : filtersHold env (fds.foldl (tagStep count) a) v count (fds.filterMap fdirFilter) =
      filtersHold env (fds.foldl (tagStep count) b) v count (fds.filterMap fdirFilter) := by
    apply filtersHold_congr
    intro f hf n hn
    rw [eA, eB]
    apply (hU.ext _)
    simp only [List.mem_filterMap] at hf
    obtain ⟨d, hd, hdf⟩ := hf
    rw [List.mem_flatMap]
    refine ⟨d, hd, ?_⟩
    cases d with
    | countFilter op arg =>
      simp only [fdirFilter, Option.some.injEq] at hdf
      subst hdf
      simp only at hn
      subst hn
      simp [fdirTagUses]
    | countTag t => simp [fdirFilter] at hdf
    | countOutput o => simp [fdirFilter] at hdf
  rw [hF] at hX
  cases hv : filtersHold env (fds.foldl (tagStep count) b) v count (fds.filterMap fdirFilter) with
  | ok ok =>
    rw [hv] at hX hY
    cases ok with
    | false =>
      simp only [R.ok.injEq] at hX hY
      exact ⟨[], by simp [← hX], by simp [← hY], fun _ h => by simp at h⟩
    | true =>
      simp only [R.ok.injEq] at hX hY
      let τ := fds.foldl (tagStep count) emptyAsg
      let φ : Asg := Asg.mk τ.tags (τ.outs ++ fds.filterMap (countOutOf count) ++
        names.map (fun n => (n, Value.list ((Δc.map (ext ⟨ta, []⟩)).map (fun e => lookupOut e n)))))
      refine ⟨[φ], ?_, ?_, ?_⟩
      · rw [← hX]
        simp only [foldOk, hcount, eA, List.map_cons, List.map_nil, List.cons.injEq, and_true]
        simp [ext, φ, τ, List.append_assoc]
      · rw [← hY]
        simp only [foldOk, hcount, hc, hl, eB, List.map_cons, List.map_nil, List.cons.injEq, and_true]
        simp [ext, φ, τ, List.append_assoc]
      · intro δ hδ
        simp only [List.mem_singleton] at hδ
        subst hδ
        constructor
        · intro x hx
          have : tagKeys φ = tagKeys τ := rfl
          rw [this, tagKeys_foldl_tagStep] at hx
          simpa [tagKeys, emptyAsg] using hx
        · intro x hx
          have : outKeys φ = outKeys τ ++ (fds.filterMap (countOutOf count)).map (·.1) ++ names := by
            simp only [outKeys, φ, List.map_append, List.map_map]
            congr 1
            exact List.map_id'' (fun _ => rfl) names
          rw [this, outKeys_foldl_tagStep, map_fst_countOutOf] at hx
          simpa [outKeys, emptyAsg] using hx
  | panic s => rw [hv] at hY; cases hY
  | fuel => rw [hv] at hY; cases hY

theorem evalEdge_frame_of {env : SpecEnv} {fuel : Nat} (ih : NodeFrame env fuel) (owners : List Name)
    (nm : Name) (ps : Params) (k : Kind) (c : QNode) (v : Option VertexId) (a b : Asg)
    (hU : Agree (kindTagUses k ++ tagUses c) a b) :
    FrameOK (edgeTagDefs k c) (kindOutNames k ++ outNames c) a b
      (evalEdge env fuel owners nm ps k c v a) (evalEdge env fuel owners nm ps k c v b) := by
  have hUc : Agree (tagUses c) a b := hU.mono (fun n hn => List.mem_append.mpr (Or.inr hn))
  have hchild : ∀ v, FrameOK (tagDefs c) (kindOutNames k ++ outNames c) a b
      (evalNode env fuel c v a) (evalNode env fuel c v b) :=
    fun v => (ih c v a b hUc).mono (fun _ h => h) (fun x hx => List.mem_append.mpr (Or.inr hx))
  cases k with
  | plain =>
    simp only [evalEdge_plain]
    cases v with
    | none => exact hchild none
    | some x => exact FrameOK.ofFlatMapR _ _ _ (fun n _ => hchild (some n))
  | optional =>
    simp only [evalEdge_optional]
    split
    · exact hchild none
    · exact FrameOK.ofFlatMapR _ _ _ (fun n _ => hchild (some n))
  | recurse d =>
    simp only [evalEdge_recurse]
    cases v with
    | none => exact hchild none
    | some x => exact FrameOK.ofFlatMapR _ _ _ (fun n _ => hchild (some n))
  | fold fds =>
    simp only [evalEdge_fold, kindTagDefs, kindOutNames, edgeTagDefs]
    cases v with
    | none =>
      intro La Lb hX hY
      simp only [R.ok.injEq] at hX hY
      have eA : foldMissing a fds (outNames c) = ext a (foldMissing emptyAsg fds (outNames c)) := by
        simp only [foldMissing]
        have := foldl_step_ext missStep missStep_ext fds a
          { tags := [], outs := (outNames c).map fun n => (n, Value.null) }
        simpa [ext, emptyAsg] using this
      have eB : foldMissing b fds (outNames c) = ext b (foldMissing emptyAsg fds (outNames c)) := by
        simp only [foldMissing]
        have := foldl_step_ext missStep missStep_ext fds b
          { tags := [], outs := (outNames c).map fun n => (n, Value.null) }
        simpa [ext, emptyAsg] using this
      refine ⟨[foldMissing emptyAsg fds (outNames c)], by simp [← hX, eA], by simp [← hY, eB], ?_⟩
      intro δ hδ
      simp only [List.mem_singleton] at hδ
      subst hδ
      constructor
      · intro x hx
        simp only [foldMissing, tagKeys_foldl_missStep] at hx
        simpa [tagKeys, emptyAsg] using hx
      · intro x hx
        simp only [foldMissing, outKeys_foldl_missStep] at hx
        simp only [outKeys, emptyAsg, List.nil_append, List.map_map, List.mem_append] at hx
        simp only [List.mem_append]
        rcases hx with hx | hx
        · right; simpa [Function.comp] using hx
        · left; exact hx
    | some x =>
      intro La Lb hX hY
      simp only at hX hY
      cases he0 : flatMapR (fun n => evalNode env fuel c (some n) { tags := a.tags, outs := [] })
          (edgeNbrs env owners nm ps (some x)) with
      | ok ea =>
        cases he1 : flatMapR (fun n => evalNode env fuel c (some n) { tags := b.tags, outs := [] })
            (edgeNbrs env owners nm ps (some x)) with
        | ok eb =>
          rw [he0] at hX
          rw [he1] at hY
          have hU0 : Agree (tagUses c) { tags := a.tags, outs := [] } { tags := b.tags, outs := [] } :=
            fun n hn => hUc n hn
          obtain ⟨Δc, e1, e2, _⟩ := FrameOK.ofFlatMapR (T := tagDefs c) (O := outNames c)
            (fun n => evalNode env fuel c (some n) { tags := a.tags, outs := [] })
            (fun n => evalNode env fuel c (some n) { tags := b.tags, outs := [] })
            (edgeNbrs env owners nm ps (some x)) (fun n _ => ih c (some n) _ _ hU0) ea eb he0 he1
          subst e1; subst e2
          have hUk : Agree (fds.flatMap fdirTagUses) a b :=
            hU.mono (fun n hn => List.mem_append.mpr (Or.inl (by simpa [kindTagUses] using hn)))
          exact foldFinish_frame env (some x) fds (outNames c) a b hUk Δc a.tags b.tags La Lb hX hY
        | panic s => rw [he1] at hY; cases hY
        | fuel => rw [he1] at hY; cases hY
      | panic s => rw [he0] at hX; cases hX
      | fuel => rw [he0] at hX; cases hX


theorem evalFields_frame_of {env : SpecEnv} {fuel : Nat} (ih : NodeFrame env fuel) (owners : List Name)
    (v : Option VertexId) (a b : Asg) (T O : List Name) (fs : List QField)
    (hT : ∀ x ∈ tagDefsFields fs, x ∈ T) (hO : ∀ x ∈ outNamesFields fs, x ∈ O)
    (hU : Agree (tagUsesFields fs) a b) (δs : List Asg) (hδ : Bounded T O δs) :
    FrameOK T O a b (evalFields env fuel owners fs v (δs.map (ext a)))
      (evalFields env fuel owners fs v (δs.map (ext b))) := by
  induction fs generalizing δs with
  | nil =>
    intro La Lb hX hY
    simp only [evalFields_nil, R.ok.injEq] at hX hY
    exact ⟨δs, hX.symm, hY.symm, hδ⟩
  | cons fld rest ihf =>
    cases fld with
    | prop nm dirs =>
      simp only [evalFields_prop]
      apply ihf
      · intro x hx; exact hT x (by simp only [tagDefsFields, List.mem_append]; exact Or.inr hx)
      · intro x hx; exact hO x (by simp only [outNamesFields_prop, List.mem_append]; exact Or.inr hx)
      · exact hU.mono (fun n hn => by simp only [tagUsesFields, List.mem_append]; exact Or.inr hn)
      · exact hδ
    | edge nm ps k c =>
      intro La Lb hX hY
      simp only [evalFields_edge] at hX hY
      cases hxa : flatMapR (fun a' => evalEdge env fuel owners nm ps k c v a') (δs.map (ext a)) with
      | ok Xa =>
        cases hxb : flatMapR (fun a' => evalEdge env fuel owners nm ps k c v a') (δs.map (ext b)) with
        | ok Xb =>
          rw [hxa] at hX
          rw [hxb] at hY
          have hedge : ∀ δ ∈ δs, FrameOK T O (ext a δ) (ext b δ)
              (evalEdge env fuel owners nm ps k c v (ext a δ)) (evalEdge env fuel owners nm ps k c v (ext b δ)) := by
            intro δ _
            have hUe : Agree (kindTagUses k ++ tagUses c) (ext a δ) (ext b δ) :=
              (hU.mono (fun n hn => by
                simp only [tagUsesFields, List.mem_append] at hn ⊢
                exact Or.inl hn)).ext δ
            have hfr := evalEdge_frame_of ih owners nm ps k c v _ _ hUe
            exact hfr.mono (fun x hx => hT x ((edge_tagDefs_sub nm ps k c rest).1 x hx))
              (fun x hx => hO x (by
                simp only [outNamesFields_edge, List.mem_append] at hx ⊢
                exact Or.inl hx))
          obtain ⟨Δ', e1, e2, b1⟩ := FrameOK.ofFlatMapR_ext
            (fun a' => evalEdge env fuel owners nm ps k c v a') δs hδ hedge Xa Xb hxa hxb
          subst e1; subst e2
          refine ihf ?_ ?_ ?_ Δ' b1 La Lb hX hY
          · intro x hx; exact hT x ((edge_tagDefs_sub nm ps k c rest).2 x hx)
          · intro x hx
            exact hO x (by simp only [outNamesFields_edge, List.mem_append]; exact Or.inr hx)
          · exact hU.mono (fun n hn => by simp only [tagUsesFields, List.mem_append]; exact Or.inr hn)
        | panic s => rw [hxb] at hY; cases hY
        | fuel => rw [hxb] at hY; cases hY
      | panic s => rw [hxa] at hX; cases hX
      | fuel => rw [hxa] at hX; cases hX

/-- The frame property of the denotation. -/
theorem evalNode_frame (env : SpecEnv) (fuel : Nat) : NodeFrame env fuel := by
  induction fuel with
  | zero => intro n v a b _ La Lb hX _; simp [evalNode_zero] at hX
  | succ fuel ih =>
    intro n v a b hU La Lb hX hY
    obtain ⟨ct, fields⟩ := n
    simp only [tagUses] at hU
    simp only [evalNode_succ, afterFilters_eq_gate] at hX hY
    have eA : bindProps env v fields a = ext a (bindProps env v fields emptyAsg) := by
      have := bindProps_ext env v fields a emptyAsg
      rwa [ext_empty] at this
    have eB : bindProps env v fields b = ext b (bindProps env v fields emptyAsg) := by
      have := bindProps_ext env v fields b emptyAsg
      rwa [ext_empty] at this
    have nilCase : ∃ Δ, ([] : List Asg) = Δ.map (ext a) ∧ ([] : List Asg) = Δ.map (ext b) ∧
        Bounded (tagDefs (.mk ct fields)) (outNames (.mk ct fields)) Δ :=
      ⟨[], rfl, rfl, fun _ h => by simp at h⟩
    by_cases hco : coercionOk env ct v = true
    · simp only [hco, if_true] at hX hY
      rw [eA] at hX
      rw [eB] at hY
      rw [propFiltersHold_congr env _ _ v fields (fun n hn => (hU.ext _) n hn)] at hX
      cases hp : propFiltersHold env (ext b (bindProps env v fields emptyAsg)) v fields with
      | ok ok =>
        rw [hp] at hX hY
        cases ok with
        | false =>
          simp only [gate, R.ok.injEq] at hX hY
          rw [← hX, ← hY]; exact nilCase
        | true =>
          simp only [gate] at hX hY
          have hb : Bounded (tagDefsFields fields) (outNamesFields fields) [bindProps env v fields emptyAsg] := by
            intro δ hδ
            simp only [List.mem_singleton] at hδ
            subst hδ
            constructor
            · intro x hx
              rw [tagKeys_bindProps] at hx
              exact propTagDefs_sub fields x (by simpa [tagKeys, emptyAsg] using hx)
            · intro x hx
              rw [outKeys_bindProps] at hx
              exact propOutNames_sub fields x (by simpa [outKeys, emptyAsg] using hx)
          exact evalFields_frame_of ih (ownersOf env v) v a b (tagDefsFields fields) (outNamesFields fields)
            fields (fun _ h => h) (fun _ h => h) hU [bindProps env v fields emptyAsg] hb La Lb hX hY
      | panic s => rw [hp] at hY; simp [gate] at hY
      | fuel => rw [hp] at hY; simp [gate] at hY
    · simp only [hco] at hX hY
      simp only [Bool.false_eq_true, if_false, R.ok.injEq] at hX hY
      rw [← hX, ← hY]; exact nilCase


/-! ### swapping two independent edges -/

theorem perm_flatMap_cons {β γ : Type} (l : List β) (g : β → γ) (h : β → List γ) :
    (l.flatMap fun y => g y :: h y).Perm (l.map g ++ l.flatMap h) := by
  induction l with
  | nil => exact List.Perm.refl _
  | cons y l ih =>
    simp only [List.flatMap_cons, List.map_cons, List.cons_append]
    refine List.Perm.cons _ ?_
    exact (List.Perm.append_left _ ih).trans (List.perm_append_comm_assoc _ _ _)

/-- Exchanging two nested loops permutes the results. -/
theorem flatMap_map_swap {α β γ : Type} (l1 : List α) (l2 : List β) (f : α → β → γ) :
    (l2.flatMap fun y => l1.map fun x => f x y).Perm (l1.flatMap fun x => l2.map fun y => f x y) := by
  induction l1 with
  | nil =>
    simp only [List.map_nil, List.flatMap_nil]
    induction l2 with
    | nil => exact List.Perm.refl _
    | cons y l2 ih => simp
  | cons x l1 ih =>
    simp only [List.map_cons, List.flatMap_cons]
    exact (perm_flatMap_cons l2 (fun y => f x y) (fun y => l1.map fun x => f x y)).trans
      (List.Perm.append_left _ ih)

theorem map_ext_inj (a : Asg) {Δ Δ' : List Asg} (h : Δ.map (ext a) = Δ'.map (ext a)) : Δ = Δ' := by
  induction Δ generalizing Δ' with
  | nil => cases Δ' with
    | nil => rfl
    | cons _ _ => simp at h
  | cons δ Δ ih =>
    cases Δ' with
    | nil => simp at h
    | cons δ' Δ' =>
      simp only [List.map_cons, List.cons.injEq] at h
      rw [ext_inj a h.1, ih h.2]

theorem lookupTag_none_of_not_mem {t : List (Name × Tagged)} {n : Name} (h : n ∉ t.map (·.1)) :
    lookupTag t n = none := by
  cases hl : lookupTag t n with
  | none => rfl
  | some x => exact absurd (lookupTag_some_mem hl) h

/-- An extension that binds none of the tags in `U` is invisible to a subtree reading only `U`. -/
theorem agree_of_ext {U : List Name} (a δ : Asg) (h : ∀ n ∈ U, n ∉ tagKeys δ) : Agree U a (ext a δ) := by
  intro n hn
  rw [tag?_ext, lookupTag_none_of_not_mem (h n hn)]
  simp

theorem Agree.refl (U : List Name) (a : Asg) : Agree U a a := fun _ _ => rfl

theorem fieldTagUses_edge (nm : Name) (ps : Params) (k : Kind) (c : QNode) :
    fieldTagUses (.edge nm ps k c) = kindTagUses k ++ tagUses c := by
  simp [fieldTagUses, tagUsesFields]

theorem fieldTagDefs_edge (nm : Name) (ps : Params) (k : Kind) (c : QNode) :
    fieldTagDefs (.edge nm ps k c) = edgeTagDefs k c := by
  rw [fieldTagDefs, tagDefsFields_edge]; simp [tagDefsFields]

theorem outNamesFields_single_edge (nm : Name) (ps : Params) (k : Kind) (c : QNode) :
    outNamesFields [.edge nm ps k c] = kindOutNames k ++ outNames c := by
  rw [outNamesFields_edge]; simp [outNamesFields]

theorem flatMap_congr_mem {α β : Type} {l : List α} {f g : α → List β} (h : ∀ x ∈ l, f x = g x) :
    l.flatMap f = l.flatMap g := by
  induction l with
  | nil => rfl
  | cons x l ih =>
    simp only [List.flatMap_cons, h x (by simp), ih (fun y hy => h y (by simp [hy]))]

theorem Forall₂.flatMap_self {α γ δ : Type} {Q : γ → δ → Prop} (l : List α) {f : α → List γ}
    {g : α → List δ} (h : ∀ x ∈ l, Forall₂ Q (f x) (g x)) : Forall₂ Q (l.flatMap f) (l.flatMap g) := by
  induction l with
  | nil => exact .nil
  | cons x l ih =>
    simp only [List.flatMap_cons]
    exact (h x (by simp)).append (ih fun y hy => h y (by simp [hy]))

/-- One edge after the other, from one assignment, when the two are independent: the result is the
"product" of their separate extensions. -/
theorem two_edges_product (env : SpecEnv) (fuel : Nat) (owners : List Name) (v : Option VertexId)
    (nm1 nm2 : Name) (ps1 ps2 : Params) (k1 k2 : Kind) (c1 c2 : QNode) (a : Asg)
    (hdis : ∀ n ∈ kindTagUses k2 ++ tagUses c2, n ∉ edgeTagDefs k1 c1)
    (Δ1 Δ2 : List Asg)
    (h1 : evalEdge env fuel owners nm1 ps1 k1 c1 v a = .ok (Δ1.map (ext a)))
    (hb1 : Bounded (edgeTagDefs k1 c1) (kindOutNames k1 ++ outNames c1) Δ1)
    (h2 : evalEdge env fuel owners nm2 ps2 k2 c2 v a = .ok (Δ2.map (ext a)))
    (X : List Asg)
    (hX : evalFields env fuel owners [.edge nm1 ps1 k1 c1, .edge nm2 ps2 k2 c2] v [a] = .ok X) :
    X = Δ1.flatMap fun δ1 => Δ2.map fun δ2 => ext (ext a δ1) δ2 := by
  obtain ⟨Y, hY, hX2⟩ := evalFields_cons_ok.mp hX
  rw [evalFields_single_edge_single, h1] at hY
  cases hY
  rw [evalFields_single_edge] at hX2
  obtain ⟨hall, rfl⟩ := flatMapR_ok hX2
  rw [List.flatMap_map]
  apply flatMap_congr_mem
  intro δ1 hδ1
  have hz := hall (ext a δ1) (List.mem_map.mpr ⟨δ1, hδ1, rfl⟩)
  have hAg : Agree (kindTagUses k2 ++ tagUses c2) a (ext a δ1) :=
    agree_of_ext a δ1 (fun n hn hk => hdis n hn ((hb1 δ1 hδ1).1 n hk))
  obtain ⟨Δ', e1, e2, _⟩ := evalEdge_frame_of (evalNode_frame env fuel) owners nm2 ps2 k2 c2 v a (ext a δ1) hAg
    _ _ h2 hz
  have := map_ext_inj a e1
  subst this
  exact e2

theorem swapEdges_core (env : SpecEnv) (fuel : Nat) (owners : List Name) (v : Option VertexId)
    (E1 E2 : QField) (hok : swapEdgesOK E1 E2 = true) (a : Asg) (X0 X1 : List Asg)
    (h0 : evalFields env fuel owners [E2, E1] v [a] = .ok X0)
    (h1 : evalFields env fuel owners [E1, E2] v [a] = .ok X1) : PermE X0 X1 := by
  cases E1 with
  | prop nm dirs => simp [swapEdgesOK, isProp] at hok
  | edge nm1 ps1 k1 c1 =>
    cases E2 with
    | prop nm dirs => simp [swapEdgesOK, isProp] at hok
    | edge nm2 ps2 k2 c2 =>
      simp only [swapEdgesOK, isProp, Bool.not_false, Bool.true_and, Bool.and_eq_true, independent,
        disjoint_iff, fieldTagUses_edge, fieldTagDefs_edge, outNamesFields_single_edge] at hok
      obtain ⟨⟨⟨hd12, hd21⟩, hdd⟩, hoo⟩ := hok
      -- both edges succeed on `a`
      obtain ⟨Y1, hY1, _⟩ := evalFields_cons_ok.mp h1
      obtain ⟨Y2, hY2, _⟩ := evalFields_cons_ok.mp h0
      rw [evalFields_single_edge_single] at hY1 hY2
      obtain ⟨Δ1, e1, _, b1⟩ := evalEdge_frame_of (evalNode_frame env fuel) owners nm1 ps1 k1 c1 v a a
        (Agree.refl _ a) _ _ hY1 hY1
      obtain ⟨Δ2, e2, _, b2⟩ := evalEdge_frame_of (evalNode_frame env fuel) owners nm2 ps2 k2 c2 v a a
        (Agree.refl _ a) _ _ hY2 hY2
      subst e1; subst e2
      have p1 := two_edges_product env fuel owners v nm1 nm2 ps1 ps2 k1 k2 c1 c2 a
        (fun n hn hk => hd12 n hk hn) Δ1 Δ2 hY1 b1 hY2 X1 h1
      have p0 := two_edges_product env fuel owners v nm2 nm1 ps2 ps1 k2 k1 c2 c1 a
        (fun n hn hk => hd21 n hk hn) Δ2 Δ1 hY2 b2 hY1 X0 h0
      subst p1; subst p0
      refine ⟨Δ1.flatMap fun δ1 => Δ2.map fun δ2 => ext (ext a δ2) δ1,
        flatMap_map_swap Δ1 Δ2 (fun δ1 δ2 => ext (ext a δ2) δ1), ?_⟩
      apply Forall₂.flatMap_self
      intro δ1 hm
      apply Forall₂.of_map
      intro δ2 hδ2
      apply AsgEq.ext_comm
      · intro x hx hx'
        exact hdd x ((b1 δ1 hm).1 x hx') ((b2 δ2 hδ2).1 x hx)
      · intro x hx hx'
        exact hoo x ((b1 δ1 hm).2 x hx') ((b2 δ2 hδ2).2 x hx)


theorem PermE.nil : PermE [] [] := ⟨[], List.Perm.refl _, .nil⟩

theorem PermE.flatMap_family (as : List Asg) (f g : Asg → List Asg)
    (h : ∀ a ∈ as, PermE (f a) (g a)) : PermE (as.flatMap f) (as.flatMap g) := by
  induction as with
  | nil => exact PermE.nil
  | cons a as ih =>
    simp only [List.flatMap_cons]
    exact (h a (by simp)).append (ih fun b hb => h b (by simp [hb]))

theorem swapEdgesOK_not_prop {f g : QField} (h : swapEdgesOK f g = true) :
    isProp f = false ∧ isProp g = false := by
  simp only [swapEdgesOK, Bool.and_eq_true, Bool.not_eq_true'] at h
  exact ⟨h.1.1.1, h.1.1.2⟩

theorem swapEdges_local (env : SpecEnv) (j : Nat) (t : QNode) (E1 E2 : QField)
    (hf : (fieldsOf t)[j]? = some E1) (hg : (fieldsOf t)[j + 1]? = some E2)
    (hok : swapEdgesOK E1 E2 = true) (fuel : Nat) (v : Option VertexId) (a : Asg) :
    RelR permRel (fun i => evalNode env fuel (pick (swapAtF j) id i t) v a) := by
  intro L hL
  have h0 := hL false
  have h1 := hL true
  simp only [pick, id] at h0 h1
  show PermE (L false) (L true)
  generalize L false = l0 at h0 ⊢
  generalize L true = l1 at h1 ⊢
  obtain ⟨ct, fields⟩ := t
  simp only [fieldsOf] at hf hg
  obtain ⟨pre, post, e1, e2⟩ := swapAdj_spec j fields E1 E2 hf hg
  obtain ⟨np1, np2⟩ := swapEdgesOK_not_prop hok
  cases fuel with
  | zero => simp [evalNode_zero] at h1
  | succ fuel =>
    simp only [swapAtF, e2, evalNode_succ, afterFilters_eq_gate] at h0
    simp only [e1, evalNode_succ, afterFilters_eq_gate] at h1
    have hB : ∀ b, bindProps env v (pre ++ E2 :: E1 :: post) b = bindProps env v (pre ++ E1 :: E2 :: post) b := by
      intro b
      simp only [bindProps_append, bindProps_edge_like env v _ np1, bindProps_edge_like env v _ np2]
    have hP : ∀ b, propFiltersHold env b v (pre ++ E2 :: E1 :: post) =
        propFiltersHold env b v (pre ++ E1 :: E2 :: post) := by
      intro b
      simp only [propFiltersHold_append, propFiltersHold_edge_like env v _ np1,
        propFiltersHold_edge_like env v _ np2]
    rw [hB, hP] at h0
    by_cases hco : coercionOk env ct v = true
    · simp only [hco, if_true] at h0 h1
      cases hp : propFiltersHold env (bindProps env v (pre ++ E1 :: E2 :: post) a) v (pre ++ E1 :: E2 :: post) with
      | ok ok =>
        rw [hp] at h0 h1
        cases ok with
        | false =>
          simp only [gate, R.ok.injEq] at h0 h1
          rw [← h0, ← h1]; exact PermE.nil
        | true =>
          simp only [gate] at h0 h1
          rw [evalFields_append] at h0 h1
          cases hpre : evalFields env fuel (ownersOf env v) pre v [bindProps env v (pre ++ E1 :: E2 :: post) a] with
          | ok as0 =>
            rw [hpre] at h0 h1
            have h0' : evalFields env fuel (ownersOf env v) ([E2, E1] ++ post) v as0 = .ok l0 := h0
            have h1' : evalFields env fuel (ownersOf env v) ([E1, E2] ++ post) v as0 = .ok l1 := h1
            rw [evalFields_append] at h0' h1'
            cases hm0 : evalFields env fuel (ownersOf env v) [E2, E1] v as0 with
            | ok M0 =>
              cases hm1 : evalFields env fuel (ownersOf env v) [E1, E2] v as0 with
              | ok M1 =>
                rw [hm0] at h0'
                rw [hm1] at h1'
                obtain ⟨s0, rfl⟩ := evalFields_ok_flatMap hm0
                obtain ⟨s1, rfl⟩ := evalFields_ok_flatMap hm1
                have hM : PermE (as0.flatMap (contOf env fuel (ownersOf env v) [E2, E1] v))
                    (as0.flatMap (contOf env fuel (ownersOf env v) [E1, E2] v)) := by
                  apply PermE.flatMap_family
                  intro b hb
                  exact swapEdges_core env fuel (ownersOf env v) v E1 E2 hok b _ _ (s0 b hb) (s1 b hb)
                rw [(evalFields_ok_flatMap h0').2, (evalFields_ok_flatMap h1').2]
                exact permRel.flatMap (fun x y hxy => contOf_resp env fuel (ownersOf env v) post v x y hxy)
                  (F := pick _ _) hM
              | panic s => rw [hm1] at h1'; cases h1'
              | fuel => rw [hm1] at h1'; cases h1'
            | panic s => rw [hm0] at h0'; cases h0'
            | fuel => rw [hm0] at h0'; cases h0'
          | panic s => rw [hpre] at h1; cases h1
          | fuel => rw [hpre] at h1; cases h1
      | panic s => rw [hp] at h1; simp [gate] at h1
      | fuel => rw [hp] at h1; simp [gate] at h1
    · simp only [hco] at h0 h1
      cases h0; cases h1; exact PermE.nil

theorem asgs_swapEdges (env : SpecEnv) (q : Query) (p : Path) (j : Nat) (E1 E2 : QField)
    (hp : NoFoldPath p q.root) (hf : fieldAt p j q.root = some E1)
    (hg : fieldAt p (j + 1) q.root = some E2) (hok : swapEdgesOK E1 E2 = true)
    (as as' : List Asg) (h : asgs env q = .ok as) (h' : asgs env (swapSiblings p j q) = .ok as') :
    PermE as' as := by
  obtain ⟨t, hdesc⟩ := noFold_descend hp
  have hft : (fieldsOf t)[j]? = some E1 := by simpa [fieldAt, descend_fieldAt hdesc] using hf
  have hgt : (fieldsOf t)[j + 1]? = some E2 := by simpa [fieldAt, descend_fieldAt hdesc] using hg
  have := RelR_asgs permRel env false (fun fuel owners rest v => f2Rel_good env fuel owners rest v)
    (pick (swapAtF j) id) p q t hdesc
    (fun fuel v a _ => swapEdges_local env j t E1 E2 hft hgt hok fuel v a) (pick as' as)
  apply this
  intro i
  cases i with
  | false => exact h'
  | true => simpa [pick, onQuery_modNode_id] using h

/-! ### rows after a swap -/

theorem rowOf_perm_of_asgEq {a b : Asg} (h : AsgEq a b) : (rowOf a).Perm (rowOf b) :=
  (sortRow_perm a.outs).trans (h.perm.trans (sortRow_perm b.outs).symm)

/-- Rows after swapping a property with its neighbour: same rows in the same order, each row the same
multiset of `(name, value)` pairs. -/
theorem rows_swapProps (env : SpecEnv) (q : Query) (p : Path) (j : Nat) (f g : QField)
    (hp : NoFoldPath p q.root) (hf : fieldAt p j q.root = some f)
    (hg : fieldAt p (j + 1) q.root = some g) (hok : swapPropsOK f g = true)
    (rs rs' : List Row) (h : rows env q = .ok rs) (h' : rows env (swapSiblings p j q) = .ok rs') :
    Forall₂ (fun r' r => r'.Perm r) rs' rs := by
  obtain ⟨as, has, rfl⟩ := rows_ok.mp h
  obtain ⟨as', has', rfl⟩ := rows_ok.mp h'
  exact (asgs_swapProps env q p j f g hp hf hg hok as as' has has').map
    (fun a b hab => rowOf_perm_of_asgEq hab)

/-- Rows after swapping two independent edges: a permutation of the rows, up to the order of the
`(name, value)` pairs inside a row. -/
theorem rows_swapEdges (env : SpecEnv) (q : Query) (p : Path) (j : Nat) (E1 E2 : QField)
    (hp : NoFoldPath p q.root) (hf : fieldAt p j q.root = some E1)
    (hg : fieldAt p (j + 1) q.root = some E2) (hok : swapEdgesOK E1 E2 = true)
    (rs rs' : List Row) (h : rows env q = .ok rs) (h' : rows env (swapSiblings p j q) = .ok rs') :
    ∃ rs'', rs'.Perm rs'' ∧ Forall₂ (fun r' r => r'.Perm r) rs'' rs := by
  obtain ⟨as, has, rfl⟩ := rows_ok.mp h
  obtain ⟨as', has', rfl⟩ := rows_ok.mp h'
  obtain ⟨l, hl, hf2⟩ := asgs_swapEdges env q p j E1 E2 hp hf hg hok as as' has has'
  exact ⟨l.map rowOf, hl.map rowOf, hf2.map (fun a b hab => rowOf_perm_of_asgEq hab)⟩


/-! ### rows with distinct output names: the sorted row is canonical -/

/-- Sorted by key (weakly). -/
def RowSorted (r : Row) : Prop := r.Pairwise fun x y => ¬ (y.1 < x.1)

theorem mem_insertSorted {kv x : Name × Value} {r : Row} (h : x ∈ insertSorted kv r) : x = kv ∨ x ∈ r := by
  have := (insertSorted_perm kv r).mem_iff.mp h
  simpa using this

theorem insertSorted_sorted (kv : Name × Value) (r : Row) (h : RowSorted r) : RowSorted (insertSorted kv r) := by
  induction r with
  | nil => simp [insertSorted, RowSorted]
  | cons x xs ih =>
    simp only [RowSorted, List.pairwise_cons] at h
    simp only [insertSorted]
    split
    · rename_i hlt
      simp only [RowSorted, List.pairwise_cons]
      refine ⟨?_, h⟩
      intro y hy
      rcases List.mem_cons.mp hy with rfl | hy
      · exact String.lt_asymm hlt
      · exact fun hyk => h.1 y hy (String.lt_trans hyk hlt)
    · rename_i hnl
      simp only [RowSorted, List.pairwise_cons]
      refine ⟨?_, ih h.2⟩
      intro y hy
      rcases mem_insertSorted hy with rfl | hy
      · exact hnl
      · exact h.1 y hy

theorem sortRow_sorted (r : Row) : RowSorted (sortRow r) := by
  induction r with
  | nil => simp [sortRow, RowSorted]
  | cons kv r ih => exact insertSorted_sorted kv _ ih

theorem eq_of_key_eq {l : Row} (hn : (l.map (·.1)).Nodup) {a b : Name × Value} (ha : a ∈ l) (hb : b ∈ l)
    (h : a.1 = b.1) : a = b := by
  induction l with
  | nil => simp at ha
  | cons x xs ih =>
    simp only [List.map_cons, List.nodup_cons] at hn
    have key : ∀ c : Name × Value, c ∈ xs → c.1 ≠ x.1 :=
      fun c hc heq => hn.1 (List.mem_map.mpr ⟨c, hc, heq⟩)
    rcases List.mem_cons.mp ha with hax | hax
    · rcases List.mem_cons.mp hb with hbx | hbx
      · rw [hax, hbx]
      · exact absurd (by rw [← h, hax]) (key b hbx)
    · rcases List.mem_cons.mp hb with hbx | hbx
      · exact absurd (by rw [h, hbx]) (key a hax)
      · exact ih hn.2 hax hbx

/-- Two sorted rows with the same `(name, value)` pairs and distinct names are equal. -/
theorem eq_of_perm_sorted {l1 l2 : Row} (hp : l1.Perm l2) (h1 : RowSorted l1) (h2 : RowSorted l2)
    (hn : (l1.map (·.1)).Nodup) : l1 = l2 := by
  refine List.Perm.eq_of_pairwise ?_ h1 h2 hp
  intro a b ha hb hab hba
  have hk : a.1 = b.1 := String.le_antisymm (String.not_lt.mp hab) (String.not_lt.mp hba)
  exact eq_of_key_eq hn ha (hp.mem_iff.mpr hb) hk

theorem rows_sorted {env : SpecEnv} {q : Query} {rs : List Row} (h : rows env q = .ok rs) :
    ∀ r ∈ rs, RowSorted r := by
  obtain ⟨as, _, rfl⟩ := rows_ok.mp h
  intro r hr
  obtain ⟨a, _, rfl⟩ := List.mem_map.mp hr
  exact sortRow_sorted _

/-- Rows whose output names are pairwise distinct. -/
def DistinctKeys (rs : List Row) : Prop := ∀ r ∈ rs, (r.map (·.1)).Nodup

theorem forall₂_perm_eq {rs' rs : List Row} (h : Forall₂ (fun r' r => r'.Perm r) rs' rs)
    (hs' : ∀ r ∈ rs', RowSorted r) (hs : ∀ r ∈ rs, RowSorted r) (hd : DistinctKeys rs) : rs' = rs := by
  induction h with
  | nil => rfl
  | cons hab _ ih =>
    rename_i a b l1 l2 _
    have e : a = b := by
      refine eq_of_perm_sorted hab (hs' a (by simp)) (hs b (by simp)) ?_
      exact (hab.map (·.1)).nodup_iff.mpr (hd b (by simp))
    rw [e, ih (fun r hr => hs' r (by simp [hr])) (fun r hr => hs r (by simp [hr]))
      (fun r hr => hd r (by simp [hr]))]

theorem renameRowKeys_nodup {σ : Name → Name} (hσ : Function.Injective σ) {r : Row}
    (h : (r.map (·.1)).Nodup) : ((renameRowKeys σ r).map (·.1)).Nodup := by
  simp only [renameRowKeys, List.map_map]
  have : ((fun x : Name × Value => x.1) ∘ fun kv : Name × Value => (σ kv.1, kv.2)) = σ ∘ (·.1) := rfl
  rw [this, ← List.map_map]
  exact (List.pairwise_map.mpr (h.imp fun hne heq => hne (hσ heq)))

/-- With distinct output names the renamed query's rows are the original rows, renamed and re-sorted. -/
theorem rows_renameOutputs_eq {σ : Name → Name} (hσ : Function.Injective σ) (env : SpecEnv) (q : Query)
    (rs : List Row) (h : rows env q = .ok rs) (hd : DistinctKeys rs) :
    rows env (renameOutputs σ q) = .ok (rs.map fun r => sortRow (renameRowKeys σ r)) := by
  obtain ⟨rs', h', hf⟩ := rows_renameOutputs_perm hσ env q rs h
  rw [h']
  congr 1
  have hf2 : Forall₂ (fun r' r => r'.Perm r) rs' (rs.map fun r => sortRow (renameRowKeys σ r)) := by
    clear h h' hd
    induction hf with
    | nil => exact .nil
    | cons hab _ ih => exact .cons (hab.trans (sortRow_perm _).symm) ih
  refine forall₂_perm_eq hf2 (rows_sorted h') ?_ ?_
  · intro r hr
    obtain ⟨r0, _, rfl⟩ := List.mem_map.mp hr
    exact sortRow_sorted _
  · intro r hr
    obtain ⟨r0, hr0, rfl⟩ := List.mem_map.mp hr
    exact ((sortRow_perm _).map (·.1)).nodup_iff.mpr (renameRowKeys_nodup hσ (hd r0 hr0))


/-- With distinct output names, swapping a property with its neighbour changes nothing. -/
theorem rows_swapProps_eq (env : SpecEnv) (q : Query) (p : Path) (j : Nat) (f g : QField)
    (hp : NoFoldPath p q.root) (hf : fieldAt p j q.root = some f)
    (hg : fieldAt p (j + 1) q.root = some g) (hok : swapPropsOK f g = true)
    (rs rs' : List Row) (h : rows env q = .ok rs) (h' : rows env (swapSiblings p j q) = .ok rs')
    (hd : DistinctKeys rs) : rs' = rs :=
  forall₂_perm_eq (rows_swapProps env q p j f g hp hf hg hok rs rs' h h') (rows_sorted h')
    (rows_sorted h) hd

/-- With distinct output names, swapping two independent edges permutes the rows. -/
theorem rows_swapEdges_perm (env : SpecEnv) (q : Query) (p : Path) (j : Nat) (E1 E2 : QField)
    (hp : NoFoldPath p q.root) (hf : fieldAt p j q.root = some E1)
    (hg : fieldAt p (j + 1) q.root = some E2) (hok : swapEdgesOK E1 E2 = true)
    (rs rs' : List Row) (h : rows env q = .ok rs) (h' : rows env (swapSiblings p j q) = .ok rs')
    (hd : DistinctKeys rs) : rs'.Perm rs := by
  obtain ⟨as, has, rfl⟩ := rows_ok.mp h
  obtain ⟨as', has', rfl⟩ := rows_ok.mp h'
  obtain ⟨l, hl, hf2⟩ := asgs_swapEdges env q p j E1 E2 hp hf hg hok as as' has has'
  have e : l.map rowOf = as.map rowOf := by
    refine forall₂_perm_eq (hf2.map (fun a b hab => rowOf_perm_of_asgEq hab)) ?_ (rows_sorted h) hd
    intro r hr
    obtain ⟨a, _, rfl⟩ := List.mem_map.mp hr
    exact sortRow_sorted _
  rw [← e]
  exact hl.map rowOf


/-! ### `negateFilter` on a filter just added is the addition of the complement -/

theorem modify_congr_at {α : Type} (l : List α) (j : Nat) (f g : α → α)
    (h : ∀ x, l[j]? = some x → f x = g x) : l.modify j f = l.modify j g := by
  induction l generalizing j with
  | nil => simp
  | cons a l ih =>
    cases j with
    | zero => simp [List.modify_zero_cons, h a (by simp)]
    | succ j => simp only [List.modify_succ_cons]; rw [ih j (fun x hx => h x (by simpa using hx))]

theorem onChild_comp (f g : QNode → QNode) : onChild f ∘ onChild g = onChild (f ∘ g) := by
  funext fld; cases fld <;> rfl

theorem modNode_comp (f g : QNode → QNode) (p : Path) (n : QNode) :
    modNode f p (modNode g p n) = modNode (f ∘ g) p n := by
  induction p generalizing n with
  | nil => rfl
  | cons i p ih =>
    obtain ⟨ct, fields⟩ := n
    simp only [modNode, List.modify_modify_eq, onChild_comp]
    congr 1
    apply modify_congr_at
    intro x _
    cases x with
    | prop nm dirs => rfl
    | edge nm ps k c => simp [onChild, ih]

/-- `modNode` only looks at what its function does to the node at the end of the path. -/
theorem modNode_congr_at (f g : QNode → QNode) (p : Path) (n : QNode)
    (h : ∀ t, descend anyKind p n = some t → f t = g t) : modNode f p n = modNode g p n := by
  induction p generalizing n with
  | nil => exact h n rfl
  | cons i p ih =>
    obtain ⟨ct, fields⟩ := n
    simp only [modNode]
    congr 1
    apply modify_congr_at
    intro x hx
    cases x with
    | prop nm dirs => rfl
    | edge nm ps k c =>
      simp only [onChild]
      congr 1
      apply ih
      intro t ht
      apply h
      simp [descend, hx, anyKind, ht]

theorem modify_insert_at {α : Type} (l : List α) (k : Nat) (x : α) (g : α → α) (hk : k ≤ l.length) :
    (l.take k ++ [x] ++ l.drop k).modify k g = l.take k ++ [g x] ++ l.drop k := by
  induction l generalizing k with
  | nil =>
    have : k = 0 := by simpa using hk
    subst this; simp [List.modify_zero_cons]
  | cons a l ih =>
    cases k with
    | zero => simp [List.modify_zero_cons]
    | succ k =>
      have := ih k (by simpa using hk)
      simp only [List.append_assoc, List.singleton_append] at this ⊢
      simp only [List.take_succ_cons, List.drop_succ_cons, List.cons_append, List.modify_succ_cons, this]

theorem negateFilter_addFilter (p : Path) (j k : Nat) (op nop : FOp) (arg : QArg) (q : Query)
    (hneg : negOp op = some nop)
    (hk : ∀ nm dirs, fieldAt p j q.root = some (.prop nm dirs) → k ≤ dirs.length) :
    negateFilter p j k (addFilter p j k op arg q) = addFilter p j k nop arg q := by
  simp only [negateFilter, addFilter, onQuery]
  congr 1
  rw [modNode_comp]
  apply modNode_congr_at
  intro t ht
  obtain ⟨ct, fields⟩ := t
  simp only [Function.comp, modField, List.modify_modify_eq]
  congr 1
  apply modify_congr_at
  intro x hx
  cases x with
  | edge nm ps kd c => rfl
  | prop nm dirs =>
    have hkd : k ≤ dirs.length := hk nm dirs (by simp [fieldAt, ht, fieldsOf, hx])
    simp only [Function.comp, addFilterF, modDirF]
    rw [modify_insert_at dirs k _ negDirD hkd]
    simp [negDirD, hneg]


/-! ## §7 a concrete world: evaluation of `Spec.rows` by unfolding (used by the examples of Props/C23) -/

namespace Example
def D : Data := Data.mk
  [⟨0, "A", [("x", .int64 1)]⟩, ⟨1, "A", [("x", .int64 1)]⟩, ⟨2, "A", [("x", .int64 2)]⟩,
    ⟨3, "A", [("x", .int64 3)]⟩]
  [⟨0, "e", [], [1, 2]⟩, ⟨0, "f", [], [1]⟩, ⟨1, "e", [], [2]⟩, ⟨2, "e", [], [3]⟩] [⟨"R", [], [0]⟩] []
  [("A", [])]
def env : SpecEnv := ⟨D, [("one", .int64 1), ("ones", .list [.int64 1])], []⟩
def out (nm o : Name) : QField := .prop nm [.output o]
/-- `{ R { e @fold @transform(op: "count") @filter(op: "=", value: ["$one"]) { x @output(name: "o") } } }` -/
def qFoldCount : Query := ⟨"R", [], .mk none
  [.edge "e" [] (.fold [.countFilter (.bin .equals) (.var "one")]) (.mk none [out "x" "o"])]⟩
/-- `{ R { g @optional { x @output(name: "o") } } }` -/
def qOpt : Query := ⟨"R", [], .mk none [.edge "g" [] .optional (.mk none [out "x" "o"])]⟩
/-- `{ R { g @optional { x @tag(name: "t") } f { x @output(name: "o") } } }` -/
def qOptTag : Query := ⟨"R", [], .mk none
  [.edge "g" [] .optional (.mk none [.prop "x" [.tag "t"]]), .edge "f" [] .plain (.mk none [out "x" "o"])]⟩
/-- `{ R { e { x @output(name: "o") } } }` -/
def qPlain : Query := ⟨"R", [], .mk none [.edge "e" [] .plain (.mk none [out "x" "o"])]⟩
/-- `{ R { e @recurse(depth: 1) { x @output(name: "o") } } }` -/
def qRec : Query := ⟨"R", [], .mk none [.edge "e" [] (.recurse 1) (.mk none [out "x" "o"])]⟩
/-- `{ R { f @fold { e @recurse(depth: 1) { x @output(name: "o") } } } }` -/
def qRecFold : Query := ⟨"R", [], .mk none
  [.edge "f" [] (.fold []) (.mk none [.edge "e" [] (.recurse 1) (.mk none [out "x" "o"])])]⟩

/-- Evaluate `Spec.rows` on a concrete query by unfolding. -/
macro "spec_eval" : tactic => `(tactic|
  simp (config := { decide := true }) [BEq.beq, rows, sizeBound, flatMapR, evalNode_succ, evalFields_edge, evalFields_nil, evalFields_prop,
    evalEdge_fold, evalEdge_plain, evalEdge_optional, evalEdge_recurse, reachDecl, reach,
    coercionOk, afterFilters, bindProps, propFiltersHold, filtersHold, ownersOf, edgeNbrs,
    completeParams, declParams, Data.start, Data.nbrsOpt, Data.nbrs, paramsEq, Data.supers,
    Data.typeOf, Data.vertex?, Data.propOpt, Data.prop, Data.isA, foldFinish, foldOk, foldMissing,
    countOf, tagStep, missStep, lookupOut, List.filterMap_cons, outNames, outNamesFields, filterHolds,
    Filter.applyStatic, Filter.applyTagged, Filter.equalsOp, Filter.notOp, Filter.oneOf,
    Filter.oneOfLoop, Outcome.map, R.ofOutcome, Filter.equals, Value.disc, Value.beq, insertSorted,
    Asg.tag?, addFilter, onQuery, modNode, modField, addFilterF, setRecurseDepth, setDepthF,
    makeOptional, makeOptionalF, replaceEqByOneOf, modDirF, eqToOneOfD, onChild])

/-- Inside a fold a filter can even *add* a row: the count filter `= 1` fails on two elements and
holds once the inner filter has removed one of them.  (`add_filter_sub` needs `NoFoldPath`.) -/
theorem add_filter_in_fold_adds_row :
    rows env qFoldCount = .ok [] ∧
      rows env (addFilter [0] 0 1 (.bin .equals) (.var "one") qFoldCount) = .ok [[("o", .list [.int64 1])]] ∧
      ¬ NoFoldPath [0] qFoldCount.root := by
  refine ⟨?_, ?_, by decide⟩ <;> (simp only [env, D, qFoldCount, out]; spec_eval)

/-- Inside a missing optional scope `f` and `¬f` both pass: the one row of `q` is a row of `q + f` and
of `q + ¬f`.  (`filter_partition` needs `StrictPath`.) -/
theorem partition_fails_in_optional_scope :
    rows env qOpt = .ok [[("o", .null)]] ∧
      rows env (addFilter [0] 0 1 (.bin .equals) (.var "one") qOpt) = .ok [[("o", .null)]] ∧
      rows env (addFilter [0] 0 1 (.bin .notEquals) (.var "one") qOpt) = .ok [[("o", .null)]] ∧
      NoFoldPath [0] qOpt.root ∧ ¬ StrictPath [0] qOpt.root := by
  refine ⟨?_, ?_, ?_, by decide, by decide⟩ <;> (simp only [env, D, qOpt, out]; spec_eval)

/-- A tag from a missing optional scope makes `= %t` and `!= %t` both pass, even at a position that
exists in every row.  (`filter_partition` needs an operand that is not a tag.) -/
theorem partition_fails_with_tag_from_optional_scope :
    rows env qOptTag = .ok [[("o", .int64 1)]] ∧
      rows env (addFilter [1] 0 1 (.bin .equals) (.tag "t") qOptTag) = .ok [[("o", .int64 1)]] ∧
      rows env (addFilter [1] 0 1 (.bin .notEquals) (.tag "t") qOptTag) = .ok [[("o", .int64 1)]] ∧
      StrictPath [1] qOptTag.root := by
  refine ⟨?_, ?_, ?_, by decide⟩ <;> (simp only [env, D, qOptTag, out]; spec_eval)

/-- Below a fold, raising a recursion depth changes the folded list, so the old row is gone.
(`recurse_mono` needs `NoFoldPath`.) -/
theorem recurse_in_fold_changes_row :
    rows env qRecFold = .ok [[("o", .list [.int64 1, .int64 2])]] ∧
      rows env (setRecurseDepth [0] 0 2 qRecFold) = .ok [[("o", .list [.int64 1, .int64 2, .int64 3])]] ∧
      ¬ NoFoldPath [0] qRecFold.root := by
  refine ⟨?_, ?_, by decide⟩ <;> (simp only [env, D, qRecFold, out]; spec_eval)

/-- Non-vacuity of `add_filter_sub` / `filter_partition`: a strict partition of two rows. -/
theorem partition_example :
    rows env qPlain = .ok [[("o", .int64 1)], [("o", .int64 2)]] ∧
      rows env (addFilter [0] 0 0 (.bin .equals) (.var "one") qPlain) = .ok [[("o", .int64 1)]] ∧
      rows env (addFilter [0] 0 0 (.bin .notEquals) (.var "one") qPlain) = .ok [[("o", .int64 2)]] ∧
      StrictPath [0] qPlain.root ∧ fieldAt [0] 0 qPlain.root = some (out "x" "o") := by
  refine ⟨?_, ?_, ?_, by decide, rfl⟩ <;> (simp only [env, D, qPlain, out]; spec_eval)

/-- Non-vacuity of `recurse_mono`: depth 1 → 2 adds a row in the middle and one at the end. -/
theorem recurse_example :
    rows env qRec = .ok [[("o", .int64 1)], [("o", .int64 1)], [("o", .int64 2)]] ∧
      rows env (setRecurseDepth [] 0 2 qRec) =
        .ok [[("o", .int64 1)], [("o", .int64 1)], [("o", .int64 2)], [("o", .int64 2)], [("o", .int64 3)]] ∧
      kindAt [] 0 qRec.root = some (.recurse 1) := by
  refine ⟨?_, ?_, rfl⟩ <;> (simp only [env, D, qRec, out]; spec_eval)

/-- Non-vacuity of `optional_keeps` (here nothing is added: vertex 0 has `e`-neighbours). -/
theorem optional_example :
    rows env (makeOptional [] 0 qPlain) = .ok [[("o", .int64 1)], [("o", .int64 2)]] := by
  simp only [env, D, qPlain, out]; spec_eval

/-- Non-vacuity of `eq_oneof_singleton`. -/
theorem eq_oneof_example :
    dirAt [0] 0 0 (addFilter [0] 0 0 (.bin .equals) (.var "one") qPlain).root =
        some (.filter (.bin .equals) (.var "one")) ∧
      rows env (replaceEqByOneOf [0] 0 0 "ones" (addFilter [0] 0 0 (.bin .equals) (.var "one") qPlain)) =
        .ok [[("o", .int64 1)]] := by
  refine ⟨rfl, ?_⟩
  simp only [env, D, qPlain, out]; spec_eval

/-- `{ R { e { x @output(name: "o1") } e { x @output(name: "o2") } } }` -/
def qTwo : Query := ⟨"R", [], .mk none
  [.edge "e" [] .plain (.mk none [out "x" "o1"]), .edge "e" [] .plain (.mk none [out "x" "o2"])]⟩

/-- Non-vacuity of `reorder_siblings_edges`: two independent edges; the swap exchanges the two middle
rows. -/
theorem swap_edges_example :
    rows env qTwo = .ok [[("o1", .int64 1), ("o2", .int64 1)], [("o1", .int64 1), ("o2", .int64 2)],
      [("o1", .int64 2), ("o2", .int64 1)], [("o1", .int64 2), ("o2", .int64 2)]] ∧
    rows env (swapSiblings [] 0 qTwo) = .ok [[("o1", .int64 1), ("o2", .int64 1)],
      [("o1", .int64 2), ("o2", .int64 1)], [("o1", .int64 1), ("o2", .int64 2)],
      [("o1", .int64 2), ("o2", .int64 2)]] ∧
    swapEdgesOK (.edge "e" [] .plain (.mk none [out "x" "o1"]))
      (.edge "e" [] .plain (.mk none [out "x" "o2"])) = true := by
  refine ⟨?_, ?_, by decide⟩ <;>
    (simp only [env, D, qTwo, out, swapSiblings, onQuery, modNode, swapAtF, swapAdj]; spec_eval)

/-- A dataset in which the edge `h(k: 1)` *is* the edge `h(k: null)` filtered by `x = 1`. -/
def Dp : Data := Data.mk
  [⟨0, "A", [("x", .int64 1)]⟩, ⟨1, "A", [("x", .int64 1)]⟩, ⟨2, "A", [("x", .int64 2)]⟩]
  [⟨0, "h", [("k", .int64 1)], [1]⟩, ⟨0, "h", [("k", .null)], [1, 2]⟩] [⟨"R", [], [0]⟩] [] [("A", [])]
def envp : SpecEnv := ⟨Dp, [("one", .int64 1)], [⟨"A", "h", [("k", none)]⟩]⟩
/-- `{ R { h(k: 1) { x @output(name: "o") } } }` -/
def qParam : Query := ⟨"R", [], .mk none [.edge "h" [("k", .int64 1)] .plain (.mk none [out "x" "o"])]⟩
def keep (n : VertexId) : Bool := Filter.equals (Dp.prop n "x") (.int64 1)

theorem param_example_data (x : VertexId) :
    let owners := envp.data.supers (envp.data.typeOf x)
    envp.data.nbrs x "h" (completeParams (declParams envp owners "h") [("k", .int64 1)]) =
      (envp.data.nbrs x "h" (completeParams (declParams envp owners "h") [("k", .null)])).filter keep := by
  by_cases h0 : x = 0
  · subst h0; decide
  · have hx : (0 == x) = false := by simp [Ne.symm h0]
    simp [envp, Dp, Data.nbrs, List.find?, hx]

theorem param_example_filter (n : VertexId) (a : Asg) :
    filterHolds envp a (some n) (envp.data.prop n "x") (.bin .equals) (.var "one") = .ok (keep n) := by
  simp [filterHolds, envp, keep, Filter.applyStatic, Filter.equalsOp, R.ofOutcome]

/-- Non-vacuity of `param_edge_as_filter`: the hypotheses hold of `envp`, both queries evaluate, and the
theorem gives the equality of their rows (here `[{o: 1}]`: vertex 2 is excluded on both sides). -/
theorem param_example :
    rows envp qParam = .ok [[("o", .int64 1)]] ∧
      rows envp (paramEdgeToFilter [] 0 "h" [("k", .null)] "x" (.bin .equals) (.var "one") qParam) =
        .ok [[("o", .int64 1)]] := by
  constructor <;>
    (simp only [envp, Dp, qParam, out, paramEdgeToFilter, onQuery, modNode, modField,
      List.modify_zero_cons, paramToFilterF, prependFilterProp]; spec_eval)

end Example

end TF.SpecMeta
