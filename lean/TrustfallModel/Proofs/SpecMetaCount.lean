/-
Meta-theory of `Spec` for C23, continued: adding a filter on the *count* of a `@fold` edge
(`Transform.addCountFilter`) never adds rows.

The fold edge's result at an existing vertex is one assignment gated by the verdict of the count
filters; the extra count filter changes neither the count, nor the count tags, nor the outputs, so
the new result is the old one or nothing.  In a missing scope count filters are ignored altogether.
The congruence `RelR_modNode` of `SpecMeta` carries this from the edge to the query.

Core Lean only.
-/
import TrustfallModel.Proofs.SpecMeta

namespace TF.SpecMeta
open TF TF.Engine TF.Spec TF.Transform

/-! ### uniform unfolding of a `@fold` edge -/

/-- The count filters among the directives of a fold, in order. -/
def countFs (fds : List FDir) : List (FOp × QArg) :=
  fds.filterMap fun d => match d with | .countFilter op arg => some (op, arg) | _ => none

/-- The assignment extended with the count tags of a fold. -/
def countTagsOf (count : Value) (fds : List FDir) (a : Asg) : Asg :=
  fds.foldl (fun (acc : Asg) d =>
    match d with
    | .countTag n => { acc with tags := acc.tags ++ [(n, Tagged.some count)] }
    | _ => acc) a

/-- The count outputs of a fold. -/
def countOutsOf (count : Value) (fds : List FDir) : List (Name × Value) :=
  fds.filterMap fun d => match d with | .countOutput n => some (n, count) | _ => none

/-- The count outputs/tags of a fold that does not exist. -/
def missFold (fds : List FDir) (a1 : Asg) : Asg :=
  fds.foldl (fun (acc : Asg) d =>
    match d with
    | .countOutput n => { acc with outs := acc.outs ++ [(n, Value.null)] }
    | .countTag n => { acc with tags := acc.tags ++ [(n, Tagged.nonexistent)] }
    | .countFilter _ _ => acc) a1

def cntOf (elems : List Asg) : Value := Value.uint64 (UInt64.ofNat elems.length)

/-- The one assignment a fold edge produces when its count filters pass. -/
def foldOne (fds : List FDir) (child : QNode) (a : Asg) (elems : List Asg) : Asg :=
  { countTagsOf (cntOf elems) fds a with
    outs := (countTagsOf (cntOf elems) fds a).outs ++ countOutsOf (cntOf elems) fds ++
      (outNames child).map fun n =>
        (n, Value.list (elems.map fun (e : Asg) =>
          match e.outs.find? (·.1 == n) with
          | some (_, x) => x
          | none => Value.null)) }

/-- What a fold edge does with its elements. -/
def foldAfter (env : SpecEnv) (fds : List FDir) (child : QNode) (x : VertexId) (a : Asg) :
    R (List Asg) → R (List Asg)
  | .ok elems => gate (.ok [foldOne fds child a elems])
      (filtersHold env (countTagsOf (cntOf elems) fds a) (some x) (cntOf elems) (countFs fds))
  | .panic s => .panic s
  | .fuel => .fuel

theorem evalEdge_fold_some (env : SpecEnv) (fuel : Nat) (owners : List Name) (nm : Name)
    (ps : Params) (fds : List FDir) (c : QNode) (x : VertexId) (a : Asg) :
    evalEdge env fuel owners nm ps (.fold fds) c (some x) a =
      foldAfter env fds c x a
        (flatMapR (fun n => evalNode env fuel c (some n) { tags := a.tags, outs := [] })
          (edgeNbrs env owners nm ps (some x))) := by
  simp only [evalEdge, edgeNbrs]
  cases flatMapR (fun n => evalNode env fuel c (some n) { tags := a.tags, outs := [] })
      (env.data.nbrsOpt (some x) nm (completeParams (declParams env owners nm) ps)) with
  | ok elems =>
    simp only [foldAfter]
    show (match filtersHold env (countTagsOf (cntOf elems) fds a) (some x) (cntOf elems) (countFs fds) with
      | .ok true => R.ok [foldOne fds c a elems]
      | .ok false => .ok []
      | .panic s => .panic s
      | .fuel => .fuel) = _
    rcases filtersHold env (countTagsOf (cntOf elems) fds a) (some x) (cntOf elems) (countFs fds)
      with (_ | _) | _ | _ <;> rfl
  | panic s => rfl
  | fuel => rfl

theorem evalEdge_fold_none (env : SpecEnv) (fuel : Nat) (owners : List Name) (nm : Name)
    (ps : Params) (fds : List FDir) (c : QNode) (a : Asg) :
    evalEdge env fuel owners nm ps (.fold fds) c none a =
      .ok [missFold fds { a with outs := a.outs ++ (outNames c).map fun n => (n, Value.null) }] := by
  simp only [evalEdge]
  rfl

/-! ### the inserted count filter -/

theorem countFs_append (d1 d2 : List FDir) : countFs (d1 ++ d2) = countFs d1 ++ countFs d2 := by
  simp [countFs, List.filterMap_append]

theorem countFs_insert (fds : List FDir) (k : Nat) (op : FOp) (arg : QArg) :
    countFs (fds.take k ++ [FDir.countFilter op arg] ++ fds.drop k) =
      countFs (fds.take k) ++ (op, arg) :: countFs (fds.drop k) := by
  simp [countFs, List.filterMap_append]

theorem countFs_split (fds : List FDir) (k : Nat) :
    countFs fds = countFs (fds.take k) ++ countFs (fds.drop k) := by
  rw [← countFs_append, List.take_append_drop]

theorem countTagsOf_insert (count : Value) (fds : List FDir) (k : Nat) (op : FOp) (arg : QArg)
    (a : Asg) :
    countTagsOf count (fds.take k ++ [FDir.countFilter op arg] ++ fds.drop k) a =
      countTagsOf count fds a := by
  conv => rhs; rw [← List.take_append_drop k fds]
  simp only [countTagsOf, List.foldl_append, List.foldl_cons, List.foldl_nil]

theorem countOutsOf_insert (count : Value) (fds : List FDir) (k : Nat) (op : FOp) (arg : QArg) :
    countOutsOf count (fds.take k ++ [FDir.countFilter op arg] ++ fds.drop k) =
      countOutsOf count fds := by
  simp only [countOutsOf, List.filterMap_append, List.filterMap_cons, List.filterMap_nil,
    List.append_nil]
  rw [← List.filterMap_append, List.take_append_drop]

theorem missFold_insert (fds : List FDir) (k : Nat) (op : FOp) (arg : QArg) (a : Asg) :
    missFold (fds.take k ++ [FDir.countFilter op arg] ++ fds.drop k) a = missFold fds a := by
  conv => rhs; rw [← List.take_append_drop k fds]
  simp only [missFold, List.foldl_append, List.foldl_cons, List.foldl_nil]

theorem foldOne_insert (fds : List FDir) (k : Nat) (op : FOp) (arg : QArg) (c : QNode) (a : Asg)
    (elems : List Asg) :
    foldOne (fds.take k ++ [FDir.countFilter op arg] ++ fds.drop k) c a elems = foldOne fds c a elems := by
  simp only [foldOne, countTagsOf_insert, countOutsOf_insert]

/-- A fold edge with one more count filter yields its old result, or nothing. -/
theorem evalEdge_addCount_sub (env : SpecEnv) (fuel : Nat) (owners : List Name) (nm : Name)
    (ps : Params) (fds : List FDir) (k : Nat) (op : FOp) (arg : QArg) (c : QNode)
    (v : Option VertexId) (a : Asg) (L0 L1 : List Asg)
    (h0 : evalEdge env fuel owners nm ps
      (.fold (fds.take k ++ [FDir.countFilter op arg] ++ fds.drop k)) c v a = .ok L0)
    (h1 : evalEdge env fuel owners nm ps (.fold fds) c v a = .ok L1) : L0.Sublist L1 := by
  cases v with
  | none =>
    rw [evalEdge_fold_none, missFold_insert] at h0
    rw [evalEdge_fold_none, h0] at h1
    cases h1; exact List.Sublist.refl _
  | some x =>
    rw [evalEdge_fold_some] at h0 h1
    cases he : flatMapR (fun n => evalNode env fuel c (some n) { tags := a.tags, outs := [] })
        (edgeNbrs env owners nm ps (some x)) with
    | ok elems =>
      rw [he] at h0 h1
      simp only [foldAfter, foldOne_insert, countTagsOf_insert, countFs_insert, filtersHold_append,
        filtersHold_cons] at h0
      simp only [foldAfter] at h1
      rw [countFs_split fds k, filtersHold_append] at h1
      exact gate_sublist _ _ _ _ _ _ h0 h1
    | panic s => rw [he] at h1; simp [foldAfter] at h1
    | fuel => rw [he] at h1; simp [foldAfter] at h1

/-! ### from the edge to the query -/

theorem propsFixed_addCountFilterF (k : Nat) (op : FOp) (arg : QArg) :
    PropsFixed (addCountFilterF k op arg) := by
  refine ⟨fun _ _ => rfl, fun nm ps kd c => ?_⟩
  cases kd <;> rfl

theorem propsFixed_pick_addCount (k : Nat) (op : FOp) (arg : QArg) (i : Bool) :
    PropsFixed (pick (addCountFilterF k op arg) id i) := by
  cases i
  · exact propsFixed_addCountFilterF k op arg
  · exact PropsFixed.id

theorem addCountFilterF_local (env : SpecEnv) (fuel : Nat) (owners : List Name) (k : Nat) (op : FOp)
    (arg : QArg) (fld : QField) (v : Option VertexId) (a : Asg) :
    RelR subRel (fun i => evalFields env fuel owners [pick (addCountFilterF k op arg) id i fld] v [a]) := by
  intro L hL
  have h0 := hL false
  have h1 := hL true
  simp only [pick, id] at h0 h1
  show (L false).Sublist (L true)
  generalize L false = l0 at h0 ⊢
  generalize L true = l1 at h1 ⊢
  by_cases hf : ∃ nm ps fds c, fld = .edge nm ps (.fold fds) c
  · obtain ⟨nm, ps, fds, c, rfl⟩ := hf
    simp only [addCountFilterF, evalFields_single_edge, flatMapR_singleton] at h0 h1
    cases e0 : evalEdge env fuel owners nm ps
        (.fold (fds.take k ++ [FDir.countFilter op arg] ++ fds.drop k)) c v a with
    | ok M0 =>
      cases e1 : evalEdge env fuel owners nm ps (.fold fds) c v a with
      | ok M1 =>
        rw [e0] at h0; rw [e1] at h1
        cases h0; cases h1
        exact evalEdge_addCount_sub env fuel owners nm ps fds k op arg c v a _ _ e0 e1
      | panic s => rw [e1] at h1; cases h1
      | fuel => rw [e1] at h1; cases h1
    | panic s => rw [e0] at h0; cases h0
    | fuel => rw [e0] at h0; cases h0
  · have : addCountFilterF k op arg fld = fld := by
      cases fld with
      | prop nm dirs => rfl
      | edge nm ps kd c =>
        cases kd with
        | fold fds => exact absurd ⟨nm, ps, fds, c, rfl⟩ hf
        | _ => rfl
    rw [this, h1] at h0
    cases h0; exact List.Sublist.refl _

theorem modField_pick (j : Nat) (g : QField → QField) (ct : Option Name) (fields : List QField)
    (i : Bool) :
    pick (modField j g) id i (.mk ct fields) = .mk ct (fields.modify j (pick g id i)) := by
  cases i
  · rfl
  · simp only [pick, id]
    congr 1
    exact (modify_eq_self fields j id (fun _ _ => rfl)).symm

theorem addCountFilter_local (env : SpecEnv) (j k : Nat) (op : FOp) (arg : QArg) (t : QNode)
    (fuel : Nat) (v : Option VertexId) (a : Asg) :
    RelR subRel (fun i => evalNode env fuel (pick (modField j (addCountFilterF k op arg)) id i t) v a) := by
  cases fuel with
  | zero => exact RelR_of_not_ok subRel _ true (by simp [evalNode_zero])
  | succ fuel =>
    obtain ⟨ct, fields⟩ := t
    simp only [modField_pick]
    cases hj : fields[j]? with
    | none =>
      intro L hL
      have h0 := hL false
      have h1 := hL true
      have e : ∀ g : QField → QField, fields.modify j g = fields := fun g =>
        modify_eq_self fields j g (fun x hx => by rw [hj] at hx; cases hx)
      simp only [e] at h0 h1
      rw [h1] at h0
      have h2 : L true = L false := by simpa using h0
      show (L false).Sublist (L true)
      rw [h2]
      exact List.Sublist.refl _
    | some fld =>
      exact RelR_evalNode_modify subRel env fuel ct v (pick (addCountFilterF k op arg) id)
        (propsFixed_pick_addCount k op arg) (fun _ => trivial) fields j fld hj
        (fun a' => addCountFilterF_local env fuel (ownersOf env v) k op arg fld v a') a

/-- Assignments: adding a count filter to a fold edge outside folds keeps a sublist. -/
theorem asgs_addCountFilter_sub (env : SpecEnv) (q : Query) (p : Path) (j k : Nat) (op : FOp)
    (arg : QArg) (hp : NoFoldPath p q.root) (as as' : List Asg) (h : asgs env q = .ok as)
    (h' : asgs env (addCountFilter p j k op arg q) = .ok as') : as'.Sublist as := by
  obtain ⟨t, hd⟩ := noFold_descend hp
  have := RelR_asgs subRel env false (fun _ _ _ _ => trivial)
    (pick (modField j (addCountFilterF k op arg)) id) p q t hd
    (fun fuel v a _ => addCountFilter_local env j k op arg t fuel v a) (pick as' as)
  apply this
  intro i
  cases i with
  | false => exact h'
  | true => simpa [pick, onQuery_modNode_id] using h

end TF.SpecMeta
