/-
Lemmas about the naming model of `trustfall_stubgen` (`Model/Stubgen.lean`).
-/
import TrustfallModel.Model.Stubgen

namespace TF.Stubgen

/-! ### Characters -/

theorem toNat_ofNat_small (n : Nat) (h : n < 55296) : (Char.ofNat n).toNat = n := by
  have hv : n.isValidChar := Or.inl h
  simp [Char.ofNat, hv]
  rfl

theorem isUpper_iff (c : Char) : isUpper c = true ↔ 65 ≤ c.toNat ∧ c.toNat ≤ 90 := by
  simp [isUpper]
theorem isLower_iff (c : Char) : isLower c = true ↔ 97 ≤ c.toNat ∧ c.toNat ≤ 122 := by
  simp [isLower]
theorem isDigit_iff (c : Char) : isDigit c = true ↔ 48 ≤ c.toNat ∧ c.toNat ≤ 57 := by
  simp [isDigit]

theorem toNat_toLower_of_upper {c : Char} (h : isUpper c = true) : (toLower c).toNat = c.toNat + 32 := by
  have h' := (isUpper_iff c).mp h
  simp only [toLower, h, if_true]
  exact toNat_ofNat_small _ (by omega)

theorem toLower_of_not_upper {c : Char} (h : isUpper c = false) : toLower c = c := by
  simp [toLower, h]

theorem isLower_toLower_of_upper {c : Char} (h : isUpper c = true) : isLower (toLower c) = true := by
  have h1 := toNat_toLower_of_upper h
  have h2 := (isUpper_iff c).mp h
  rw [isLower_iff]; omega

theorem not_upper_of_lower {c : Char} (h : isLower c = true) : isUpper c = false := by
  have h2 := (isLower_iff c).mp h
  cases hu : isUpper c with
  | false => rfl
  | true => have := (isUpper_iff c).mp hu; omega

theorem isUpper_toLower (c : Char) : isUpper (toLower c) = false := by
  cases h : isUpper c with
  | true => exact not_upper_of_lower (isLower_toLower_of_upper h)
  | false => rw [toLower_of_not_upper h]; exact h

theorem underscore_toNat : '_'.toNat = 95 := by decide

theorem toNat_eq_of_eq_underscore {c : Char} (h : c = '_') : c.toNat = 95 := by subst h; decide

theorem eq_of_toNat_eq {a b : Char} (h : a.toNat = b.toNat) : a = b := by
  have := congrArg Char.ofNat h
  simpa [Char.ofNat_toNat] using this

theorem not_upper_underscore : isUpper '_' = false := by decide

theorem isIdentStart_toLower_of_upper {c : Char} (h : isUpper c = true) : isIdentStart (toLower c) = true := by
  simp [isIdentStart, isLower_toLower_of_upper h]

theorem isIdentContinue_of_start {c : Char} (h : isIdentStart c = true) : isIdentContinue c = true := by
  simp [isIdentContinue, h]

theorem isIdentContinue_underscore : isIdentContinue '_' = true := by decide

theorem toNat_toAsciiUpper_of_lower {c : Char} (h : isLower c = true) :
    (toAsciiUpper c).toNat = c.toNat - 32 := by
  have h' := (isLower_iff c).mp h
  simp only [toAsciiUpper, h, if_true]
  exact toNat_ofNat_small _ (by omega)

theorem toAsciiUpper_of_not_lower {c : Char} (h : isLower c = false) : toAsciiUpper c = c := by
  simp [toAsciiUpper, h]

theorem isLower_toAsciiUpper (c : Char) : isLower (toAsciiUpper c) = false := by
  cases h : isLower c with
  | false => rw [toAsciiUpper_of_not_lower h]; exact h
  | true =>
    have h1 := toNat_toAsciiUpper_of_lower h
    have h2 := (isLower_iff c).mp h
    cases hl : isLower (toAsciiUpper c) with
    | false => rfl
    | true => have := (isLower_iff _).mp hl; omega

theorem isIdentStart_toAsciiUpper {c : Char} (h : isIdentStart c = true) :
    isIdentStart (toAsciiUpper c) = true := by
  cases hl : isLower c with
  | false => rw [toAsciiUpper_of_not_lower hl]; exact h
  | true =>
    have h1 := toNat_toAsciiUpper_of_lower hl
    have h2 := (isLower_iff c).mp hl
    have : isUpper (toAsciiUpper c) = true := by rw [isUpper_iff]; omega
    simp [isIdentStart, this]

/-! ### `to_lower_snake_case` -/

theorem snakeGo_no_upper (last : Char) (n : Name) : ∀ c ∈ snakeGo last n, isUpper c = false := by
  induction n generalizing last with
  | nil => simp [snakeGo]
  | cons d ds ih =>
    intro c hc
    unfold snakeGo at hc
    split at hc
    · rename_i hd
      simp only [List.mem_append, List.mem_cons] at hc
      rcases hc with hc | hc | hc
      · split at hc
        · simp only [List.mem_singleton] at hc; subst hc; exact not_upper_underscore
        · simp at hc
      · subst hc; exact isUpper_toLower d
      · exact ih d c hc
    · rename_i hd
      simp only [List.mem_cons] at hc
      rcases hc with hc | hc
      · subst hc; simpa using hd
      · exact ih d c hc

/-- The output of `to_lower_snake_case` has no capital letter. -/
theorem snake_no_upper (n : Name) : ∀ c ∈ toLowerSnakeCase n, isUpper c = false :=
  snakeGo_no_upper '_' n

theorem snakeGo_of_no_upper (last : Char) (n : Name) (h : ∀ c ∈ n, isUpper c = false) :
    snakeGo last n = n := by
  induction n generalizing last with
  | nil => simp [snakeGo]
  | cons d ds ih =>
    have hd : isUpper d = false := h d (by simp)
    unfold snakeGo
    simp only [hd, Bool.false_eq_true, if_false]
    rw [ih d (fun c hc => h c (by simp [hc]))]

/-- `to_lower_snake_case` is idempotent. -/
theorem snake_idempotent (n : Name) : toLowerSnakeCase (toLowerSnakeCase n) = toLowerSnakeCase n :=
  snakeGo_of_no_upper '_' _ (snake_no_upper n)

theorem snakeGo_all_continue (last : Char) (n : Name) (h : n.all isIdentContinue = true) :
    (snakeGo last n).all isIdentContinue = true := by
  induction n generalizing last with
  | nil => simp [snakeGo]
  | cons d ds ih =>
    simp only [List.all_cons, Bool.and_eq_true] at h
    unfold snakeGo
    split
    · rename_i hd
      simp only [List.all_append, List.all_cons, Bool.and_eq_true]
      refine ⟨?_, isIdentContinue_of_start (isIdentStart_toLower_of_upper hd), ih d h.2⟩
      split <;> simp [isIdentContinue_underscore]
    · simp only [List.all_cons, Bool.and_eq_true]
      exact ⟨h.1, ih d h.2⟩

/-- A GraphQL name stays identifier-shaped under `to_lower_snake_case`. -/
theorem snake_identShape {n : Name} (h : identShape n = true) : identShape (toLowerSnakeCase n) = true := by
  cases n with
  | nil => simp [identShape] at h
  | cons d ds =>
    simp only [identShape, Bool.and_eq_true] at h
    unfold toLowerSnakeCase snakeGo
    split
    · rename_i hd
      have : (('_' : Char) != '_' && !isUpper '_') = false := by decide
      simp only [this, Bool.false_eq_true, if_false, List.nil_append, identShape, Bool.and_eq_true]
      exact ⟨isIdentStart_toLower_of_upper hd, snakeGo_all_continue d ds h.2⟩
    · simp only [identShape, Bool.and_eq_true]
      exact ⟨h.1, snakeGo_all_continue d ds h.2⟩

theorem snake_ne_nil {n : Name} (h : n ≠ []) : toLowerSnakeCase n ≠ [] := by
  cases n with
  | nil => exact absurd rfl h
  | cons d ds =>
    unfold toLowerSnakeCase snakeGo
    split <;> simp

/-! ### `escaped_rust_name` -/

theorem escape_cases (n : Name) :
    (escapeTable.contains n = true ∧ escapedRustName n = n ++ ['_']) ∨
    (escapeTable.contains n = false ∧ escapedRustName n = n) := by
  unfold escapedRustName
  cases h : escapeTable.contains n <;> simp

theorem identShape_append_underscore {n : Name} (h : identShape n = true) :
    identShape (n ++ ['_']) = true := by
  cases n with
  | nil => simp [identShape] at h
  | cons d ds =>
    simp only [identShape, Bool.and_eq_true] at h
    simp only [List.cons_append, identShape, List.all_append, Bool.and_eq_true]
    exact ⟨h.1, h.2, by decide⟩

theorem escape_identShape {n : Name} (h : identShape n = true) : identShape (escapedRustName n) = true := by
  rcases escape_cases n with ⟨_, e⟩ | ⟨_, e⟩ <;> rw [e]
  · exact identShape_append_underscore h
  · exact h

/-- every documented keyword followed by `_` is an ordinary identifier for `syn` -/
theorem escaped_keyword_not_rejected : ∀ k ∈ escapeTable, synReject.contains (k ++ ['_']) = false := by
  decide

/-- the identifiers `syn` rejects that `escaped_rust_name` does not know about -/
def unescapedReserved : List Name := synReject.filter fun k => !escapeTable.contains k

theorem unescapedReserved_eq : unescapedReserved =
    [['_'], "abstract".toList, "become".toList, "box".toList, "do".toList, "final".toList, "macro".toList,
     "override".toList, "priv".toList, "typeof".toList, "unsized".toList, "virtual".toList,
     "yield".toList] := by decide

theorem synReject_cover {n : Name} (h : synReject.contains n = true) :
    escapeTable.contains n = true ∨ unescapedReserved.contains n = true := by
  cases he : escapeTable.contains n with
  | true => exact Or.inl rfl
  | false =>
    right
    simp only [unescapedReserved, List.contains_iff_mem, List.mem_filter] at h ⊢
    refine ⟨h, ?_⟩
    have hne : ¬ n ∈ escapeTable := fun hm => by
      have := List.contains_iff_mem.mpr hm
      rw [he] at this; cases this
    simpa using hne

/-- After escaping, a name is rejected by `syn` only if it is one of the reserved words the table lacks. -/
theorem escape_not_rejected {n : Name} (h : unescapedReserved.contains n = false) :
    synReject.contains (escapedRustName n) = false := by
  rcases escape_cases n with ⟨hc, e⟩ | ⟨hc, e⟩ <;> rw [e]
  · exact escaped_keyword_not_rejected n (by simpa using hc)
  · cases hs : synReject.contains n with
    | false => rfl
    | true =>
      rcases synReject_cover hs with h1 | h1
      · rw [hc] at h1; cases h1
      · rw [h] at h1; cases h1

/-! ### The conflict checks -/

theorem lookup_none_iff {seen : List (Name × Name)} {k : Name} :
    seen.lookup k = none ↔ k ∉ seen.map Prod.fst := by
  induction seen with
  | nil => simp
  | cons p ps ih =>
    obtain ⟨a, b⟩ := p
    simp only [List.lookup_cons, List.map_cons, List.mem_cons, not_or]
    cases hka : k == a with
    | true =>
      have : k = a := by simpa using hka
      simp [this]
    | false =>
      have : k ≠ a := by simpa using hka
      simp [this, ih]

theorem findConflict_none_iff (seen : List (Name × Name)) (l : List Name) :
    findConflict seen l = none ↔
      (∀ n ∈ l, conflictKey n ∉ seen.map Prod.fst) ∧ (l.map conflictKey).Nodup := by
  induction l generalizing seen with
  | nil => simp [findConflict]
  | cons n rest ih =>
    unfold findConflict
    cases hl : seen.lookup (conflictKey n) with
    | some v =>
      have : ¬ (conflictKey n ∉ seen.map Prod.fst) := by
        intro hn
        have := lookup_none_iff.mpr hn
        rw [hl] at this; cases this
      simp only [reduceCtorEq, false_iff]
      intro ⟨h, _⟩
      exact this (h n (by simp))
    | none =>
      have hn := lookup_none_iff.mp hl
      rw [ih]
      simp only [List.map_cons, List.mem_cons, List.nodup_cons]
      constructor
      · rintro ⟨h1, h2⟩
        refine ⟨?_, ?_, h2⟩
        · intro m hm
          rcases hm with rfl | hm
          · exact hn
          · exact fun hc => (h1 m hm) (Or.inr hc)
        · intro hmem
          obtain ⟨m, hm, hk⟩ := List.mem_map.mp hmem
          exact (h1 m hm) (Or.inl hk)
      · rintro ⟨h1, h2, h3⟩
        refine ⟨?_, h3⟩
        intro m hm hc
        rcases hc with hc | hc
        · exact h2 (List.mem_map.mpr ⟨m, hm, hc⟩)
        · exact h1 m (Or.inr hm) hc

/-- A check passes exactly when the mangled names it inserts are pairwise distinct. -/
theorem findConflict_nil_none_iff (l : List Name) :
    findConflict [] l = none ↔ (l.map conflictKey).Nodup := by
  simp [findConflict_none_iff]

theorem insertSorted_perm {α : Type} (key : α → Name) (x : α) (l : List α) :
    (insertSorted key x l).Perm (x :: l) := by
  induction l with
  | nil => simp [insertSorted]
  | cons y ys ih =>
    unfold insertSorted
    split
    · exact List.Perm.refl _
    · exact (List.Perm.cons y ih).trans (List.Perm.swap x y ys)

theorem sortBy_perm {α : Type} (key : α → Name) (l : List α) : (sortBy key l).Perm l := by
  induction l with
  | nil => simp [sortBy]
  | cons x xs ih =>
    unfold sortBy
    exact (insertSorted_perm key x _).trans (List.Perm.cons x ih)

theorem vertexConflict_none_iff (S : Schema) :
    vertexConflict S = none ↔ (S.types.map fun t => conflictKey t.name).Nodup := by
  unfold vertexConflict
  rw [findConflict_nil_none_iff]
  have hp := (sortBy_perm id (S.types.map (·.name))).map conflictKey
  rw [hp.nodup_iff, List.map_map]
  rfl

theorem fieldConflict_none_iff (S : Schema) :
    fieldConflict S = none ↔ ∀ t ∈ S.types, ((fieldNames t).map conflictKey).Nodup := by
  unfold fieldConflict
  rw [List.findSome?_eq_none_iff]
  have hp := sortBy_perm (·.name) S.types
  constructor
  · intro h t ht
    have := h t (hp.mem_iff.mpr ht)
    rw [← findConflict_nil_none_iff]
    cases hf : findConflict [] (fieldNames t) with
    | none => rfl
    | some p => obtain ⟨a, b⟩ := p; simp [hf] at this
  · intro h t ht
    have := (findConflict_nil_none_iff _).mpr (h t (hp.mem_iff.mp ht))
    simp [this]

theorem checksPass_iff (S : Schema) :
    checksPass S = true ↔
      (S.types.map fun t => conflictKey t.name).Nodup ∧
      ∀ t ∈ S.types, ((fieldNames t).map conflictKey).Nodup := by
  unfold checksPass
  rw [Bool.and_eq_true, Option.isNone_iff_eq_none, Option.isNone_iff_eq_none,
    vertexConflict_none_iff, fieldConflict_none_iff]

/-! ### Injectivity of the derived names -/

theorem escape_snake_injective_on_keys {a b : Name}
    (h : toLowerSnakeCase a = toLowerSnakeCase b) : conflictKey a = conflictKey b := by
  simp [conflictKey, h]

theorem nodup_map_of_nodup_map {α : Type} {f g : α → Name} {l : List α}
    (hfg : ∀ x y, g x = g y → f x = f y) (h : (l.map f).Nodup) : (l.map g).Nodup := by
  induction l with
  | nil => simp
  | cons x xs ih =>
    simp only [List.map_cons, List.nodup_cons, List.mem_map, not_exists, not_and] at h ⊢
    refine ⟨fun y hy hxy => h.1 y hy (hfg y x hxy), ih h.2⟩

theorem nodup_map_of_nodup_map_mem {α : Type} {f g : α → Name} {l : List α}
    (hfg : ∀ x ∈ l, ∀ y ∈ l, g x = g y → f x = f y) (h : (l.map f).Nodup) : (l.map g).Nodup := by
  induction l with
  | nil => simp
  | cons x xs ih =>
    simp only [List.map_cons, List.nodup_cons, List.mem_map, not_exists, not_and] at h ⊢
    refine ⟨fun y hy hxy => h.1 y hy (hfg y (by simp [hy]) x (by simp) hxy), ?_⟩
    exact ih (fun a ha b hb => hfg a (by simp [ha]) b (by simp [hb])) h.2

theorem nodup_getElem_inj {α : Type} {l : List α} (h : l.Nodup) :
    ∀ {i j : Nat} (hi : i < l.length) (hj : j < l.length), l[i] = l[j] → i = j := by
  induction l with
  | nil => intro i j hi; simp at hi
  | cons x xs ih =>
    intro i j hi hj e
    rw [List.nodup_cons] at h
    cases i with
    | zero =>
      cases j with
      | zero => rfl
      | succ j =>
        simp only [List.getElem_cons_zero, List.getElem_cons_succ] at e
        exact absurd (e ▸ List.getElem_mem _) h.1
    | succ i =>
      cases j with
      | zero =>
        simp only [List.getElem_cons_zero, List.getElem_cons_succ] at e
        exact absurd (e ▸ List.getElem_mem _) h.1
      | succ j =>
        simp only [List.getElem_cons_succ] at e
        exact congrArg (· + 1) (ih h.2 _ _ e)

theorem nodupB_iff (l : List Name) : nodupB l = true ↔ l.Nodup := by
  induction l with
  | nil => simp [nodupB]
  | cons x xs ih =>
    simp only [nodupB, Bool.and_eq_true, Bool.not_eq_true', List.nodup_cons, ih]
    constructor
    · rintro ⟨h1, h2⟩
      exact ⟨by simpa using h1, h2⟩
    · rintro ⟨h1, h2⟩
      exact ⟨by simpa using h1, h2⟩

/-! ### stubgen's snake case vs. the derive macro's -/

/-- no capital letter directly follows a capital letter -/
def noConsecutiveCapitals : Name → Bool
  | a :: b :: rest => !(isUpper a && isUpper b) && noConsecutiveCapitals (b :: rest)
  | _ => true

theorem snakeGo_eq_deriveSnakeGo (last : Char) (n : Name)
    (h : noConsecutiveCapitals (last :: n) = true) : snakeGo last n = deriveSnakeGo last n := by
  induction n generalizing last with
  | nil => simp [snakeGo, deriveSnakeGo]
  | cons d ds ih =>
    simp only [noConsecutiveCapitals, Bool.and_eq_true, Bool.not_eq_true', Bool.and_eq_false_iff] at h
    unfold snakeGo deriveSnakeGo
    rw [ih d h.2]
    split
    · rename_i hd
      have hl : isUpper last = false := by
        rcases h.1 with h1 | h1
        · exact h1
        · rw [hd] at h1; cases h1
      simp [hl]
    · rfl

/-- On names without two consecutive capitals both snake-case functions agree. -/
theorem snake_eq_deriveSnake {n : Name} (h : noConsecutiveCapitals n = true) :
    toLowerSnakeCase n = deriveSnake n := by
  apply snakeGo_eq_deriveSnakeGo
  cases n with
  | nil => rfl
  | cons d ds =>
    simp only [noConsecutiveCapitals, Bool.and_eq_true, Bool.not_eq_true', Bool.and_eq_false_iff]
    exact ⟨Or.inl (by decide), h⟩

/-! ### Lemmas used by `Props/C26` -/

theorem synReject_length_le : ∀ k ∈ synReject, k.length ≤ 8 := by decide

theorem not_rejected_of_long {n : Name} (h : 8 < n.length) : synReject.contains n = false := by
  cases hc : synReject.contains n with
  | false => rfl
  | true =>
    have := synReject_length_le n (by simpa using hc)
    omega

theorem all_continue_of_identShape {n : Name} (h : identShape n = true) : n.all isIdentContinue = true := by
  cases n with
  | nil => simp [identShape] at h
  | cons d ds =>
    simp only [identShape, Bool.and_eq_true] at h
    simp only [List.all_cons, Bool.and_eq_true]
    exact ⟨isIdentContinue_of_start h.1, h.2⟩

theorem identShape_wrap {pre suf x : Name} (hp : identShape pre = true) (hs : suf.all isIdentContinue = true)
    (hx : x.all isIdentContinue = true) : identShape (pre ++ x ++ suf) = true := by
  cases pre with
  | nil => simp [identShape] at hp
  | cons d ds =>
    simp only [identShape, Bool.and_eq_true] at hp
    simp only [List.cons_append, identShape, List.all_append, Bool.and_eq_true]
    exact ⟨hp.1, ⟨hp.2, hx⟩, hs⟩

theorem usableIdent_intro {n : Name} (h1 : identShape n = true) (h2 : synReject.contains n = false) :
    usableIdent n = true := by
  unfold usableIdent; rw [h1, h2]; rfl

theorem usableIdent_elim {n : Name} (h : usableIdent n = true) :
    identShape n = true ∧ synReject.contains n = false := by
  unfold usableIdent at h
  rw [Bool.and_eq_true, Bool.not_eq_true'] at h
  exact h

theorem variant_identShape {n : Name} (h : validGraphQLName n = true) : identShape (variantName n) = true := by
  cases n with
  | nil => simp [validGraphQLName, identShape] at h
  | cons c cs =>
    simp only [validGraphQLName, identShape, Bool.and_eq_true] at h
    simp only [variantName, upperCaseVariantName]
    apply escape_identShape
    simp only [identShape, Bool.and_eq_true]
    exact ⟨isIdentStart_toAsciiUpper h.1, h.2⟩

theorem synReject_no_as_prefix : ∀ k ∈ synReject, k.take 3 ≠ "as_".toList := by decide

theorem unescapedReserved_heads :
    unescapedReserved.all (fun k => k == ['_'] || (match k with | c :: _ => isLower c | [] => false)) = true := by
  decide

theorem wrap_injective {pre suf x y : Name} (h : pre ++ x ++ suf = pre ++ y ++ suf) : x = y :=
  List.append_cancel_left (List.append_cancel_right h)

theorem snake_eq_of_key_ne {a b : Name} : toLowerSnakeCase a = toLowerSnakeCase b → conflictKey a = conflictKey b :=
  fun h => by simp [conflictKey, h]

/-- the character after the first one is not a capital letter -/
def secondNotUpper : Name → Bool
  | _ :: d :: _ => !isUpper d
  | _ => true

theorem escape_eq_cases {x y : Name} (h : escapedRustName x = escapedRustName y) :
    x = y ∨ (escapeTable.contains x = true ∧ y = x ++ ['_']) ∨
      (escapeTable.contains y = true ∧ x = y ++ ['_']) := by
  rcases escape_cases x with ⟨hx, ex⟩ | ⟨hx, ex⟩ <;> rcases escape_cases y with ⟨hy, ey⟩ | ⟨hy, ey⟩ <;>
    rw [ex, ey] at h
  · exact Or.inl (List.append_cancel_right h)
  · exact Or.inr (Or.inl ⟨hx, h.symm⟩)
  · exact Or.inr (Or.inr ⟨hy, h⟩)
  · exact Or.inl h

theorem escapeTable_heads :
    escapeTable.all (fun k => (match k with | c :: _ => isLower c | [] => false)
      || k == "Self".toList || k == "'static".toList) = true := by decide

/-- first output character of `to_lower_snake_case` -/
def firstOut (c : Char) : Char := if isUpper c then toLower c else c

theorem snake_cons (c : Char) (r : Name) : toLowerSnakeCase (c :: r) = firstOut c :: snakeGo c r := by
  show snakeGo '_' (c :: r) = _
  rw [snakeGo]
  have : (('_' : Char) != '_' && !isUpper '_') = false := by decide
  simp only [this, firstOut]
  split <;> simp

theorem firstOut_eq_of_upper_eq {c1 c2 : Char} (h : toAsciiUpper c1 = toAsciiUpper c2) :
    firstOut c1 = firstOut c2 := by
  apply eq_of_toNat_eq
  have hn := congrArg Char.toNat h
  cases h1 : isLower c1 <;> cases h2 : isLower c2
  · rw [toAsciiUpper_of_not_lower h1, toAsciiUpper_of_not_lower h2] at h
    rw [h]
  · rw [toAsciiUpper_of_not_lower h1, toNat_toAsciiUpper_of_lower h2] at hn
    have hl := (isLower_iff c2).mp h2
    have hu : isUpper c1 = true := by rw [isUpper_iff]; omega
    simp only [firstOut, hu, if_true, not_upper_of_lower h2, Bool.false_eq_true, if_false]
    rw [toNat_toLower_of_upper hu]; omega
  · rw [toNat_toAsciiUpper_of_lower h1, toAsciiUpper_of_not_lower h2] at hn
    have hl := (isLower_iff c1).mp h1
    have hu : isUpper c2 = true := by rw [isUpper_iff]; omega
    simp only [firstOut, hu, if_true, not_upper_of_lower h1, Bool.false_eq_true, if_false]
    rw [toNat_toLower_of_upper hu]; omega
  · rw [toNat_toAsciiUpper_of_lower h1, toNat_toAsciiUpper_of_lower h2] at hn
    have hl1 := (isLower_iff c1).mp h1
    have hl2 := (isLower_iff c2).mp h2
    simp only [firstOut, not_upper_of_lower h1, not_upper_of_lower h2, Bool.false_eq_true, if_false]
    omega

theorem snakeGo_indep_of_last {r : Name} (c1 c2 : Char)
    (h : (match r with | d :: _ => !isUpper d | [] => true) = true) : snakeGo c1 r = snakeGo c2 r := by
  cases r with
  | nil => simp [snakeGo]
  | cons d r' =>
    have hd : isUpper d = false := by simpa using h
    unfold snakeGo
    simp [hd]

theorem key_self : conflictKey "Self".toList = "self_".toList ∧ conflictKey "self".toList = "self_".toList ∧
    conflictKey "Self_".toList = "self_".toList ∧ conflictKey "self_".toList = "self_".toList := by decide

/-- a name whose capitalised form is `Self` / `Self_` -/
theorem upper_eq_Self {c : Char} {r : Name} (h : toAsciiUpper c :: r = 'S' :: r) :
    c = 'S' ∨ c = 's' := by
  have hc : toAsciiUpper c = 'S' := (List.cons.inj h).1
  cases hl : isLower c with
  | false => rw [toAsciiUpper_of_not_lower hl] at hc; exact Or.inl hc
  | true =>
    right
    apply eq_of_toNat_eq
    have h2 := toNat_toAsciiUpper_of_lower hl
    have h3 := (isLower_iff c).mp hl
    rw [hc] at h2
    have : ('S' : Char).toNat = 83 := by decide
    have : ('s' : Char).toNat = 115 := by decide
    omega

/-- Two valid names with equal variants have equal check keys, provided their second characters are not
capitals. -/
theorem key_eq_of_variant_eq {a b : Name} (ha : validGraphQLName a = true) (hb : validGraphQLName b = true)
    (ga : secondNotUpper a = true) (gb : secondNotUpper b = true)
    (h : variantName a = variantName b) : conflictKey a = conflictKey b := by
  cases a with
  | nil => simp [validGraphQLName, identShape] at ha
  | cons c1 r1 =>
  cases b with
  | nil => simp [validGraphQLName, identShape] at hb
  | cons c2 r2 =>
  simp only [variantName, upperCaseVariantName] at h
  simp only [validGraphQLName, identShape, Bool.and_eq_true] at ha hb
  -- a keyword of the table whose first character is a capitalised identifier start is `Self`
  have selfOnly : ∀ (c : Char) (r : Name), isIdentStart c = true →
      escapeTable.contains (toAsciiUpper c :: r) = true → toAsciiUpper c :: r = "Self".toList := by
    intro c r hc hm
    have hm' : (toAsciiUpper c :: r) ∈ escapeTable := by simpa using hm
    have := List.all_eq_true.mp escapeTable_heads _ hm'
    simp only [Bool.or_eq_true, beq_iff_eq] at this
    rcases this with (h1 | h1) | h1
    · rw [isLower_toAsciiUpper] at h1; cases h1
    · exact h1
    · -- `'static`: its first character is not an identifier start
      exfalso
      have hq : toAsciiUpper c = '\'' := (List.cons.inj h1).1
      have hs := isIdentStart_toAsciiUpper hc
      rw [hq] at hs
      exact absurd hs (by decide)
  -- the two names in the `Self` / `Self_` situation have the same key
  have selfCase : ∀ (c d : Char) (r s : Name), toAsciiUpper c :: r = "Self".toList →
      toAsciiUpper d :: s = "Self".toList ++ ['_'] → conflictKey (c :: r) = conflictKey (d :: s) := by
    intro c d r s h1 h2
    have hr : r = "elf".toList := (List.cons.inj h1).2
    have hs : s = "elf_".toList := (List.cons.inj h2).2
    have hc := upper_eq_Self (c := c) (r := r) (by rw [h1, hr]; rfl)
    have hd := upper_eq_Self (c := d) (r := s) (by rw [h2, hs]; rfl)
    subst hr hs
    rcases hc with rfl | rfl <;> rcases hd with rfl | rfl <;> decide
  rcases escape_eq_cases h with heq | ⟨hm, heq⟩ | ⟨hm, heq⟩
  · -- same capitalised name: the names differ at most in the case of their first letter
    obtain ⟨hc, hr⟩ := List.cons.inj heq
    subst hr
    apply snake_eq_of_key_ne
    rw [snake_cons, snake_cons, firstOut_eq_of_upper_eq hc]
    congr 1
    apply snakeGo_indep_of_last
    cases r1 with
    | nil => rfl
    | cons d r' => simpa [secondNotUpper] using ga
  · have hs := selfOnly c1 r1 ha.1 hm
    rw [hs] at heq
    exact selfCase c1 c2 r1 r2 hs heq
  · have hs := selfOnly c2 r2 hb.1 hm
    rw [hs] at heq
    exact (selfCase c2 c1 r2 r1 hs heq).symm


end TF.Stubgen
