/-
Lemmas about the naming model of `trustfall_stubgen` (`Model/Stubgen.lean`).
-/
import TrustfallModel.Model.Stubgen

namespace TF.Stubgen

/-! ### Characters -/

theorem toNat_ofNat_small (n : Nat) (h : n < 55296) : (Char.ofNat n).toNat = n := by
  have hv : n.isValidChar := Or.inl h
  simp [Char.ofNat, hv]
  rfl

theorem isUpper_iff (c : Char) : isUpper c = true ↔ 65 ≤ c.toNat ∧ c.toNat ≤ 90 := by
  simp [isUpper]
theorem isLower_iff (c : Char) : isLower c = true ↔ 97 ≤ c.toNat ∧ c.toNat ≤ 122 := by
  simp [isLower]
theorem isDigit_iff (c : Char) : isDigit c = true ↔ 48 ≤ c.toNat ∧ c.toNat ≤ 57 := by
  simp [isDigit]

theorem toNat_toLower_of_upper {c : Char} (h : isUpper c = true) : (toLower c).toNat = c.toNat + 32 := by
  have h' := (isUpper_iff c).mp h
  simp only [toLower, h, if_true]
  exact toNat_ofNat_small _ (by omega)

theorem toLower_of_not_upper {c : Char} (h : isUpper c = false) : toLower c = c := by
  simp [toLower, h]

theorem isLower_toLower_of_upper {c : Char} (h : isUpper c = true) : isLower (toLower c) = true := by
  have h1 := toNat_toLower_of_upper h
  have h2 := (isUpper_iff c).mp h
  rw [isLower_iff]; omega

theorem not_upper_of_lower {c : Char} (h : isLower c = true) : isUpper c = false := by
  have h2 := (isLower_iff c).mp h
  cases hu : isUpper c with
  | false => rfl
  | true => have := (isUpper_iff c).mp hu; omega

theorem isUpper_toLower (c : Char) : isUpper (toLower c) = false := by
  cases h : isUpper c with
  | true => exact not_upper_of_lower (isLower_toLower_of_upper h)
  | false => rw [toLower_of_not_upper h]; exact h

theorem underscore_toNat : '_'.toNat = 95 := by decide

theorem toNat_eq_of_eq_underscore {c : Char} (h : c = '_') : c.toNat = 95 := by subst h; decide

theorem eq_of_toNat_eq {a b : Char} (h : a.toNat = b.toNat) : a = b := by
  have := congrArg Char.ofNat h
  simpa [Char.ofNat_toNat] using this

theorem not_upper_underscore : isUpper '_' = false := by decide

theorem isIdentStart_toLower_of_upper {c : Char} (h : isUpper c = true) : isIdentStart (toLower c) = true := by
  simp [isIdentStart, isLower_toLower_of_upper h]

theorem isIdentContinue_of_start {c : Char} (h : isIdentStart c = true) : isIdentContinue c = true := by
  simp [isIdentContinue, h]

theorem isIdentContinue_underscore : isIdentContinue '_' = true := by decide

theorem toNat_toAsciiUpper_of_lower {c : Char} (h : isLower c = true) :
    (toAsciiUpper c).toNat = c.toNat - 32 := by
  have h' := (isLower_iff c).mp h
  simp only [toAsciiUpper, h, if_true]
  exact toNat_ofNat_small _ (by omega)

theorem toAsciiUpper_of_not_lower {c : Char} (h : isLower c = false) : toAsciiUpper c = c := by
  simp [toAsciiUpper, h]

theorem isLower_toAsciiUpper (c : Char) : isLower (toAsciiUpper c) = false := by
  cases h : isLower c with
  | false => rw [toAsciiUpper_of_not_lower h]; exact h
  | true =>
    have h1 := toNat_toAsciiUpper_of_lower h
    have h2 := (isLower_iff c).mp h
    cases hl : isLower (toAsciiUpper c) with
    | false => rfl
    | true => have := (isLower_iff _).mp hl; omega

theorem isIdentStart_toAsciiUpper {c : Char} (h : isIdentStart c = true) :
    isIdentStart (toAsciiUpper c) = true := by
  cases hl : isLower c with
  | false => rw [toAsciiUpper_of_not_lower hl]; exact h
  | true =>
    have h1 := toNat_toAsciiUpper_of_lower hl
    have h2 := (isLower_iff c).mp hl
    have : isUpper (toAsciiUpper c) = true := by rw [isUpper_iff]; omega
    simp [isIdentStart, this]

/-! ### `to_lower_snake_case` -/

theorem snakeGo_no_upper (last : Char) (n : Name) : ∀ c ∈ snakeGo last n, isUpper c = false := by
  induction n generalizing last with
  | nil => simp [snakeGo]
  | cons d ds ih =>
    intro c hc
    unfold snakeGo at hc
    split at hc
    · rename_i hd
      simp only [List.mem_append, List.mem_cons] at hc
      rcases hc with hc | hc | hc
      · split at hc
        · simp only [List.mem_singleton] at hc; subst hc; exact not_upper_underscore
        · simp at hc
      · subst hc; exact isUpper_toLower d
      · exact ih d c hc
    · rename_i hd
      simp only [List.mem_cons] at hc
      rcases hc with hc | hc
      · subst hc; simpa using hd
      · exact ih d c hc

/-- The output of `to_lower_snake_case` has no capital letter. -/
theorem snake_no_upper (n : Name) : ∀ c ∈ toLowerSnakeCase n, isUpper c = false :=
  snakeGo_no_upper '_' n

theorem snakeGo_of_no_upper (last : Char) (n : Name) (h : ∀ c ∈ n, isUpper c = false) :
    snakeGo last n = n := by
  induction n generalizing last with
  | nil => simp [snakeGo]
  | cons d ds ih =>
    have hd : isUpper d = false := h d (by simp)
    unfold snakeGo
    simp only [hd, Bool.false_eq_true, if_false]
    rw [ih d (fun c hc => h c (by simp [hc]))]

/-- `to_lower_snake_case` is idempotent. -/
theorem snake_idempotent (n : Name) : toLowerSnakeCase (toLowerSnakeCase n) = toLowerSnakeCase n :=
  snakeGo_of_no_upper '_' _ (snake_no_upper n)

theorem snakeGo_all_continue (last : Char) (n : Name) (h : n.all isIdentContinue = true) :
    (snakeGo last n).all isIdentContinue = true := by
  induction n generalizing last with
  | nil => simp [snakeGo]
  | cons d ds ih =>
    simp only [List.all_cons, Bool.and_eq_true] at h
    unfold snakeGo
    split
    · rename_i hd
      simp only [List.all_append, List.all_cons, Bool.and_eq_true]
      refine ⟨?_, isIdentContinue_of_start (isIdentStart_toLower_of_upper hd), ih d h.2⟩
      split <;> simp [isIdentContinue_underscore]
    · simp only [List.all_cons, Bool.and_eq_true]
      exact ⟨h.1, ih d h.2⟩

/-- A GraphQL name stays identifier-shaped under `to_lower_snake_case`. -/
theorem snake_identShape {n : Name} (h : identShape n = true) : identShape (toLowerSnakeCase n) = true := by
  cases n with
  | nil => simp [identShape] at h
  | cons d ds =>
    simp only [identShape, Bool.and_eq_true] at h
    unfold toLowerSnakeCase snakeGo
    split
    · rename_i hd
      have : (('_' : Char) != '_' && !isUpper '_') = false := by decide
      simp only [this, Bool.false_eq_true, if_false, List.nil_append, identShape, Bool.and_eq_true]
      exact ⟨isIdentStart_toLower_of_upper hd, snakeGo_all_continue d ds h.2⟩
    · simp only [identShape, Bool.and_eq_true]
      exact ⟨h.1, snakeGo_all_continue d ds h.2⟩

theorem snake_ne_nil {n : Name} (h : n ≠ []) : toLowerSnakeCase n ≠ [] := by
  cases n with
  | nil => exact absurd rfl h
  | cons d ds =>
    unfold toLowerSnakeCase snakeGo
    split <;> simp

/-! ### `escaped_rust_name` -/

theorem escape_cases (n : Name) :
    (escapeTable.contains n = true ∧ escapedRustName n = n ++ ['_']) ∨
    (escapeTable.contains n = false ∧ escapedRustName n = n) := by
  unfold escapedRustName
  cases h : escapeTable.contains n <;> simp

theorem identShape_append_underscore {n : Name} (h : identShape n = true) :
    identShape (n ++ ['_']) = true := by
  cases n with
  | nil => simp [identShape] at h
  | cons d ds =>
    simp only [identShape, Bool.and_eq_true] at h
    simp only [List.cons_append, identShape, List.all_append, Bool.and_eq_true]
    exact ⟨h.1, h.2, by decide⟩

theorem escape_identShape {n : Name} (h : identShape n = true) : identShape (escapedRustName n) = true := by
  rcases escape_cases n with ⟨_, e⟩ | ⟨_, e⟩ <;> rw [e]
  · exact identShape_append_underscore h
  · exact h

/-- every keyword of the table followed by `_` is an ordinary identifier for `syn` -/
theorem escaped_keyword_not_rejected : ∀ k ∈ escapeTable, synReject.contains (k ++ ['_']) = false := by
  decide

/-- the table knows everything `syn` refuses as an identifier -/
theorem synReject_subset_escapeTable : ∀ k ∈ synReject, escapeTable.contains k = true := by decide

/-- After escaping, no name is rejected by `syn`. -/
theorem escape_not_rejected (n : Name) : synReject.contains (escapedRustName n) = false := by
  rcases escape_cases n with ⟨hc, e⟩ | ⟨hc, e⟩ <;> rw [e]
  · exact escaped_keyword_not_rejected n (by simpa using hc)
  · cases hs : synReject.contains n with
    | false => rfl
    | true =>
      have := synReject_subset_escapeTable n (by simpa using hs)
      rw [hc] at this; cases this

/-! ### The conflict checks -/

theorem lookup_none_iff {seen : List (Key × Name)} {k : Key} :
    seen.lookup k = none ↔ k ∉ seen.map Prod.fst := by
  induction seen with
  | nil => simp
  | cons p ps ih =>
    obtain ⟨a, b⟩ := p
    simp only [List.lookup_cons, List.map_cons, List.mem_cons, not_or]
    cases hka : k == a with
    | true =>
      have : k = a := by simpa using hka
      simp [this]
    | false =>
      have : k ≠ a := by simpa using hka
      simp [this, ih]

theorem findDup_none_iff (seen l : List (Key × Name)) :
    findDup seen l = none ↔
      (∀ p ∈ l, p.1 ∉ seen.map Prod.fst) ∧ (l.map Prod.fst).Nodup := by
  induction l generalizing seen with
  | nil => simp [findDup]
  | cons p rest ih =>
    obtain ⟨k, n⟩ := p
    unfold findDup
    cases hl : seen.lookup k with
    | some v =>
      have : ¬ (k ∉ seen.map Prod.fst) := by
        intro hn
        have := lookup_none_iff.mpr hn
        rw [hl] at this; cases this
      simp only [reduceCtorEq, false_iff]
      intro ⟨h, _⟩
      exact this (h (k, n) (by simp))
    | none =>
      have hn := lookup_none_iff.mp hl
      rw [ih]
      simp only [List.map_cons, List.mem_cons, List.nodup_cons]
      constructor
      · rintro ⟨h1, h2⟩
        refine ⟨?_, ?_, h2⟩
        · intro m hm
          rcases hm with rfl | hm
          · exact hn
          · exact fun hc => (h1 m hm) (Or.inr hc)
        · intro hmem
          obtain ⟨m, hm, hk⟩ := List.mem_map.mp hmem
          exact (h1 m hm) (Or.inl hk)
      · rintro ⟨h1, h2, h3⟩
        refine ⟨?_, h3⟩
        intro m hm hc
        rcases hc with hc | hc
        · exact h2 (List.mem_map.mpr ⟨m, hm, hc⟩)
        · exact h1 m (Or.inr hm) hc

theorem keyed_map_fst (keys : Name → List Key) (l : List Name) :
    (keyed keys l).map Prod.fst = l.flatMap keys := by
  induction l with
  | nil => rfl
  | cons x xs ih =>
    simp only [keyed, List.flatMap_cons, List.map_append, List.map_map] at ih ⊢
    rw [ih]
    congr 1
    simp [Function.comp_def]

/-- A check passes exactly when the keys it inserts are pairwise distinct. -/
theorem findDup_nil_none_iff (keys : Name → List Key) (l : List Name) :
    findDup [] (keyed keys l) = none ↔ (l.flatMap keys).Nodup := by
  simp [findDup_none_iff, keyed_map_fst]

theorem insertSorted_perm {α : Type} (key : α → Name) (x : α) (l : List α) :
    (insertSorted key x l).Perm (x :: l) := by
  induction l with
  | nil => simp [insertSorted]
  | cons y ys ih =>
    unfold insertSorted
    split
    · exact List.Perm.refl _
    · exact (List.Perm.cons y ih).trans (List.Perm.swap x y ys)

theorem sortBy_perm {α : Type} (key : α → Name) (l : List α) : (sortBy key l).Perm l := by
  induction l with
  | nil => simp [sortBy]
  | cons x xs ih =>
    unfold sortBy
    exact (insertSorted_perm key x _).trans (List.Perm.cons x ih)


theorem perm_flatMap {α β : Type} {l₁ l₂ : List α} (f : α → List β) (h : l₁.Perm l₂) :
    (l₁.flatMap f).Perm (l₂.flatMap f) := by
  induction h with
  | nil => exact List.Perm.refl _
  | cons x _ ih => simpa [List.flatMap_cons] using List.Perm.append_left _ ih
  | swap x y l =>
    simp only [List.flatMap_cons, ← List.append_assoc]
    exact List.Perm.append_right _ List.perm_append_comm
  | trans _ _ ih1 ih2 => exact ih1.trans ih2

theorem flatMap_fieldKeys (l : List Name) :
    l.flatMap fieldKeys = l.map fun n => ((0, conflictKey n) : Key) := by
  induction l with
  | nil => rfl
  | cons x xs ih => simp [List.flatMap_cons, fieldKeys, ih]

theorem nodup_map_pair_iff (t : Nat) (l : List Name) :
    (l.map fun n => ((t, n) : Key)).Nodup ↔ l.Nodup := by
  induction l with
  | nil => simp
  | cons x xs ih =>
    simp only [List.map_cons, List.nodup_cons, ih, List.mem_map, Prod.mk.injEq, true_and, exists_eq_right]

theorem vertexConflict_none_iff (S : Schema) :
    vertexConflict S = none ↔ ((S.types.map (·.name)).flatMap vertexKeys).Nodup := by
  unfold vertexConflict
  rw [findDup_nil_none_iff]
  exact (perm_flatMap vertexKeys (sortBy_perm id (S.types.map (·.name)))).nodup_iff

theorem fieldKeys_nodup_iff (l : List Name) : (l.flatMap fieldKeys).Nodup ↔ (l.map conflictKey).Nodup := by
  rw [flatMap_fieldKeys]
  have : (l.map fun n => ((0, conflictKey n) : Key)) = (l.map conflictKey).map fun k => ((0, k) : Key) := by
    simp [List.map_map, Function.comp_def]
  rw [this, nodup_map_pair_iff]

theorem entrypointConflict_none_iff (S : Schema) :
    entrypointConflict S = none ↔ (S.entrypoints.map fun e => conflictKey e.name).Nodup := by
  unfold entrypointConflict
  rw [findDup_nil_none_iff, fieldKeys_nodup_iff]
  have hp := (sortBy_perm id (S.entrypoints.map (·.name))).map conflictKey
  rw [hp.nodup_iff, List.map_map]
  rfl

theorem fieldConflict_none_iff (S : Schema) :
    fieldConflict S = none ↔ ∀ t ∈ S.types, ((fieldNames t).map conflictKey).Nodup := by
  unfold fieldConflict
  rw [List.findSome?_eq_none_iff]
  have hp := sortBy_perm (·.name) S.types
  constructor
  · intro h t ht
    have := h t (hp.mem_iff.mpr ht)
    rw [← fieldKeys_nodup_iff, ← findDup_nil_none_iff]
    cases hf : findDup [] (keyed fieldKeys (fieldNames t)) with
    | none => rfl
    | some p => obtain ⟨a, b⟩ := p; simp [hf] at this
  · intro h t ht
    have := (findDup_nil_none_iff fieldKeys _).mpr ((fieldKeys_nodup_iff _).mpr (h t (hp.mem_iff.mp ht)))
    simp [this]

/-- the keys of one kind among the vertex keys -/
theorem vertexKeys_components {l : List Name} (h : (l.flatMap vertexKeys).Nodup) :
    (l.map conflictKey).Nodup ∧ (l.map variantName).Nodup ∧ (l.map conversionCallName).Nodup := by
  induction l with
  | nil => simp
  | cons x xs ih =>
    rw [List.flatMap_cons, List.nodup_append] at h
    obtain ⟨_, hxs, hdisj⟩ := h
    obtain ⟨i1, i2, i3⟩ := ih hxs
    have hmem : ∀ (t : Nat) (f : Name → Name), (∀ n, ((t, f n) : Key) ∈ vertexKeys n) →
        f x ∉ xs.map f := by
      intro t f hf hm
      obtain ⟨y, hy, hxy⟩ := List.mem_map.mp hm
      have h1 : ((t, f x) : Key) ∈ vertexKeys x := hf x
      have h2 : ((t, f x) : Key) ∈ xs.flatMap vertexKeys := by
        rw [← hxy]; exact List.mem_flatMap.mpr ⟨y, hy, hf y⟩
      exact hdisj _ h1 _ h2 rfl
    simp only [List.map_cons, List.nodup_cons]
    exact ⟨⟨hmem 0 conflictKey (by intro n; simp [vertexKeys]), i1⟩,
      ⟨hmem 1 variantName (by intro n; simp [vertexKeys]), i2⟩,
      ⟨hmem 2 conversionCallName (by intro n; simp [vertexKeys]), i3⟩⟩

theorem checksPass_iff (S : Schema) :
    checksPass S = true ↔
      ((S.types.map (·.name)).flatMap vertexKeys).Nodup ∧
      (∀ t ∈ S.types, ((fieldNames t).map conflictKey).Nodup) ∧
      (S.entrypoints.map fun e => conflictKey e.name).Nodup := by
  unfold checksPass
  rw [Bool.and_eq_true, Bool.and_eq_true, Option.isNone_iff_eq_none, Option.isNone_iff_eq_none,
    Option.isNone_iff_eq_none, vertexConflict_none_iff, fieldConflict_none_iff, entrypointConflict_none_iff,
    and_assoc]

/-! ### Injectivity of the derived names -/

theorem nodup_map_of_nodup_map {α : Type} {f g : α → Name} {l : List α}
    (hfg : ∀ x y, g x = g y → f x = f y) (h : (l.map f).Nodup) : (l.map g).Nodup := by
  induction l with
  | nil => simp
  | cons x xs ih =>
    simp only [List.map_cons, List.nodup_cons, List.mem_map, not_exists, not_and] at h ⊢
    refine ⟨fun y hy hxy => h.1 y hy (hfg y x hxy), ih h.2⟩

theorem nodup_map_of_nodup_map_mem {α : Type} {f g : α → Name} {l : List α}
    (hfg : ∀ x ∈ l, ∀ y ∈ l, g x = g y → f x = f y) (h : (l.map f).Nodup) : (l.map g).Nodup := by
  induction l with
  | nil => simp
  | cons x xs ih =>
    simp only [List.map_cons, List.nodup_cons, List.mem_map, not_exists, not_and] at h ⊢
    refine ⟨fun y hy hxy => h.1 y hy (hfg y (by simp [hy]) x (by simp) hxy), ?_⟩
    exact ih (fun a ha b hb => hfg a (by simp [ha]) b (by simp [hb])) h.2

theorem nodup_getElem_inj {α : Type} {l : List α} (h : l.Nodup) :
    ∀ {i j : Nat} (hi : i < l.length) (hj : j < l.length), l[i] = l[j] → i = j := by
  induction l with
  | nil => intro i j hi; simp at hi
  | cons x xs ih =>
    intro i j hi hj e
    rw [List.nodup_cons] at h
    cases i with
    | zero =>
      cases j with
      | zero => rfl
      | succ j =>
        simp only [List.getElem_cons_zero, List.getElem_cons_succ] at e
        exact absurd (e ▸ List.getElem_mem _) h.1
    | succ i =>
      cases j with
      | zero =>
        simp only [List.getElem_cons_zero, List.getElem_cons_succ] at e
        exact absurd (e ▸ List.getElem_mem _) h.1
      | succ j =>
        simp only [List.getElem_cons_succ] at e
        exact congrArg (· + 1) (ih h.2 _ _ e)

theorem nodupB_iff (l : List Name) : nodupB l = true ↔ l.Nodup := by
  induction l with
  | nil => simp [nodupB]
  | cons x xs ih =>
    simp only [nodupB, Bool.and_eq_true, Bool.not_eq_true', List.nodup_cons, ih]
    constructor
    · rintro ⟨h1, h2⟩
      exact ⟨by simpa using h1, h2⟩
    · rintro ⟨h1, h2⟩
      exact ⟨by simpa using h1, h2⟩


/-! ### `variant_conversion_fn_name` is the derive macro's rule -/

theorem conversionGo_eq_deriveSnakeGo (last : Char) (n : Name) : conversionGo last n = deriveSnakeGo last n := by
  induction n generalizing last with
  | nil => simp [conversionGo, deriveSnakeGo]
  | cons d ds ih => unfold conversionGo deriveSnakeGo; rw [ih d]

theorem conversionGo_all_continue (last : Char) (n : Name) (h : n.all isIdentContinue = true) :
    (conversionGo last n).all isIdentContinue = true := by
  induction n generalizing last with
  | nil => simp [conversionGo]
  | cons d ds ih =>
    simp only [List.all_cons, Bool.and_eq_true] at h
    unfold conversionGo
    split
    · rename_i hd
      simp only [List.all_append, List.all_cons, Bool.and_eq_true]
      refine ⟨?_, isIdentContinue_of_start (isIdentStart_toLower_of_upper hd), ih d h.2⟩
      split <;> simp [isIdentContinue_underscore]
    · simp only [List.all_cons, Bool.and_eq_true]
      exact ⟨h.1, ih d h.2⟩

/-! ### Lemmas used by `Props/C26` -/

theorem synReject_length_le : ∀ k ∈ synReject, k.length ≤ 8 := by decide

theorem not_rejected_of_long {n : Name} (h : 8 < n.length) : synReject.contains n = false := by
  cases hc : synReject.contains n with
  | false => rfl
  | true =>
    have := synReject_length_le n (by simpa using hc)
    omega

theorem all_continue_of_identShape {n : Name} (h : identShape n = true) : n.all isIdentContinue = true := by
  cases n with
  | nil => simp [identShape] at h
  | cons d ds =>
    simp only [identShape, Bool.and_eq_true] at h
    simp only [List.all_cons, Bool.and_eq_true]
    exact ⟨isIdentContinue_of_start h.1, h.2⟩

theorem identShape_wrap {pre suf x : Name} (hp : identShape pre = true) (hs : suf.all isIdentContinue = true)
    (hx : x.all isIdentContinue = true) : identShape (pre ++ x ++ suf) = true := by
  cases pre with
  | nil => simp [identShape] at hp
  | cons d ds =>
    simp only [identShape, Bool.and_eq_true] at hp
    simp only [List.cons_append, identShape, List.all_append, Bool.and_eq_true]
    exact ⟨hp.1, ⟨hp.2, hx⟩, hs⟩

theorem usableIdent_intro {n : Name} (h1 : identShape n = true) (h2 : synReject.contains n = false) :
    usableIdent n = true := by
  unfold usableIdent; rw [h1, h2]; rfl

theorem usableIdent_elim {n : Name} (h : usableIdent n = true) :
    identShape n = true ∧ synReject.contains n = false := by
  unfold usableIdent at h
  rw [Bool.and_eq_true, Bool.not_eq_true'] at h
  exact h

theorem variant_identShape {n : Name} (h : validGraphQLName n = true) : identShape (variantName n) = true := by
  cases n with
  | nil => simp [validGraphQLName, identShape] at h
  | cons c cs =>
    simp only [validGraphQLName, identShape, Bool.and_eq_true] at h
    simp only [variantName, upperCaseVariantName]
    apply escape_identShape
    simp only [identShape, Bool.and_eq_true]
    exact ⟨isIdentStart_toAsciiUpper h.1, h.2⟩

theorem synReject_no_as_prefix : ∀ k ∈ synReject, k.take 3 ≠ "as_".toList := by decide


theorem wrap_injective {pre suf x y : Name} (h : pre ++ x ++ suf = pre ++ y ++ suf) : x = y :=
  List.append_cancel_left (List.append_cancel_right h)

theorem snake_eq_of_key_ne {a b : Name} : toLowerSnakeCase a = toLowerSnakeCase b → conflictKey a = conflictKey b :=
  fun h => by simp [conflictKey, h]


end TF.Stubgen
