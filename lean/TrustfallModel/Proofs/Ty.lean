/-
Helper lemmas for C17 / C16: bit-level facts about the `Modifiers` mask, the refinement lemmas
(mask operation on `encode s` = structural operation on the `Shape` `s`, for depth ≤ 30 where the
operation can overflow or panic), preservation of well-formedness, and the laws on `Shape`.
-/
import TrustfallModel.Model.Ty

namespace TF.Ty
open Shape

theorem and_small (x c : Nat) (hc : c < 4) : x &&& c = (x % 4) &&& c := by
  have h3 : c = 3 &&& c := by
    match c, hc with
    | 0, _ => rfl
    | 1, _ => rfl
    | 2, _ => rfl
    | 3, _ => rfl
  have := Nat.and_two_pow_sub_one_eq_mod x 2
  conv => lhs; rw [h3, ← Nat.and_assoc]
  rw [show (3:Nat) = 2^2 - 1 from rfl, this]

theorem or_small (q r c : Nat) (hr : r < 4) (hc : c < 4) : (q * 4 + r) ||| c = q * 4 + (r ||| c) := by
  have e1 : q * 4 + r = q <<< 2 ||| r := by
    rw [← Nat.shiftLeft_add_eq_or_of_lt (i := 2) (by omega) q, Nat.shiftLeft_eq]
  have hlt : r ||| c < 2 ^ 2 := Nat.or_lt_two_pow (by omega) (by omega)
  rw [e1, Nat.or_assoc, ← Nat.shiftLeft_add_eq_or_of_lt hlt q, Nat.shiftLeft_eq]

theorem and_two_pow' (x n : Nat) : x &&& 2 ^ n = if x.testBit n then 2 ^ n else 0 := by
  apply Nat.eq_of_testBit_eq
  intro i
  rw [Nat.testBit_and, Nat.testBit_two_pow]
  by_cases h : n = i
  · subst h; cases hx : x.testBit n <;> simp
  · cases hx : x.testBit n <;> simp [h]

namespace Shape

theorem nnBit_lt (n : Bool) : nnBit n < 2 := by cases n <;> decide

theorem encode_lt (s : Shape) : s.encode < 2 ^ (2 * s.depth + 1) := by
  induction s with
  | named n => cases n <;> decide
  | list n s ih =>
    have := nnBit_lt n
    simp only [encode, depth]
    have e : 2 ^ (2 * (s.depth + 1) + 1) = 2 ^ (2 * s.depth + 1) * 4 := by
      rw [show 2 * (s.depth + 1) + 1 = (2 * s.depth + 1) + 2 by omega, Nat.pow_add]
    omega

theorem encode_mod4_named (n : Bool) : (encode (named n)) % 4 = nnBit n := by cases n <;> rfl
theorem encode_mod4_list (n : Bool) (s : Shape) : (encode (list n s)) % 4 = 2 + nnBit n := by
  have := nnBit_lt n
  simp only [encode]; omega

theorem nullable_encode (s : Shape) : Mask.nullable s.encode = s.nullable := by
  unfold Mask.nullable
  rw [and_small _ _ (by decide)]
  cases s with
  | named n => rw [encode_mod4_named]; cases n <;> rfl
  | list n s => rw [encode_mod4_list]; cases n <;> rfl

theorem isList_encode (s : Shape) : Mask.isList s.encode = s.asList.isSome := by
  unfold Mask.isList
  rw [and_small _ _ (by decide)]
  cases s with
  | named n => rw [encode_mod4_named]; cases n <;> rfl
  | list n s => rw [encode_mod4_list]; cases n <;> rfl

theorem asList_encode (s : Shape) : Mask.asList s.encode = s.asList.map encode := by
  unfold Mask.asList
  rw [isList_encode]
  cases s with
  | named n => rfl
  | list n s =>
    have := nnBit_lt n
    simp only [asList, Option.isSome_some, if_true, Option.map_some, encode]
    rw [Nat.shiftRight_eq_div_pow]
    congr 1; omega

theorem decode_encode (s : Shape) : decode s.encode = s := by
  induction s with
  | named n => rw [decode]; split <;> simp_all [asList_encode, asList, nullable_encode, nullable]
  | list n s ih =>
    rw [decode]
    split
    · rename_i m' h
      rw [asList_encode] at h
      simp [asList] at h
      subst h
      rw [ih, nullable_encode]; rfl
    · rename_i h
      rw [asList_encode] at h
      simp [asList] at h

theorem testBit_encode (s : Shape) (k : Nat) : s.encode.testBit (2 * k + 1) = decide (k < s.depth) := by
  induction s generalizing k with
  | named n =>
    simp only [depth, Nat.not_lt_zero, decide_false]
    apply Nat.testBit_lt_two_pow
    have := nnBit_lt n
    have : 2 ^ 1 ≤ 2 ^ (2 * k + 1) := Nat.pow_le_pow_right (by decide) (by omega)
    simp only [encode]; omega
  | list n s ih =>
    have hn := nnBit_lt n
    cases k with
    | zero =>
      simp only [encode, depth]
      rw [Nat.testBit_eq_decide_div_mod_eq]
      simp
      omega
    | succ k =>
      have : (encode (list n s)).testBit (2 * (k + 1) + 1) = (encode (list n s) >>> 2).testBit (2 * k + 1) := by
        rw [Nat.testBit_shiftRight]; congr 1; omega
      rw [this, Nat.shiftRight_eq_div_pow]
      have : encode (list n s) / 2 ^ 2 = encode s := by simp only [encode]; omega
      rw [this, ih]
      simp [depth]

theorem atMax_encode (s : Shape) : Mask.atMaxListDepth s.encode = decide (30 ≤ s.depth) := by
  unfold Mask.atMaxListDepth
  rw [show MAX_LIST_DEPTH_MASK = 2 ^ 59 by decide, and_two_pow']
  have := testBit_encode s 29
  rw [show 2 * 29 + 1 = 59 by rfl] at this
  rw [this]
  by_cases h : 29 < s.depth
  · have : 30 ≤ s.depth := h
    simp [h, this]
  · have : ¬ 30 ≤ s.depth := h
    simp [h, this]


end Shape

theorem and_not_one (x : Nat) (hx : x < 2 ^ 64) : x &&& (2 ^ 64 - 1 - 1) = x / 2 * 2 := by
  apply Nat.eq_of_testBit_eq
  intro i
  rw [Nat.testBit_and, show (2 ^ 64 - 1 - 1 : Nat) = (2 ^ 63 - 1) <<< 1 by decide,
    show x / 2 * 2 = (x >>> 1) <<< 1 by rw [Nat.shiftLeft_eq, Nat.shiftRight_eq_div_pow]]
  rw [Nat.testBit_shiftLeft, Nat.testBit_shiftLeft, Nat.testBit_two_pow_sub_one, Nat.testBit_shiftRight]
  cases i with
  | zero => simp
  | succ j =>
    simp
    by_cases hj : j < 63
    · simp [hj, Nat.add_comm]
    · simp [hj]
      rw [Nat.add_comm]
      apply Nat.testBit_lt_two_pow
      exact Nat.lt_of_lt_of_le hx (Nat.pow_le_pow_right (by decide) (by omega))
      

theorem intersectImpl_eq (a b : Ty) : intersectImpl a b =
    (match a.asList, b.asList with
     | none, none => .ok (some (newNamedType a.base (a.nullable && b.nullable)))
     | some left, some right =>
       match intersectImpl left right with
       | .ok (some inner) =>
         match newListType inner (a.nullable && b.nullable) with
         | .ok t => .ok (some t)
         | .panic => .panic
       | .ok none => .ok none
       | .panic => .panic
     | _, _ => .ok none) := by
  rw [intersectImpl]
  split <;> simp_all <;> rfl

theorem equalIgnoringNullability_eq (a b : Ty) : equalIgnoringNullability a b =
    (if a.base != b.base then false
     else match a.asList, b.asList with
       | none, none => true
       | some left, some right => equalIgnoringNullability left right
       | _, _ => false) := by
  rw [equalIgnoringNullability]
  split
  · rfl
  · split <;> simp_all

theorem isScalarOnlySubtype_eq (a b : Ty) : isScalarOnlySubtype a b =
    (if !a.nullable && b.nullable then false
     else if a.base != b.base then false
     else match a.asList, b.asList with
       | none, none => true
       | some parent, some sub => isScalarOnlySubtype parent sub
       | _, _ => false) := by
  rw [isScalarOnlySubtype]
  split
  · rfl
  · split
    · rfl
    · split <;> simp_all

theorem displayLeft_eq (m : Nat) : displayLeft m =
    (if Mask.isList m then [LBRACKET] else []) ++
      (match Mask.asList m with | some m' => displayLeft m' | none => []) := by
  rw [displayLeft]
  congr 1
  split <;> simp_all

theorem displayBuilder_eq (m : Nat) : displayBuilder m =
    (if !Mask.nullable m then [BANG] else []) ++ (if Mask.isList m then [RBRACKET] else []) ++
      (match Mask.asList m with | some m' => displayBuilder m' | none => []) := by
  rw [displayBuilder]
  congr 1
  split <;> simp_all

theorem gparse_eq (s : Bytes) : gparse s =
    (match stripPrefix (splitBang s).2 LBRACKET with
     | some ty =>
       match stripSuffix ty RBRACKET with
       | none => none
       | some inner =>
         match gparse inner with
         | none => none
         | some g => some (.list g (splitBang s).1)
     | none => some (.named (splitBang s).2 (splitBang s).1)) := by
  rw [gparse]
  split
  · split <;> simp_all <;> rfl
  · simp_all

theorem decode_eq (m : Nat) : decode m =
    (match Mask.asList m with
     | some m' => .list (Mask.nullable m) (decode m')
     | none => .named (Mask.nullable m)) := by
  rw [decode]
  split <;> simp_all

/-! ### Refinement: constructors and accessors -/

theorem newNamedType_ofShape (b : Bytes) (n : Bool) : newNamedType b n = ofShape b (.named n) := by
  cases n <;> rfl

@[simp] theorem base_ofShape (b : Bytes) (s : Shape) : (ofShape b s).base = b := rfl

theorem nullable_ofShape (b : Bytes) (s : Shape) : (ofShape b s).nullable = s.nullable :=
  nullable_encode s

theorem isList_ofShape (b : Bytes) (s : Shape) : (ofShape b s).isList = decide (0 < s.depth) := by
  show Mask.isList s.encode = _
  rw [isList_encode]; cases s <;> simp [Shape.asList, depth]

theorem asList_ofShape (b : Bytes) (s : Shape) : (ofShape b s).asList = s.asList.map (ofShape b) := by
  show (match Mask.asList s.encode with | some m => some (Ty.mk b m) | none => none) = _
  rw [asList_encode]; cases s <;> rfl

theorem encode_lt_of_depth {s : Shape} {d : Nat} (h : s.depth ≤ d) : s.encode < 2 ^ (2 * d + 1) :=
  Nat.lt_of_lt_of_le (encode_lt s) (Nat.pow_le_pow_right (by decide) (by omega))

/-- `new_list_type` adds a level when the inner type has fewer than 30 … -/
theorem newListType_ofShape (b : Bytes) (s : Shape) (n : Bool) (h : s.depth < 30) :
    newListType (ofShape b s) n = .ok (ofShape b (.list n s)) := by
  unfold newListType
  have hm : Mask.atMaxListDepth (ofShape b s).mask = false := by
    show Mask.atMaxListDepth s.encode = false
    rw [atMax_encode]; simp; omega
  rw [hm]
  have hlt : s.encode < 2 ^ 59 := encode_lt_of_depth (d := 29) (by omega)
  have e1 : (ofShape b s).mask <<< 2 % U64_MOD = s.encode * 4 := by
    show s.encode <<< 2 % 2 ^ 64 = _
    rw [Nat.shiftLeft_eq]
    exact Nat.mod_eq_of_lt (by omega)
  have e2 : s.encode * 4 ||| 2 = s.encode * 4 + 2 := by
    have := or_small s.encode 0 2 (by decide) (by decide)
    simpa using this
  have e3 : s.encode * 4 + 2 ||| 1 = s.encode * 4 + 2 + 1 := by
    have := or_small s.encode 2 1 (by decide) (by decide)
    simpa [Nat.add_assoc] using this
  simp only [e1, Bool.false_eq_true, if_false]
  cases n <;> simp [ofShape, encode, nnBit, e2, e3]

/-- … and panics when it already has 30. -/
theorem newListType_panic (b : Bytes) (s : Shape) (n : Bool) (h : 30 ≤ s.depth) :
    newListType (ofShape b s) n = .panic := by
  unfold newListType
  have hm : Mask.atMaxListDepth (ofShape b s).mask = true := by
    show Mask.atMaxListDepth s.encode = true
    rw [atMax_encode]; simpa using h
  rw [hm]; rfl

theorem withNullability_ofShape (b : Bytes) (s : Shape) (n : Bool) (h : s.depth ≤ 30) :
    withNullability (ofShape b s) n = ofShape b (s.withNullability n) := by
  have hlt : s.encode < 2 ^ 61 := encode_lt_of_depth h
  unfold withNullability
  cases n with
  | true =>
    simp only [if_true, ofShape]
    congr 1
    show s.encode &&& (2 ^ 64 - 1 - 1) = _
    rw [and_not_one _ (by omega)]
    cases s with
    | named n' => cases n' <;> rfl
    | list n' s' =>
      have := nnBit_lt n'
      simp only [encode, Shape.withNullability]
      generalize nnBit n' = k at *
      simp only [nnBit, if_true]
      omega
  | false =>
    simp only [Bool.false_eq_true, if_false, ofShape]
    congr 1
    cases s with
    | named n' => cases n' <;> rfl
    | list n' s' =>
      simp only [encode, Shape.withNullability]
      cases n'
      · have := or_small s'.encode 3 1 (by decide) (by decide)
        simpa [nnBit, Nat.add_assoc] using this
      · have := or_small s'.encode 2 1 (by decide) (by decide)
        simpa [nnBit, Nat.add_assoc] using this

/-! ### Refinement: the recursive operations -/

namespace Shape
theorem inter_depth {a b r : Shape} (h : inter a b = some r) : r.depth = a.depth := by
  induction a generalizing b r with
  | named n => cases b <;> simp [inter] at h; subst h; rfl
  | list n s ih =>
    cases b with
    | named _ => simp [inter] at h
    | list n' s' =>
      simp [inter] at h
      obtain ⟨r', hr', rfl⟩ := h
      simp [depth, ih hr']
end Shape

theorem intersectImpl_ofShape (ba bb : Bytes) (sa sb : Shape) (h : sa.depth ≤ 30) :
    intersectImpl (ofShape ba sa) (ofShape bb sb) = .ok ((inter sa sb).map (ofShape ba)) := by
  induction sa generalizing sb with
  | named n =>
    rw [intersectImpl_eq]
    cases sb with
    | named n' =>
      simp [asList_ofShape, Shape.asList, nullable_ofShape, Shape.nullable, inter, newNamedType_ofShape]
    | list n' s' =>
      simp [asList_ofShape, Shape.asList, inter]
  | list n s ih =>
    rw [intersectImpl_eq]
    cases sb with
    | named n' => simp [asList_ofShape, Shape.asList, inter]
    | list n' s' =>
      have hd : s.depth ≤ 29 := by simp [depth] at h; omega
      simp only [asList_ofShape, Shape.asList, Option.map_some, nullable_ofShape, Shape.nullable, inter]
      rw [ih s' (by omega)]
      cases hr : inter s s' with
      | none => simp
      | some r =>
        have := inter_depth hr
        simp only [Option.map_some]
        rw [newListType_ofShape _ _ _ (by omega)]

theorem intersect_ofShape (ba bb : Bytes) (sa sb : Shape) (h : sa.depth ≤ 30) :
    intersect (ofShape ba sa) (ofShape bb sb) =
      .ok (if ba = bb then (inter sa sb).map (ofShape ba) else none) := by
  unfold intersect
  by_cases hb : ba = bb
  · subst hb; simp; exact intersectImpl_ofShape ba ba sa sb h
  · simp [hb]

theorem equalIgnoringNullability_ofShape (ba bb : Bytes) (sa sb : Shape) :
    equalIgnoringNullability (ofShape ba sa) (ofShape bb sb) = (ba == bb && sameDepth sa sb) := by
  induction sa generalizing sb with
  | named n =>
    rw [equalIgnoringNullability_eq]
    by_cases hb : ba = bb <;> cases sb <;> simp [asList_ofShape, Shape.asList, sameDepth, hb]
  | list n s ih =>
    rw [equalIgnoringNullability_eq]
    by_cases hb : ba = bb
    · cases sb with
      | named n' => simp [asList_ofShape, Shape.asList, sameDepth, hb]
      | list n' s' =>
        simp only [asList_ofShape, Shape.asList, Option.map_some, sameDepth]
        rw [ih]; simp [hb]
    · simp [hb]

theorem isScalarOnlySubtype_ofShape (ba bb : Bytes) (sa sb : Shape) :
    isScalarOnlySubtype (ofShape ba sa) (ofShape bb sb) = (ba == bb && sub sa sb) := by
  induction sa generalizing sb with
  | named n =>
    rw [isScalarOnlySubtype_eq]
    by_cases hb : ba = bb <;> cases sb <;> cases n <;>
      simp [asList_ofShape, Shape.asList, sub, hb, nullable_ofShape, Shape.nullable]
  | list n s ih =>
    rw [isScalarOnlySubtype_eq]
    by_cases hb : ba = bb
    · cases sb with
      | named n' => simp [asList_ofShape, Shape.asList, sub, hb]
      | list n' s' =>
        simp only [asList_ofShape, Shape.asList, Option.map_some, sub, nullable_ofShape, Shape.nullable]
        rw [ih]; cases n <;> cases n' <;> simp [hb]
    · simp [hb]

mutual
theorem isValidValue_ofShape (b : Bytes) (s : Shape) :
    (v : Value) → isValidValue (ofShape b s) v = Shape.valid b s v
  | .null => by simp [isValidValue, Shape.valid, nullable_ofShape]
  | .int64 _ => by cases s <;> simp [isValidValue, Shape.valid, isList_ofShape, depth]
  | .uint64 _ => by cases s <;> simp [isValidValue, Shape.valid, isList_ofShape, depth]
  | .float64 _ => by cases s <;> simp [isValidValue, Shape.valid, isList_ofShape, depth]
  | .string _ => by cases s <;> simp [isValidValue, Shape.valid, isList_ofShape, depth]
  | .boolean _ => by cases s <;> simp [isValidValue, Shape.valid, isList_ofShape, depth]
  | .enum _ => by cases s <;> simp [isValidValue, Shape.valid]
  | .list l => by
    cases s with
    | named n => simp [isValidValue, Shape.valid, asList_ofShape, Shape.asList]
    | list n s' =>
      simp only [isValidValue, Shape.valid, asList_ofShape, Shape.asList, Option.map_some]
      exact allValid_ofShape b s' l
theorem allValid_ofShape (b : Bytes) (s : Shape) :
    (l : List Value) → allValid (ofShape b s) l = validAll b s l
  | [] => by simp [allValid, validAll]
  | x :: xs => by
    simp only [allValid, validAll]
    rw [isValidValue_ofShape b s x, allValid_ofShape b s xs]
end

/-! ### Display -/

theorem displayLeft_encode (s : Shape) : displayLeft s.encode = List.replicate s.depth LBRACKET := by
  induction s with
  | named n =>
    rw [displayLeft_eq, isList_encode, asList_encode]; simp [Shape.asList, depth]
  | list n s ih =>
    rw [displayLeft_eq, isList_encode, asList_encode]
    simp [Shape.asList, depth, ih, List.replicate_succ]

/-- The right-hand part of the text: suffixes from the innermost level outwards. -/
def Shape.right : Shape → Bytes
  | .named n => bang n
  | .list n s => Shape.right s ++ [RBRACKET] ++ bang n

theorem bang_reverse (n : Bool) : (bang n).reverse = bang n := by cases n <;> rfl

theorem displayBuilder_encode (s : Shape) : (displayBuilder s.encode).reverse = Shape.right s := by
  induction s with
  | named n =>
    rw [displayBuilder_eq, isList_encode, asList_encode, nullable_encode]
    cases n <;> simp [Shape.asList, Shape.right, Shape.nullable, bang]
  | list n s ih =>
    rw [displayBuilder_eq, isList_encode, asList_encode, nullable_encode]
    simp only [Shape.asList, Option.isSome_some, if_true, Option.map_some, Shape.nullable, List.reverse_append, ih, Shape.right]
    cases n <;> simp [bang]

theorem display_split (b : Bytes) (s : Shape) :
    Shape.display b s = List.replicate s.depth LBRACKET ++ b ++ Shape.right s := by
  induction s with
  | named n => simp [Shape.display, depth, Shape.right]
  | list n s ih =>
    simp [Shape.display, depth, Shape.right, ih, List.replicate_succ]

theorem display_ofShape (b : Bytes) (s : Shape) : display (ofShape b s) = Shape.display b s := by
  unfold display
  show displayLeft s.encode ++ b ++ (displayBuilder s.encode).reverse = _
  rw [displayLeft_encode, displayBuilder_encode, display_split]

/-! ### Well-formedness -/

theorem WF.exists_shape {t : Ty} (h : WF t) : ∃ s : Shape, s.depth ≤ 30 ∧ t = ofShape t.base s := by
  obtain ⟨s, hd, he⟩ := h
  exact ⟨s, hd, by cases t; simp only [ofShape]; congr 1; exact he.symm⟩

theorem wf_ofShape (b : Bytes) (s : Shape) (h : s.depth ≤ 30) : WF (ofShape b s) := ⟨s, h, rfl⟩

theorem shape_ofShape (b : Bytes) (s : Shape) : (ofShape b s).shape = s := decode_encode s

theorem listDepth_ofShape (b : Bytes) (s : Shape) : (ofShape b s).listDepth = s.depth := by
  unfold listDepth; rw [shape_ofShape]

theorem wf_newNamedType (b : Bytes) (n : Bool) : WF (newNamedType b n) := by
  rw [newNamedType_ofShape]; exact wf_ofShape _ _ (by simp [depth])

theorem wf_newListType {t t' : Ty} {n : Bool} (h : WF t) (h' : newListType t n = .ok t') : WF t' := by
  obtain ⟨s, hd, he⟩ := h.exists_shape
  rw [he] at h'
  by_cases h30 : s.depth < 30
  · rw [newListType_ofShape _ _ _ h30] at h'
    cases h'
    exact wf_ofShape _ _ (by show s.depth + 1 ≤ 30; omega)
  · rw [newListType_panic _ _ _ (by omega)] at h'
    cases h'

theorem wf_withNullability {t : Ty} (n : Bool) (h : WF t) : WF (withNullability t n) := by
  obtain ⟨s, hd, he⟩ := h.exists_shape
  rw [he, withNullability_ofShape _ _ _ hd]
  have hd' : (s.withNullability n).depth = s.depth := by cases s <;> rfl
  exact wf_ofShape _ _ (by rw [hd']; exact hd)

theorem wf_asList {t t' : Ty} (h : WF t) (h' : asList t = some t') : WF t' := by
  obtain ⟨s, hd, he⟩ := h.exists_shape
  rw [he, asList_ofShape] at h'
  cases s with
  | named n => simp [Shape.asList] at h'
  | list n s' =>
    simp [Shape.asList] at h'
    subst h'
    exact wf_ofShape _ _ (by simp [depth] at hd; omega)

theorem wf_intersect {a b c : Ty} (ha : WF a) (hb : WF b) (h : intersect a b = .ok (some c)) : WF c := by
  obtain ⟨sa, hda, hea⟩ := ha.exists_shape
  obtain ⟨sb, hdb, heb⟩ := hb.exists_shape
  rw [hea, heb, intersect_ofShape _ _ _ _ hda] at h
  split at h
  · cases hr : inter sa sb with
    | none => simp [hr] at h
    | some r =>
      simp [hr] at h
      subst h
      exact wf_ofShape _ _ (by rw [inter_depth hr]; exact hda)
  · simp at h

/-- `intersect` never panics on well-formed types. -/
theorem intersect_total {a b : Ty} (ha : WF a) (hb : WF b) : ∃ r, intersect a b = .ok r := by
  obtain ⟨sa, hda, hea⟩ := ha.exists_shape
  obtain ⟨sb, hdb, heb⟩ := hb.exists_shape
  rw [hea, heb, intersect_ofShape _ _ _ _ hda]
  exact ⟨_, rfl⟩

/-! ### Laws on `Shape` -/
namespace Shape

theorem inter_comm (a b : Shape) : inter a b = inter b a := by
  induction a generalizing b with
  | named n => cases b <;> simp [inter, Bool.and_comm]
  | list n s ih => cases b <;> simp [inter, Bool.and_comm, ih]

theorem inter_idem (a : Shape) : inter a a = some a := by
  induction a with
  | named n => simp [inter]
  | list n s ih => simp [inter, ih]

theorem inter_assoc (a b c : Shape) :
    (inter a b).bind (fun x => inter x c) = (inter b c).bind (fun y => inter a y) := by
  induction a generalizing b c with
  | named n =>
    cases b with
    | named n' => cases c <;> simp [inter, Bool.and_assoc]
    | list n' s' =>
      cases c with
      | named n'' => simp [inter]
      | list n'' s'' => simp only [inter]; cases inter s' s'' <;> simp [inter]
  | list n s ih =>
    cases b with
    | named n' => cases c <;> simp [inter]
    | list n' s' =>
      cases c with
      | named n'' => simp [inter]
      | list n'' s'' =>
        have key := ih s' s''
        simp only [inter]
        cases h1 : inter s s' with
        | none =>
          cases h2 : inter s' s'' with
          | none => simp
          | some v =>
            rw [h1, h2] at key
            simp at key
            simp [inter, ← key]
        | some u =>
          cases h2 : inter s' s'' with
          | none =>
            rw [h1, h2] at key
            simp at key
            simp [inter, key]
          | some v =>
            rw [h1, h2] at key
            simp at key
            simp [inter, key, Bool.and_assoc]

theorem sub_refl (a : Shape) : sub a a = true := by
  induction a with
  | named n => cases n <;> rfl
  | list n s ih => cases n <;> simp [sub, ih]

theorem sub_antisymm {a b : Shape} (h1 : sub a b = true) (h2 : sub b a = true) : a = b := by
  induction a generalizing b with
  | named n => cases b with
    | named n' => cases n <;> cases n' <;> simp_all [sub]
    | list _ _ => simp [sub] at h1
  | list n s ih => cases b with
    | named _ => simp [sub] at h1
    | list n' s' =>
      simp only [sub, Bool.and_eq_true] at h1 h2
      rw [ih h1.2 h2.2]
      cases n <;> cases n' <;> simp_all

theorem sub_trans {a b c : Shape} (h1 : sub a b = true) (h2 : sub b c = true) : sub a c = true := by
  induction a generalizing b c with
  | named n => cases b <;> cases c <;> simp_all [sub] <;> (cases n <;> simp_all)
  | list n s ih =>
    cases b with
    | named _ => simp [sub] at h1
    | list n' s' =>
      cases c with
      | named _ => simp [sub] at h2
      | list n'' s'' =>
        simp only [sub, Bool.and_eq_true] at h1 h2 ⊢
        refine ⟨?_, ih h1.2 h2.2⟩
        cases n <;> cases n' <;> cases n'' <;> simp_all

theorem inter_sub {a b c : Shape} (h : inter a b = some c) : sub a c = true ∧ sub b c = true := by
  induction a generalizing b c with
  | named n =>
    cases b with
    | named n' => simp [inter] at h; subst h; cases n <;> cases n' <;> simp [sub]
    | list _ _ => simp [inter] at h
  | list n s ih =>
    cases b with
    | named _ => simp [inter] at h
    | list n' s' =>
      simp [inter] at h
      obtain ⟨r, hr, rfl⟩ := h
      have := ih hr
      cases n <;> cases n' <;> simp [sub, this]

theorem inter_greatest {a b d : Shape} (h1 : sub a d = true) (h2 : sub b d = true) :
    ∃ c, inter a b = some c ∧ sub c d = true := by
  induction a generalizing b d with
  | named n =>
    cases d with
    | named nd =>
      cases b with
      | named n' => exact ⟨_, rfl, by cases n <;> cases n' <;> cases nd <;> simp_all [sub]⟩
      | list _ _ => simp [sub] at h2
    | list _ _ => simp [sub] at h1
  | list n s ih =>
    cases d with
    | named _ => simp [sub] at h1
    | list nd sd =>
      cases b with
      | named _ => simp [sub] at h2
      | list n' s' =>
        simp only [sub, Bool.and_eq_true] at h1 h2
        obtain ⟨c, hc, hcd⟩ := ih h1.2 h2.2
        refine ⟨.list (n && n') c, by simp [inter, hc], ?_⟩
        simp only [sub, Bool.and_eq_true]
        refine ⟨?_, hcd⟩
        cases n <;> cases n' <;> cases nd <;> simp_all

theorem sameDepth_iff (a b : Shape) : sameDepth a b = true ↔ a.depth = b.depth := by
  induction a generalizing b with
  | named n => cases b <;> simp [sameDepth, depth]
  | list n s ih => cases b <;> simp [sameDepth, depth, ih]

theorem inter_none_iff (a b : Shape) : inter a b = none ↔ a.depth ≠ b.depth := by
  induction a generalizing b with
  | named n => cases b <;> simp [inter, depth]
  | list n s ih => cases b <;> simp [inter, depth, ih]

theorem sub_depth {a b : Shape} (h : sub a b = true) : a.depth = b.depth := by
  induction a generalizing b with
  | named n => cases b <;> simp_all [sub, depth]
  | list n s ih =>
    cases b with
    | named _ => simp [sub] at h
    | list n' s' => simp only [sub, Bool.and_eq_true] at h; simp [depth, ih h.2]

theorem sub_nullable {a b : Shape} (h : sub a b = true) (hb : b.nullable = true) : a.nullable = true := by
  cases a <;> cases b <;> simp_all [sub, nullable]

mutual
theorem valid_mono (base : Bytes) {a b : Shape} (h : sub a b = true) :
    (v : Value) → valid base b v = true → valid base a v = true
  | .null => by
    intro hv; simp only [valid] at hv ⊢; exact sub_nullable h hv
  | .int64 _ => by simp only [valid, sub_depth h]; exact id
  | .uint64 _ => by simp only [valid, sub_depth h]; exact id
  | .float64 _ => by simp only [valid, sub_depth h]; exact id
  | .string _ => by simp only [valid, sub_depth h]; exact id
  | .boolean _ => by simp only [valid, sub_depth h]; exact id
  | .enum _ => by intro hv; cases b <;> simp [valid] at hv
  | .list l => by
    cases a with
    | named n => cases b <;> simp_all [sub, valid]
    | list n s =>
      cases b with
      | named _ => simp [sub] at h
      | list n' s' =>
        simp only [sub, Bool.and_eq_true] at h
        simp only [valid]
        exact validAll_mono base h.2 l
theorem validAll_mono (base : Bytes) {a b : Shape} (h : sub a b = true) :
    (l : List Value) → validAll base b l = true → validAll base a l = true
  | [] => by simp [validAll]
  | x :: xs => by
    intro hv
    simp only [validAll, Bool.and_eq_true] at hv ⊢
    exact ⟨valid_mono base h x hv.1, validAll_mono base h xs hv.2⟩
end

mutual
/-- A value valid for both inputs of an intersection is valid for the intersection. -/
theorem valid_inter (base : Bytes) {a b c : Shape} (h : inter a b = some c) :
    (v : Value) → valid base a v = true → valid base b v = true → valid base c v = true
  | .null => by
    intro h1 h2
    simp only [valid] at h1 h2 ⊢
    cases a <;> cases b <;> simp [inter] at h
    · subst h; simp_all [nullable]
    · obtain ⟨r, _, rfl⟩ := h; simp_all [nullable]
  | .int64 _ => by simp only [valid, inter_depth h]; exact fun x _ => x
  | .uint64 _ => by simp only [valid, inter_depth h]; exact fun x _ => x
  | .float64 _ => by simp only [valid, inter_depth h]; exact fun x _ => x
  | .string _ => by simp only [valid, inter_depth h]; exact fun x _ => x
  | .boolean _ => by simp only [valid, inter_depth h]; exact fun x _ => x
  | .enum _ => by intro hv; cases a <;> simp [valid] at hv
  | .list l => by
    cases a with
    | named n => intro hv; simp [valid] at hv
    | list n s =>
      cases b with
      | named _ => simp [inter] at h
      | list n' s' =>
        simp [inter] at h
        obtain ⟨r, hr, rfl⟩ := h
        simp only [valid]
        exact validAll_inter base hr l
theorem validAll_inter (base : Bytes) {a b c : Shape} (h : inter a b = some c) :
    (l : List Value) → validAll base a l = true → validAll base b l = true →
      validAll base c l = true
  | [] => by simp [validAll]
  | x :: xs => by
    intro h1 h2
    simp only [validAll, Bool.and_eq_true] at h1 h2 ⊢
    exact ⟨valid_inter base h x h1.1 h2.1, validAll_inter base h xs h1.2 h2.2⟩
end

/-- An enum value is valid for no shape.  (History: before the repair of F-14 / F-C10-2 / F-C19-1
the `Enum` arm was `unimplemented!`, `valid` returned an `Outcome Bool`, and the lemma here was
`valid_total`: "no panic on enum-free values".  `is_valid_value` is now a total `Bool` function:
totality is the type of `valid`.) -/
theorem valid_enum (base : Bytes) (s : Shape) (e : Bytes) : valid base s (.enum e) = false := by
  cases s <;> simp [valid]

mutual
/-- No shape accepts a value with an enum leaf, at any nesting: an accepted value is enum-free. -/
theorem valid_enumFree (base : Bytes) :
    (s : Shape) → (v : Value) → valid base s v = true → v.enumFree = true
  | _, .null => fun _ => rfl
  | _, .int64 _ => fun _ => rfl
  | _, .uint64 _ => fun _ => rfl
  | _, .float64 _ => fun _ => rfl
  | _, .string _ => fun _ => rfl
  | _, .boolean _ => fun _ => rfl
  | s, .enum e => by intro h; rw [valid_enum] at h; cases h
  | named _, .list _ => by intro h; simp [valid] at h
  | list _ s', .list l => by
    intro h
    simp only [valid] at h
    simp only [Value.enumFree]
    exact validAll_enumFree base s' l h
theorem validAll_enumFree (base : Bytes) (s : Shape) :
    (l : List Value) → validAll base s l = true → Value.enumFreeList l = true
  | [] => fun _ => rfl
  | x :: xs => by
    intro h
    simp only [validAll, Bool.and_eq_true] at h
    simp only [Value.enumFreeList, Bool.and_eq_true]
    exact ⟨valid_enumFree base s x h.1, validAll_enumFree base s xs h.2⟩
end

end Shape

/-! ### `from_type` -/

theorem or_two_pow_of_lt {m i : Nat} (h : m < 2 ^ i) (a : Nat) : m ||| (a <<< i) = m + 2 ^ i * a := by
  rw [Nat.or_comm, Nat.shiftLeft_eq, Nat.mul_comm a, ← Nat.two_pow_add_eq_or_of_lt h a, Nat.add_comm]

theorem fromTypeLoop_ok (g : GType) (acc k : Nat) (hacc : acc < 2 ^ (2 * k))
    (hd : k + g.shape.depth ≤ 30) :
    fromTypeLoop g (acc + 2 ^ (2 * k) * nnBit g.nullable) (2 * k) =
      .ok ⟨g.name, acc + 2 ^ (2 * k) * g.shape.encode⟩ := by
  induction g generalizing acc k with
  | named name n => simp [fromTypeLoop, GType.name, GType.shape, encode, GType.nullable]
  | list inside n ih =>
    simp only [GType.shape, depth] at hd
    have hn := nnBit_lt n
    have hp : 2 ^ (2 * k + 1) = 2 * 2 ^ (2 * k) := by rw [Nat.pow_succ]; omega
    have hp2 : 2 ^ (2 * (k + 1)) = 4 * 2 ^ (2 * k) := by
      rw [show 2 * (k + 1) = 2 * k + 2 by omega, Nat.pow_add]; omega
    have h0 : acc + 2 ^ (2 * k) * nnBit n < 2 ^ (2 * k + 1) := by
      have : 2 ^ (2 * k) * nnBit n ≤ 2 ^ (2 * k) * 1 := Nat.mul_le_mul_left _ (by omega)
      omega
    rw [show (GType.list inside n).nullable = n from rfl]
    unfold fromTypeLoop
    have e1 : (acc + 2 ^ (2 * k) * nnBit n) ||| (LIST_MASK <<< (2 * k)) =
        acc + 2 ^ (2 * k) * nnBit n + 2 ^ (2 * k + 1) := by
      have : LIST_MASK <<< (2 * k) = 1 <<< (2 * k + 1) := by
        show 2 <<< (2 * k) = _
        rw [Nat.shiftLeft_eq, Nat.shiftLeft_eq, hp]; omega
      rw [this, or_two_pow_of_lt h0 1]; simp
    rw [e1]
    have hk : ¬ (2 * k + 2 > MAX_LIST_DEPTH * 2) := by show ¬ (2 * k + 2 > 30 * 2); omega
    simp only []
    rw [if_neg hk]
    have h1 : acc + 2 ^ (2 * k) * nnBit n + 2 ^ (2 * k + 1) < 2 ^ (2 * (k + 1)) := by
      rw [hp2]; omega
    have e2 : (if (!inside.nullable) = true then
          (acc + 2 ^ (2 * k) * nnBit n + 2 ^ (2 * k + 1)) ||| (NON_NULLABLE_MASK <<< (2 * k + 2))
        else acc + 2 ^ (2 * k) * nnBit n + 2 ^ (2 * k + 1)) =
        (acc + 2 ^ (2 * k) * nnBit n + 2 ^ (2 * k + 1)) + 2 ^ (2 * (k + 1)) * nnBit inside.nullable := by
      cases inside.nullable
      · simp only [Bool.not_false, if_true]
        rw [show 2 * k + 2 = 2 * (k + 1) by omega, or_two_pow_of_lt h1 1]; simp [nnBit]
      · simp [nnBit]
    rw [e2, show 2 * k + 2 = 2 * (k + 1) by omega, ih _ (k + 1) h1 (by omega)]
    simp only [GType.name, GType.shape, encode, Outcome.ok.injEq, Ty.mk.injEq, true_and]
    rw [hp, hp2]
    generalize 2 ^ (2 * k) = p
    generalize inside.shape.encode = e
    generalize nnBit n = c
    grind

theorem fromTypeLoop_panic (g : GType) (mask k : Nat) (hk : k ≤ 30) (hd : 30 < k + g.shape.depth) :
    fromTypeLoop g mask (2 * k) = .panic := by
  induction g generalizing mask k with
  | named name n => simp [GType.shape, depth] at hd; omega
  | list inside n ih =>
    simp only [GType.shape, depth] at hd
    unfold fromTypeLoop
    by_cases h30 : k = 30
    · subst h30; simp only []; rw [if_pos (by decide)]
    · have hk' : ¬ (2 * k + 2 > MAX_LIST_DEPTH * 2) := by show ¬ (2 * k + 2 > 30 * 2); omega
      simp only [hk', if_false]
      rw [show 2 * k + 2 = 2 * (k + 1) by omega]
      exact ih _ (k + 1) (by omega) (by omega)

/-- `from_type` builds exactly the encoding of the parsed shape — no bit of one level collides with
another — and panics exactly beyond 30 list levels. -/
theorem fromType_eq (g : GType) :
    fromType g = if g.shape.depth ≤ 30 then .ok (ofShape g.name g.shape) else .panic := by
  unfold fromType
  have e : (if g.nullable = true then 0 else NON_NULLABLE_MASK) = nnBit g.nullable := by
    cases g.nullable <;> rfl
  rw [e]
  by_cases h : g.shape.depth ≤ 30
  · rw [if_pos h]
    have := fromTypeLoop_ok g 0 0 (by decide) (by omega)
    simp only [Nat.mul_zero, Nat.pow_zero, Nat.zero_add, Nat.one_mul] at this
    rw [this]; rfl
  · rw [if_neg h]
    exact fromTypeLoop_panic g _ 0 (by omega) (by omega)

theorem wf_fromType {g : GType} {t : Ty} (h : fromType g = .ok t) : WF t := by
  rw [fromType_eq] at h
  split at h
  · cases h; exact wf_ofShape _ _ (by assumption)
  · cases h

theorem wf_parse {s : Bytes} {t : Ty} (h : parse s = .ok (some t)) : WF t := by
  unfold parse at h
  split at h
  · cases h
  · rename_i g _
    cases hf : fromType g with
    | panic => simp [hf] at h
    | ok t' => simp [hf] at h; subst h; exact wf_fromType hf

end TF.Ty
