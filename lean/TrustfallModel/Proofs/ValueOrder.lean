/-
Helper lemmas for C08: `Value.cmp` is an oriented, transitive comparison that agrees with
`Value.beq` and with numeric order on integers.  Core Lean + `Std` only.
-/
import TrustfallModel.Model.Value

namespace TF.Value

/-! ### integers -/

theorem cmpI64U64_num (s : Int64) (u : UInt64) :
    cmpI64U64 s u = compare s.toInt (u.toNat : Int) := by
  unfold cmpI64U64
  have h1 := Int64.toInt_lt s
  have h2 := Int64.le_toInt s
  have h3 := UInt64.toNat_lt u
  split
  · rfl
  · have hlt : s.toInt < (u.toNat : Int) := by omega
    rw [Int.compare_eq_lt.mpr hlt]
    split
    · exact Nat.compare_eq_lt.mpr (by omega)
    · rfl

theorem natCompare_cast (a b : Nat) : compare a b = compare (a : Int) (b : Int) := by
  rcases Nat.lt_trichotomy a b with h | h | h
  · rw [Nat.compare_eq_lt.mpr h, Int.compare_eq_lt.mpr (by omega)]
  · rw [Nat.compare_eq_eq.mpr h, Int.compare_eq_eq.mpr (by omega)]
  · rw [Nat.compare_eq_gt.mpr h, Int.compare_eq_gt.mpr (by omega)]

/-- Equivalence class of the discriminant: both integer variants share class 1. -/
def cls : Value → Nat
  | null => 0
  | int64 _ => 1
  | uint64 _ => 1
  | float64 _ => 3
  | string _ => 4
  | boolean _ => 5
  | enum _ => 6
  | list _ => 7

/-- Numeric value, `0` off the integer class. -/
def num : Value → Int
  | int64 i => i.toInt
  | uint64 u => (u.toNat : Int)
  | _ => 0

theorem cmp_of_cls_ne {a b : Value} (h : cls a ≠ cls b) : cmp a b = compare (cls a) (cls b) := by
  cases a <;> cases b <;> simp [cls] at h <;> simp [cmp, cls, disc] <;> decide

theorem cmp_int {a b : Value} (ha : cls a = 1) (hb : cls b = 1) :
    cmp a b = compare (num a) (num b) := by
  cases a <;> simp [cls] at ha <;> cases b <;> simp [cls] at hb
  · simp [cmp, num]
  · simp [cmp, num, cmpI64U64_num]
  · simp only [cmp, num, cmpI64U64_num, Int.compare_swap]
  · simp [cmp, num, natCompare_cast]

/-! ### generic facts about comparisons on `Int`/`Nat`/`Bool`/bytes -/

theorem int_isLE_trans {a b c : Int} (h1 : (compare a b).isLE) (h2 : (compare b c).isLE) :
    (compare a c).isLE := by
  rw [Int.isLE_compare] at *
  omega

theorem nat_isLE_trans {a b c : Nat} (h1 : (compare a b).isLE) (h2 : (compare b c).isLE) :
    (compare a c).isLE := by
  rw [Nat.isLE_compare] at *
  omega

theorem cmpBool_swap (a b : Bool) : cmpBool a b = (cmpBool b a).swap := by
  cases a <;> cases b <;> rfl

theorem cmpBool_trans {a b c : Bool} (h1 : (cmpBool a b).isLE) (h2 : (cmpBool b c).isLE) :
    (cmpBool a c).isLE := by
  cases a <;> cases b <;> cases c <;> simp_all [cmpBool]

theorem cmpBool_eq_iff (a b : Bool) : cmpBool a b = .eq ↔ a = b := by
  cases a <;> cases b <;> simp [cmpBool]

theorem cmpBytes_swap (a b : Bytes) : cmpBytes a b = (cmpBytes b a).swap := by
  induction a generalizing b with
  | nil => cases b <;> rfl
  | cons x xs ih =>
    cases b with
    | nil => rfl
    | cons y ys =>
      simp only [cmpBytes]
      rw [← Nat.compare_swap y.toNat x.toNat]
      cases h : compare y.toNat x.toNat <;> simp [Ordering.swap, ih ys]

theorem cmpBytes_eq_iff (a b : Bytes) : cmpBytes a b = .eq ↔ a = b := by
  induction a generalizing b with
  | nil => cases b <;> simp [cmpBytes]
  | cons x xs ih =>
    cases b with
    | nil => simp [cmpBytes]
    | cons y ys =>
      simp only [cmpBytes, List.cons.injEq]
      cases h : compare x.toNat y.toNat
      · have := Nat.compare_eq_lt.mp h
        simp; intro hxy; subst hxy; omega
      · have := Nat.compare_eq_eq.mp h
        have hxy : x = y := UInt8.toNat_inj.mp this
        simp [hxy, ih ys]
      · have := Nat.compare_eq_gt.mp h
        simp; intro hxy; subst hxy; omega

theorem cmpBytes_trans {a b c : Bytes} (h1 : (cmpBytes a b).isLE) (h2 : (cmpBytes b c).isLE) :
    (cmpBytes a c).isLE := by
  induction a generalizing b c with
  | nil => cases c <;> simp [cmpBytes]
  | cons x xs ih =>
    cases b with
    | nil => simp [cmpBytes] at h1
    | cons y ys =>
      cases c with
      | nil => simp [cmpBytes] at h2
      | cons z zs =>
        simp only [cmpBytes] at h1 h2 ⊢
        rcases Nat.lt_trichotomy x.toNat y.toNat with hxy | hxy | hxy
        · rcases Nat.lt_trichotomy y.toNat z.toNat with hyz | hyz | hyz
          · rw [Nat.compare_eq_lt.mpr (by omega : x.toNat < z.toNat)]; rfl
          · rw [Nat.compare_eq_lt.mpr (by omega : x.toNat < z.toNat)]; rfl
          · rw [Nat.compare_eq_gt.mpr hyz] at h2; simp at h2
        · rcases Nat.lt_trichotomy y.toNat z.toNat with hyz | hyz | hyz
          · rw [Nat.compare_eq_lt.mpr (by omega : x.toNat < z.toNat)]; rfl
          · rw [Nat.compare_eq_eq.mpr hxy] at h1
            rw [Nat.compare_eq_eq.mpr hyz] at h2
            rw [Nat.compare_eq_eq.mpr (by omega : x.toNat = z.toNat)]
            exact ih h1 h2
          · rw [Nat.compare_eq_gt.mpr hyz] at h2; simp at h2
        · rw [Nat.compare_eq_gt.mpr hxy] at h1; simp at h1

/-! ### orientation (antisymmetry) -/

mutual
theorem cmp_swap (a b : Value) : cmp a b = (cmp b a).swap := by
  cases a <;> cases b <;> (try (simp only [cmp, disc]; decide))
  · simp only [cmp]; rw [← Int.compare_swap]
  · simp only [cmp, Ordering.swap_swap]
  · simp only [cmp]
  · simp only [cmp]; rw [← Nat.compare_swap]
  · simp only [cmp]; rw [← Int.compare_swap]
  · simp only [cmp]; exact cmpBytes_swap _ _
  · simp only [cmp]; exact cmpBool_swap _ _
  · simp only [cmp]; exact cmpBytes_swap _ _
  · simp only [cmp]; exact cmpList_swap _ _
theorem cmpList_swap (a b : List Value) : cmpList a b = (cmpList b a).swap := by
  cases a with
  | nil => cases b <;> rfl
  | cons x xs =>
    cases b with
    | nil => rfl
    | cons y ys =>
      simp only [cmpList]
      rw [cmp_swap x y]
      cases h : cmp y x <;> simp [Ordering.swap, cmpList_swap xs ys]
end

/-! ### agreement with equality -/

mutual
theorem cmp_eq_iff_beq (a b : Value) : cmp a b = .eq ↔ beq a b = true := by
  cases a <;> cases b <;> (try (simp only [cmp, beq, disc]; decide))
  · simp only [cmp, beq, Int.compare_eq_eq, beq_iff_eq, Int64.toInt_inj]
  · simp only [cmp, beq, beq_iff_eq]
  · simp only [cmp, beq, beq_iff_eq, Ordering.swap_eq_eq]
  · simp only [cmp, beq, Nat.compare_eq_eq, beq_iff_eq, UInt64.toNat_inj]
  · simp only [cmp, beq, Int.compare_eq_eq, beq_iff_eq]
  · simp only [cmp, beq, cmpBytes_eq_iff, beq_iff_eq]
  · simp only [cmp, beq, cmpBool_eq_iff, beq_iff_eq]
  · simp only [cmp, beq, cmpBytes_eq_iff, beq_iff_eq]
  · simp only [cmp, beq]; exact cmpList_eq_iff_beqList _ _
theorem cmpList_eq_iff_beqList (a b : List Value) : cmpList a b = .eq ↔ beqList a b = true := by
  cases a with
  | nil => cases b <;> simp [cmpList, beqList]
  | cons x xs =>
    cases b with
    | nil => simp [cmpList, beqList]
    | cons y ys =>
      simp only [cmpList, beqList, Bool.and_eq_true]
      rw [← cmp_eq_iff_beq x y, ← cmpList_eq_iff_beqList xs ys]
      cases h : cmp x y <;> simp
end

/-! ### transitivity, by strong induction on the total size of the three values -/

mutual
def size : Value → Nat
  | list l => 1 + sizeList l
  | _ => 1
def sizeList : List Value → Nat
  | [] => 0
  | x :: xs => size x + sizeList xs
end

theorem size_pos (a : Value) : 0 < size a := by
  cases a <;> simp [size] <;> omega

def T (a b c : Value) : Prop := (cmp a b).isLE → (cmp b c).isLE → (cmp a c).isLE
def TL (a b c : List Value) : Prop := (cmpList a b).isLE → (cmpList b c).isLE → (cmpList a c).isLE

theorem isLE_of_cls {a b : Value} (h : (cmp a b).isLE) : cls a ≤ cls b := by
  by_cases hne : cls a = cls b
  · omega
  · rw [cmp_of_cls_ne hne, Nat.isLE_compare] at h; exact h

theorem cmpList_trans_of (n : Nat)
    (h : ∀ x y z : Value, size x + size y + size z < n → T x y z)
    (a b c : List Value) (hs : sizeList a + sizeList b + sizeList c < n) : TL a b c := by
  induction a generalizing b c with
  | nil => intro _ _; cases c <;> simp [cmpList]
  | cons x xs ih =>
    cases b with
    | nil => intro h1; simp [cmpList] at h1
    | cons y ys =>
      cases c with
      | nil => intro _ h2; simp [cmpList] at h2
      | cons z zs =>
        simp only [sizeList] at hs
        have hxyz : T x y z := h x y z (by omega)
        have hzxy : T z x y := h z x y (by omega)
        have hyzx : T y z x := h y z x (by omega)
        have hzyx : T z y x := h z y x (by omega)
        have ihh : TL xs ys zs := ih ys zs (by omega)
        have syx := cmp_swap y x
        have szy := cmp_swap z y
        have szx := cmp_swap z x
        unfold T at hxyz hzxy hyzx hzyx
        unfold TL at ihh ⊢
        simp only [cmpList]
        revert hxyz hzxy hyzx hzyx ihh syx szy szx
        generalize cmp x y = oxy
        generalize cmp y z = oyz
        generalize cmp x z = oxz
        generalize cmp y x = oyx
        generalize cmp z y = ozy
        generalize cmp z x = ozx
        intro hxyz hzxy hyzx hzyx ihh syx szy szx
        subst syx szy szx
        cases oxy <;> cases oyz <;> cases oxz <;> simp_all [Ordering.swap, Ordering.isLE]

theorem cmp_trans_aux : ∀ n : Nat, ∀ a b c : Value, size a + size b + size c < n → T a b c := by
  intro n
  induction n with
  | zero => intro a b c h; omega
  | succ n ih =>
    intro a b c hs h1 h2
    have c1 := isLE_of_cls h1
    have c2 := isLE_of_cls h2
    by_cases hac : cls a = cls c
    · have hab : cls a = cls b := by omega
      have hbc : cls b = cls c := by omega
      cases a <;> cases b <;> simp [cls] at hab <;> cases c <;> simp [cls] at hbc
      all_goals first
        | (simp only [cmp, disc]; decide)
        | (rw [cmp_int (by rfl) (by rfl)] at h1 h2 ⊢; exact int_isLE_trans h1 h2)
        | (simp only [cmp] at h1 h2 ⊢; exact int_isLE_trans h1 h2)
        | (simp only [cmp] at h1 h2 ⊢; exact cmpBytes_trans h1 h2)
        | (simp only [cmp] at h1 h2 ⊢; exact cmpBool_trans h1 h2)
        | (simp only [cmp, size] at h1 h2 hs ⊢
           exact cmpList_trans_of n ih _ _ _ (by omega) h1 h2)
    · rw [cmp_of_cls_ne hac, Nat.isLE_compare]; omega

theorem cmp_isLE_trans {a b c : Value} (h1 : (cmp a b).isLE) (h2 : (cmp b c).isLE) :
    (cmp a c).isLE :=
  cmp_trans_aux _ a b c (Nat.lt_succ_self _) h1 h2

instance : Std.OrientedCmp cmp := ⟨fun {a b} => cmp_swap a b⟩
instance : Std.TransCmp cmp := ⟨fun {_ _ _} h1 h2 => cmp_isLE_trans h1 h2⟩

end TF.Value
