/-
C01 — Query results equal the declarative semantics of the query.

The formal statement of the property is `Spec.rows` (Model/Spec.lean): a denotation of the query
*tree* by structural recursion that knows nothing about Vids, stages, piggy-backs or fold limits.
Every run of the check compares the real engine's rows with `Spec.rows` on every generated query
(requests `spec-exec`; a mismatch is a violation with that query as the failing input) and with
`Interp` (the mirror of `execution.rs`; requests `exec`).

Target theorem (full statement in Props/C01Main.lean, closed fragment by fragment by induction
over the query tree; `toIR` = the model of the frontend, compared with the real frontend's IR query
by query by C11):

    theorem interp_eq_spec (S : SchemaView) (q : Spec.Query) (ir : IRQuery) (D : Data) (args) :
        toIR S q = .ok ir → Hyps3 ⟨S, D, args, edges⟩ q →
        (interpret { Env.ofData D args with useLimits := false } ir).toOption =
          (Spec.rows ⟨D, args, edges⟩ q).toOption

CLOSED: fragments F0 (single vertex) and F1 (plain and @optional edges in arbitrary nesting,
coercions, filters on variables and on tags of the same / earlier vertices incl. tags from missing
optional scopes, edge parameters): `interp_eq_spec_F0`, `interp_eq_spec_F1`,
`interp_ok_iff_spec_ok_F1`, `interp_eq_spec_F1_default_env`, and F2 (+ `@recurse`, built on the stage
lemma `recurse_is_reach` below): `interp_eq_spec_F2`, `interp_ok_iff_spec_ok_F2`,
`interp_eq_spec_F2_default_env`, and F3a (+ `@fold` in arbitrary nesting with count outputs/tags/filters and
the missing-scope / empty-fold defaults) and F3 = the whole query language incl. tags imported into folds at
any depth: `interp_eq_spec` (= `interp_eq_spec_F3`), `interp_ok_iff_spec_ok`; the staging names
`interp_eq_spec_F3a`, `interp_ok_iff_spec_ok_F3a` are kept.  Nothing is open; what remains are the decidable
hypotheses `Hyps3` (Proofs/InterpSpec/HypsDef.lean, Proofs/InterpSpec4/HypsDef3.lean): arguments present and
regex variables compile (F-4), filters of a vertex in selection order = the frontend's grouped order,
parameter completion agrees, recursion dataset convention, height ≤ 64 — conditions on the query tree, the
dataset and the arguments only.  (The former guards "no count-filtered fold under a possibly missing optional
scope" [F-9] and "no duplicate tag imports" [F-10] are gone with the fixes of these defects: the first case is
now covered by the simulation, the second is a theorem about `toIR`, `importsOKC_of_toIR`.)  Every run reports how many generated queries
fall into the proved fragment with the hypotheses `Hyps` satisfied (driver request `hyps-c01`).

Proved so far — the stage lemmas the induction is assembled from, each tying one engine mechanism
of the mirror model to one clause of the property:
 (ii)  `EdgeExpander`: all neighbours; one vertex-less context when the edge is optional and
       missing, or when the scope is already missing;
 (iii) inside a missing scope filters and coercions pass;
 (iv)  `@recurse(depth: d)`: piggy-backed level-by-level expansion + unpacking = pre-order
       depth-first search to depth `d` (every vertex reachable in `0..d` hops, in pre-order), the
       implicit coercion being invisible when it only stops vertices that lack the edge;
 (0)   the whole pipeline is a list homomorphism over its starting vertices (rows depend on the
       context list only).
-/
import TrustfallModel.Proofs.RecDfs
import TrustfallModel.Proofs.InterpHom
import TrustfallModel.Model.Spec
import TrustfallModel.Props.C01Main

namespace TF.C01
open TF TF.Engine

/-! ### (ii) edges expand to all neighbours; `@optional` keeps a vertex-less row -/

/-- An existing vertex with neighbours: exactly one context per neighbour, in adapter order. -/
theorem edge_expands_to_all_neighbours (c : Ctx) (x : VertexId) (n : VertexId) (ns : List VertexId)
    (opt : Bool) (h : c.active = some x) :
    expandOne c (n :: ns) opt = (n :: ns).map fun m => c.splitTo (some m) := by
  simp [expandOne, h]

/-- An existing vertex without neighbours: the row is dropped, unless the edge is `@optional`, in
which case it continues once with no vertex. -/
theorem edge_without_neighbours (c : Ctx) (x : VertexId) (opt : Bool) (h : c.active = some x) :
    expandOne c [] opt = if opt then [c.splitTo none] else [] := by
  cases opt <;> simp [expandOne, h]

/-- Inside a missing scope an edge continues once with no vertex. -/
theorem edge_in_missing_scope (c : Ctx) (opt : Bool) (h : c.active = none) :
    expandOne c [] opt = [c.splitTo none] := by
  simp [expandOne, h]

/-! ### (iii) filters and coercions pass inside a missing scope -/

/-- A unary filter (`is_null`, `is_not_null`) lets a vertex-less context pass. -/
theorem unary_filter_passes_missing_scope (env : Env) (comp : Component) (vid : Vid)
    (o : Filter.UnOp) (l : Left) (r : Option Arg) (c : Ctx) (v : Value)
    (h : c.active = none) :
    applyFilter env comp vid ⟨.un o, l, r⟩ [c.pushValue v] = .ok [c] := by
  simp [applyFilter, filterMapR, Ctx.pushValue, Ctx.popValue, h, bind, R.bind, pure]
  cases c; simp_all

/-- A binary filter against a variable lets a vertex-less context pass (the operator is not even
evaluated), whatever the values. -/
theorem variable_filter_passes_missing_scope (env : Env) (comp : Component) (vid : Vid)
    (o : Filter.BinOp) (l : Left) (n : Name) (t : QTy) (c : Ctx) (v right : Value)
    (h : c.active = none) (harg : env.arg n = .ok right) (hrx : isRegexOp o = false) :
    applyFilter env comp vid ⟨.bin o, l, some (.var n t)⟩ [c.pushValue v] = .ok [c] := by
  simp [applyFilter, filterMapR, Ctx.pushValue, Ctx.popValue, h, harg, hrx, bind, R.bind, pure]
  cases c; simp_all

/-- A coercion keeps exactly the contexts without a vertex and those whose vertex is an instance of
the requested type (table adapter). -/
theorem coercion_keeps_subtype_instances (d : Data) (args) (v : IRVertex) (fromT : Name)
    (hv : v.coercedFrom = some fromT) (ctxs : List Ctx) :
    coerceIfNeeded (Env.ofData d args) v ctxs =
      .ok (ctxs.filter fun c => match c.active with
        | none => true
        | some x => d.isA x v.typeName) := by
  simp only [coerceIfNeeded, hv]
  induction ctxs with
  | nil => rfl
  | cons c cs ih =>
    simp only [filterMapR, ih, List.filter_cons]
    cases hc : c.active with
    | none => simp [Env.ofData, Data.adapter, bind, R.bind, pure, hc]
    | some x =>
      cases hi : d.isA x v.typeName <;>
        simp [Env.ofData, Data.adapter, bind, R.bind, pure, hc, hi]

/-! ### (iv) `@recurse(depth: d)` = every vertex reachable in `0..d` hops, in pre-order -/

/-- The recursive expansion of one context at vertex `x` yields one context per vertex of the gated
depth-first pre-order to depth `k + 1`. -/
theorem recurse_is_preorder_dfs (d : Data) (args) (e : IREdge) (r : Recursive) (fromV toV : IRVertex)
    (c0 : Ctx) (x : VertexId) (k : Nat) (hx : c0.active = some x) (hd : r.depth = k + 1) :
    recFinish (Env.ofData d args) e r fromV toV [c0] =
      .ok ((x :: (d.nbrs x e.name e.params).flatMap
          (dfsG (fun w => d.nbrs w e.name e.params) (fun w => recGate d r.coerceTo (some w)) k)).map
            fun w => c0.splitTo (some w)) :=
  recFinish_table d args e r fromV toV c0 x k hx hd

/-- With the dataset convention that a vertex failing the implicit coercion has no such edge, this
is exactly the declarative `reach`: all vertices within `0..d` hops, pre-order. -/
theorem recurse_is_reach (d : Data) (args) (e : IREdge) (r : Recursive) (fromV toV : IRVertex)
    (c0 : Ctx) (x : VertexId) (k : Nat) (hx : c0.active = some x) (hd : r.depth = k + 1)
    (hconv : ∀ w, recGate d r.coerceTo (some w) = false → d.nbrs w e.name e.params = []) :
    recFinish (Env.ofData d args) e r fromV toV [c0] =
      .ok ((Spec.reach d e.name e.params (k + 1) x).map fun w => c0.splitTo (some w)) := by
  rw [recurse_is_preorder_dfs d args e r fromV toV c0 x k hx hd]
  have hreach : ∀ j v, reachN (fun w => d.nbrs w e.name e.params) j v = Spec.reach d e.name e.params j v := by
    intro j
    induction j with
    | zero => intro v; rfl
    | succ j ih =>
      intro v
      simp only [reachN, Spec.reach]
      congr 1
      induction d.nbrs v e.name e.params with
      | nil => rfl
      | cons a l ihl => simp [ih, ihl]
  congr 2
  simp only [Spec.reach]
  congr 1
  induction d.nbrs x e.name e.params with
  | nil => rfl
  | cons a l ihl =>
    simp only [List.flatMap_cons, ihl]
    rw [dfsG_eq_reachN _ _ hconv, hreach]

/-! ### (0) rows depend on the list of starting vertices only, block by block -/

theorem rows_are_blocks (env : Env) (ir : IRQuery) (xs ys : List VertexId) :
    (interpretFrom env ir (xs ++ ys)).toOption =
      (interpretFrom env ir xs).toOption.bind fun a =>
        (interpretFrom env ir ys).toOption.map fun b => a ++ b :=
  interpretFrom_append env ir xs ys

/-! Non-vacuity: a 3-vertex chain 0 → 1 → 2, recursion to depth 2 from vertex 0. -/
example : Spec.reach
    { vertices := [], adj := [⟨0, "e", [], [1]⟩, ⟨1, "e", [], [2]⟩], starts := [], rx := [], sub := [] }
    "e" [] 2 0 = [0, 1, 2] := by decide

end TF.C01

#print axioms TF.C01.edge_expands_to_all_neighbours
#print axioms TF.C01.edge_without_neighbours
#print axioms TF.C01.edge_in_missing_scope
#print axioms TF.C01.unary_filter_passes_missing_scope
#print axioms TF.C01.variable_filter_passes_missing_scope
#print axioms TF.C01.coercion_keeps_subtype_instances
#print axioms TF.C01.recurse_is_preorder_dfs
#print axioms TF.C01.recurse_is_reach
#print axioms TF.C01.rows_are_blocks
#print axioms TF.C01.interp_eq_spec_F0
#print axioms TF.C01.interp_eq_spec_F1
#print axioms TF.C01.interp_ok_iff_spec_ok_F1
#print axioms TF.C01.interp_eq_spec_F1_default_env
#print axioms TF.C01.interp_eq_spec_F2
#print axioms TF.C01.interp_ok_iff_spec_ok_F2
#print axioms TF.C01.interp_eq_spec_F2_default_env
#print axioms TF.C01.interp_eq_spec
#print axioms TF.C01.interp_ok_iff_spec_ok
#print axioms TF.C01.interp_eq_spec_F3
#print axioms TF.C01.interp_eq_spec_F3a
#print axioms TF.C01.interp_ok_iff_spec_ok_F3a
