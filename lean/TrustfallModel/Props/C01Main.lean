/-
C01 — main theorem, closed fragment by fragment:

    interpret (toIR q)  =  Spec.rows q          (as `R (List Row)`, through `toOption`)

The list-level mirror of the engine's interpreter (`Model/Interp.lean`), run on the IR produced by
the model of the frontend (`Model/Frontend.lean`), computes exactly the rows — same rows, same
order — that the declarative semantics (`Model/Spec.lean`) assigns to the query tree.

Full target — CLOSED (`interp_eq_spec` below), under the decidable hypotheses `Hyps3`:

    theorem interp_eq_spec (S : SchemaView) (q : Spec.Query) (ir : IRQuery) (D : Data) (args) :
        toIR S q = .ok ir → Hyps3 ⟨S, D, args, edges⟩ q →
        (interpret { Env.ofData D args with useLimits := false } ir).toOption =
          (Spec.rows ⟨D, args, edges⟩ q).toOption

Why `toOption`: the interpreter runs stage by stage over the whole context list, the semantics
depth-first per assignment, so when several rows fail (operator panics F-4/F-5) they may report
different *sites*; `toOption` identifies all failures.  The statement still says: one side
succeeds iff the other does, and then with equal row lists (`interp_ok_iff_spec_ok_F1`).

`Hyps` / `Hyps3` (`Proofs/InterpSpec/HypsDef.lean`, `Proofs/InterpSpec4/HypsDef3.lean`; `Bool`,
conditions on the query TREE, the schema, the dataset and the arguments only — nothing is assumed
about the compiled query `ir`; evaluated on every generated request by `Driver/C01Hyps.lean`):
 * the specification's completion of the root / edge parameters selects the same table entries
   of the dataset as the frontend's (`paramsAgreeB`, root `start`);
 * every variable used by a filter has an argument; a regex pattern given as a variable compiles
   (F-4: the engine compiles it while the pipeline is built, even if no row reaches the filter);
 * the filters of each vertex are emitted by the frontend in selection order (`filtersInOrder`:
   false only when a property is selected again after another filtered property — then the engine
   evaluates the filters in a different order than written, which is observable through operator
   panics only);
 * nesting depth ≤ 64 (the fuel of `Spec.rows`);
 * every edge kind lies in the fragment;
 * for a `@fold` (`Hyps3`): every variable of a count filter has an argument (and a regex pattern
   compiles) — nothing else.  Two former guards are GONE, with the engine defects they excluded:
   - F-9 (fixed: `apply_fold_specific_filter` no longer hits `unreachable!` when the fold sits in a
     missing `@optional` scope; it pushes `Null` and the ordinary filter stage lets the context without
     active vertex pass): a fold with a count filter may be evaluated in a missing optional scope; the
     specification applies no count filter there, the interpreter passes the context through every
     post-filter (`applyPostFilters_none`), and the per-filter set-up (argument present, regex compiles
     [F-4], tag operand resolves) succeeds by `varOK` resp. the static certificate;
   - F-10 (fixed: `reference_tag` pushes a tag onto a fold's `imported_tags` once): "no fold of the
     compiled query imports a tag twice" (`importsOKC ir`) is now the THEOREM `importsOKC_of_toIR`
     (`Proofs/InterpSpec4/StaticImports.lean`): imports are duplicate-free as `FieldRef`s
     (`nodup_importsAt`), two tags on the same `(vertex, property)` carry the same type (an invariant of
     the frontend's tag table), no fold imports what an enclosing fold imports, nor its own count;
 * for a `@recurse` edge: the dataset convention `recConvB` (a vertex failing the implicit coercion
   between recursion levels has no such edge: `hconv` of `recurse_is_reach`), and `paramsAgreeRecB`
   (the specification completes the edge parameters once, from the starting vertex' declaration).
-/
import TrustfallModel.Proofs.InterpSpec4.Bridge

namespace TF.C01
open TF TF.Engine TF.Spec TF.Frontend TF.InterpSpec

/-- **F0** — single-vertex queries: properties with outputs, tags and filters (on variables and
same-vertex tags) at the root, coercion of the root; no edges. -/
theorem interp_eq_spec_F0 (S : SchemaView) (q : Query) (ir : IRQuery) (D : Data)
    (args : List (Name × Value)) (edges : List EdgeDecl)
    (h : toIR S q = .ok ir) (hfrag : fragNode q.root = 0) (hh : Hyps ⟨S, D, args, edges⟩ 1 q) :
    (interpret { Env.ofData D args with useLimits := false } ir).toOption =
      (Spec.rows ⟨D, args, edges⟩ q).toOption :=
  interp_eq_spec_core S q ir D args edges false 1 (by decide) h (by omega) hh

/-- **F1** — plain and `@optional` edges in arbitrary nesting, type coercions, filters on
variables and on tags of the same or of earlier vertices (incl. tags defined in a missing optional
scope), edge parameters. -/
theorem interp_eq_spec_F1 (S : SchemaView) (q : Query) (ir : IRQuery) (D : Data)
    (args : List (Name × Value)) (edges : List EdgeDecl)
    (h : toIR S q = .ok ir) (hfrag : fragNode q.root ≤ 1) (hh : Hyps ⟨S, D, args, edges⟩ 1 q) :
    (interpret { Env.ofData D args with useLimits := false } ir).toOption =
      (Spec.rows ⟨D, args, edges⟩ q).toOption :=
  interp_eq_spec_core S q ir D args edges false 1 (by decide) h hfrag hh

/-- The same, spelled out: the engine model yields rows iff the semantics does, and they are the
same rows in the same order. -/
theorem interp_ok_iff_spec_ok_F1 (S : SchemaView) (q : Query) (ir : IRQuery) (D : Data)
    (args : List (Name × Value)) (edges : List EdgeDecl)
    (h : toIR S q = .ok ir) (hfrag : fragNode q.root ≤ 1) (hh : Hyps ⟨S, D, args, edges⟩ 1 q)
    (rows : List Row) :
    interpret { Env.ofData D args with useLimits := false } ir = .ok rows ↔
      Spec.rows ⟨D, args, edges⟩ q = .ok rows := by
  have := interp_eq_spec_F1 S q ir D args edges h hfrag hh
  cases hi : interpret { Env.ofData D args with useLimits := false } ir <;>
    cases hs : Spec.rows ⟨D, args, edges⟩ q <;> simp_all [R.toOption]

/-- In the fragment the fold-count limits are irrelevant (there is no fold): the statement also
holds for the engine's default environment `Env.ofData D args` (limits enabled) — this is the
statement of `Props/C01.lean` verbatim, for the fragment. -/
theorem interp_eq_spec_F1_default_env (S : SchemaView) (q : Query) (ir : IRQuery) (D : Data)
    (args : List (Name × Value)) (edges : List EdgeDecl)
    (h : toIR S q = .ok ir) (hfrag : fragNode q.root ≤ 1) (hh : Hyps ⟨S, D, args, edges⟩ 1 q) :
    (interpret (Env.ofData D args) ir).toOption = (Spec.rows ⟨D, args, edges⟩ q).toOption :=
  interp_eq_spec_core S q ir D args edges true 1 (by decide) h hfrag hh

/-- **F2** — F1 + `@recurse(depth: d)` edges (arbitrarily nested with plain/optional edges,
incl. recursion inside a missing optional scope): the piggy-backed level-by-level expansion with
suspension of non-coercible vertices yields exactly the declarative pre-order `reach` to depth
`d`. -/
theorem interp_eq_spec_F2 (S : SchemaView) (q : Query) (ir : IRQuery) (D : Data)
    (args : List (Name × Value)) (edges : List EdgeDecl)
    (h : toIR S q = .ok ir) (hfrag : fragNode q.root ≤ 2) (hh : Hyps ⟨S, D, args, edges⟩ 2 q) :
    (interpret { Env.ofData D args with useLimits := false } ir).toOption =
      (Spec.rows ⟨D, args, edges⟩ q).toOption :=
  interp_eq_spec_core S q ir D args edges false 2 (by decide) h hfrag hh

theorem interp_ok_iff_spec_ok_F2 (S : SchemaView) (q : Query) (ir : IRQuery) (D : Data)
    (args : List (Name × Value)) (edges : List EdgeDecl)
    (h : toIR S q = .ok ir) (hfrag : fragNode q.root ≤ 2) (hh : Hyps ⟨S, D, args, edges⟩ 2 q)
    (rows : List Row) :
    interpret { Env.ofData D args with useLimits := false } ir = .ok rows ↔
      Spec.rows ⟨D, args, edges⟩ q = .ok rows := by
  have := interp_eq_spec_F2 S q ir D args edges h hfrag hh
  cases hi : interpret { Env.ofData D args with useLimits := false } ir <;>
    cases hs : Spec.rows ⟨D, args, edges⟩ q <;> simp_all [R.toOption]

/-- F2 for the engine's default environment (fold-count limits enabled: no fold, no effect). -/
theorem interp_eq_spec_F2_default_env (S : SchemaView) (q : Query) (ir : IRQuery) (D : Data)
    (args : List (Name × Value)) (edges : List EdgeDecl)
    (h : toIR S q = .ok ir) (hfrag : fragNode q.root ≤ 2) (hh : Hyps ⟨S, D, args, edges⟩ 2 q) :
    (interpret (Env.ofData D args) ir).toOption = (Spec.rows ⟨D, args, edges⟩ q).toOption :=
  interp_eq_spec_core S q ir D args edges true 2 (by decide) h hfrag hh

/-- **F3 = the main theorem** — every edge kind incl. `@fold`: folds in arbitrary nesting (also
inside `@optional` / `@recurse` scopes and inside other folds), outputs inside folds as aligned
lists (nested folds: lists of lists), `_x_count` outputs, count tags and count filters (on
variables, on tags of the enclosing component, on counts of earlier folds, on the fold's own
count), tags of enclosing components used inside folds at any depth (`imported_tags`), the defaults
of a fold that does not exist (missing scope) or has no element, count filters of a fold that does
not exist (they pass: F-9 fixed).  Fold-count limits are disabled (`useLimits := false`: the
reference semantics of C22).  `Hyps3` speaks about the query tree only; what the proof needs about
the compiled query (`importsOKC`, formerly a hypothesis: F-10) is derived from `h`. -/
theorem interp_eq_spec (S : SchemaView) (q : Query) (ir : IRQuery) (D : Data)
    (args : List (Name × Value)) (edges : List EdgeDecl)
    (h : toIR S q = .ok ir) (hh : Hyps3 ⟨S, D, args, edges⟩ q) :
    (interpret { Env.ofData D args with useLimits := false } ir).toOption =
      (Spec.rows ⟨D, args, edges⟩ q).toOption :=
  interp_eq_spec_F3a_core S q ir D args edges false (Or.inl rfl) h hh

theorem interp_ok_iff_spec_ok (S : SchemaView) (q : Query) (ir : IRQuery) (D : Data)
    (args : List (Name × Value)) (edges : List EdgeDecl)
    (h : toIR S q = .ok ir) (hh : Hyps3 ⟨S, D, args, edges⟩ q) (rows : List Row) :
    interpret { Env.ofData D args with useLimits := false } ir = .ok rows ↔
      Spec.rows ⟨D, args, edges⟩ q = .ok rows := by
  have := interp_eq_spec S q ir D args edges h hh
  cases hi : interpret { Env.ofData D args with useLimits := false } ir <;>
    cases hs : Spec.rows ⟨D, args, edges⟩ q <;> simp_all [R.toOption]

/-- The same theorem under its staging names (F3 / F3a: F3a was the stage without imported tags;
`Hyps3` no longer mentions imports at all). -/
theorem interp_eq_spec_F3 (S : SchemaView) (q : Query) (ir : IRQuery) (D : Data)
    (args : List (Name × Value)) (edges : List EdgeDecl)
    (h : toIR S q = .ok ir) (hh : Hyps3 ⟨S, D, args, edges⟩ q) :
    (interpret { Env.ofData D args with useLimits := false } ir).toOption =
      (Spec.rows ⟨D, args, edges⟩ q).toOption :=
  interp_eq_spec S q ir D args edges h hh

theorem interp_eq_spec_F3a (S : SchemaView) (q : Query) (ir : IRQuery) (D : Data)
    (args : List (Name × Value)) (edges : List EdgeDecl)
    (h : toIR S q = .ok ir) (hh : Hyps3 ⟨S, D, args, edges⟩ q) :
    (interpret { Env.ofData D args with useLimits := false } ir).toOption =
      (Spec.rows ⟨D, args, edges⟩ q).toOption :=
  interp_eq_spec S q ir D args edges h hh

theorem interp_ok_iff_spec_ok_F3a (S : SchemaView) (q : Query) (ir : IRQuery) (D : Data)
    (args : List (Name × Value)) (edges : List EdgeDecl)
    (h : toIR S q = .ok ir) (hh : Hyps3 ⟨S, D, args, edges⟩ q) (rows : List Row) :
    interpret { Env.ofData D args with useLimits := false } ir = .ok rows ↔
      Spec.rows ⟨D, args, edges⟩ q = .ok rows :=
  interp_ok_iff_spec_ok S q ir D args edges h hh rows

/-! ### non-vacuity: a concrete world inside the fragment, hypotheses decided by the kernel

Schema: one type `T` with `n : Int` and an edge `e : [T!]!`; data `0 -e-> 1`; query
`{ R { n @output(o1) @tag(t1)  e @optional { n @output(o2) @filter(>, %t1) }  e @recurse(depth: 2) { n @output(o3) } } }`. -/

def exS : SchemaView :=
  { types := [⟨"T", false, [], [("n", ⟨"Int", [true]⟩)], [⟨"e", "T", ⟨"T", [false, false]⟩, []⟩]⟩],
    roots := [⟨"R", "T", ⟨"T", [false, false]⟩, []⟩] }
def exD : Data :=
  { vertices := [⟨0, "T", [("n", .int64 1)]⟩, ⟨1, "T", [("n", .int64 2)]⟩],
    adj := [⟨0, "e", [], [1]⟩, ⟨1, "e", [], []⟩],
    starts := [⟨"R", [], [0, 1]⟩], rx := [], sub := [("T", [])] }
def exQ : Query :=
  ⟨"R", [], .mk none [.prop "n" [.output "o1", .tag "t1"],
    .edge "e" [] .optional (.mk none [.prop "n" [.output "o2", .filter (.bin .greaterThan) (.tag "t1")]]),
    .edge "e" [] (.recurse 2) (.mk none [.prop "n" [.output "o3"]])]⟩

example : (toIR exS exQ).isOk = true := by decide
example : Hyps ⟨exS, exD, [], []⟩ 2 exQ := by decide
example (ir : IRQuery) (h : toIR exS exQ = .ok ir) :
    (interpret (Env.ofData exD []) ir).toOption = (Spec.rows ⟨exD, [], []⟩ exQ).toOption :=
  interp_eq_spec_F2_default_env exS exQ ir exD [] [] h (by decide) (by decide)

/-- A query with a fold: `{ R { n @output(o1) e @fold @transform(count) @output(c) @filter(>=, $v) { n @output(o2) e @fold { n @output(o3) } } } }`. -/
def exQ3 : Query :=
  ⟨"R", [], .mk none [.prop "n" [.output "o1"],
    .edge "e" [] (.fold [.countOutput "c", .countFilter (.bin .greaterThanOrEqual) (.var "v")])
      (.mk none [.prop "n" [.output "o2"],
        .edge "e" [] (.fold []) (.mk none [.prop "n" [.output "o3"]])])]⟩

/-- A fold that imports a tag of the enclosing component:
`{ R { n @tag(t) @output(o1) e @fold { n @output(o2) @filter(>=, %t) } } }`. -/
def exQ4 : Query :=
  ⟨"R", [], .mk none [.prop "n" [.tag "t", .output "o1"],
    .edge "e" [] (.fold [])
      (.mk none [.prop "n" [.output "o2", .filter (.bin .greaterThanOrEqual) (.tag "t")]])]⟩

example : Hyps3 ⟨exS, exD, [], []⟩ exQ4 := by decide
/-- … and the fold of `exQ4` does import a tag; the imports are in order (here decided, in general
`importsOKC_of_toIR`). -/
example : (match toIR exS exQ4 with
    | .ok ir => importsOKC [] ir.rootComponent &&
        !(match ir.rootComponent.folds with | f :: _ => f.imports.isEmpty | [] => true)
    | .error _ => false) = true := by decide

example : (toIR exS exQ3).isOk = true := by decide
example : Hyps3 ⟨exS, exD, [("v", .int64 0)], []⟩ exQ3 := by decide

/-- Regression for the F-9 fix — a count-filtered fold under an `@optional` edge (formerly excluded by
the F-9 guard of `Hyps3`):
`{ R { n @output(o1) e @optional { n @output(o2) e @fold @transform(count) @output(c) @filter(>=, $v) { n @output(o3) } } } }`.
For the start vertex `1` the optional edge is missing, so the fold "does not exist": the real engine
used to panic there (`unreachable!`), the specification lets the count filter pass. -/
def exQ5 : Query :=
  ⟨"R", [], .mk none [.prop "n" [.output "o1"],
    .edge "e" [] .optional (.mk none [.prop "n" [.output "o2"],
      .edge "e" [] (.fold [.countOutput "c", .countFilter (.bin .greaterThanOrEqual) (.var "v")])
        (.mk none [.prop "n" [.output "o3"]])])]⟩

example : (toIR exS exQ5).isOk = true := by decide
example : Hyps3 ⟨exS, exD, [("v", .int64 1)], []⟩ exQ5 := by decide
example (ir : IRQuery) (h : toIR exS exQ5 = .ok ir) :
    (interpret { Env.ofData exD [("v", .int64 1)] with useLimits := false } ir).toOption =
      (Spec.rows ⟨exD, [("v", .int64 1)], []⟩ exQ5).toOption :=
  interp_eq_spec exS exQ5 ir exD [("v", .int64 1)] [] h (by decide)
/-- The hypotheses still exclude what they must: without the argument `v` the engine fails as soon as
the pipeline is built (`query_arguments[variable]`), whereas the specification looks the variable up
only when a row reaches the count filter with an existing fold. -/
example : ¬ Hyps3 ⟨exS, exD, [], []⟩ exQ5 := by decide

end TF.C01

#print axioms TF.C01.interp_eq_spec_F0
#print axioms TF.C01.interp_eq_spec_F1
#print axioms TF.C01.interp_ok_iff_spec_ok_F1
#print axioms TF.C01.interp_eq_spec_F1_default_env
#print axioms TF.C01.interp_eq_spec_F2
#print axioms TF.C01.interp_ok_iff_spec_ok_F2
#print axioms TF.C01.interp_eq_spec_F2_default_env
#print axioms TF.C01.interp_eq_spec
#print axioms TF.C01.interp_ok_iff_spec_ok
#print axioms TF.C01.interp_eq_spec_F3
#print axioms TF.C01.interp_eq_spec_F3a
#print axioms TF.C01.interp_ok_iff_spec_ok_F3a
