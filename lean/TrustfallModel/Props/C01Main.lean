/-
C01 — main theorem, closed fragment by fragment:

    interpret (toIR q)  =  Spec.rows q          (as `R (List Row)`, through `toOption`)

The list-level mirror of the engine's interpreter (`Model/Interp.lean`), run on the IR produced by
the model of the frontend (`Model/Frontend.lean`), computes exactly the rows — same rows, same
order — that the declarative semantics (`Model/Spec.lean`) assigns to the query tree.

Full target — CLOSED (`interp_eq_spec` below), under the decidable hypotheses `Hyps3`:

    theorem interp_eq_spec (S : SchemaView) (q : Spec.Query) (ir : IRQuery) (D : Data) (args) :
        toIR S q = .ok ir → Hyps3 ⟨S, D, args, edges⟩ q ir →
        (interpret { Env.ofData D args with useLimits := false } ir).toOption =
          (Spec.rows ⟨D, args, edges⟩ q).toOption

Why `toOption`: the interpreter runs stage by stage over the whole context list, the semantics
depth-first per assignment, so when several rows fail (operator panics F-4/F-5) they may report
different *sites*; `toOption` identifies all failures.  The statement still says: one side
succeeds iff the other does, and then with equal row lists (`interp_ok_iff_spec_ok_F1`).

`Hyps` / `Hyps3` (`Proofs/InterpSpec/HypsDef.lean`, `Proofs/InterpSpec4/HypsDef3.lean`; `Bool`,
evaluated on every generated request by `Driver/C01Hyps.lean`):
 * the specification's completion of the root / edge parameters selects the same table entries
   of the dataset as the frontend's (`paramsAgreeB`, root `start`);
 * every variable used by a filter has an argument; a regex pattern given as a variable compiles
   (F-4: the engine compiles it while the pipeline is built, even if no row reaches the filter);
 * the filters of each vertex are emitted by the frontend in selection order (`filtersInOrder`:
   false only when a property is selected again after another filtered property — then the engine
   evaluates the filters in a different order than written, which is observable through operator
   panics only);
 * nesting depth ≤ 64 (the fuel of `Spec.rows`);
 * every edge kind lies in the fragment;
 * for a `@fold` (`Hyps3`): a fold with a count filter is never evaluated in a missing optional scope
   (F-9 guard); every variable of a count filter has an argument; no fold of the compiled query
   imports the same tag twice (`importsOKC ir`, the F-10 guard: `imported_tags.remove(..).unwrap()`
   panics on the second removal);
 * for a `@recurse` edge: the dataset convention `recConvB` (a vertex failing the implicit coercion
   between recursion levels has no such edge: `hconv` of `recurse_is_reach`), and `paramsAgreeRecB`
   (the specification completes the edge parameters once, from the starting vertex' declaration).
-/
import TrustfallModel.Proofs.InterpSpec4.Bridge

namespace TF.C01
open TF TF.Engine TF.Spec TF.Frontend TF.InterpSpec

/-- **F0** — single-vertex queries: properties with outputs, tags and filters (on variables and
same-vertex tags) at the root, coercion of the root; no edges. -/
theorem interp_eq_spec_F0 (S : SchemaView) (q : Query) (ir : IRQuery) (D : Data)
    (args : List (Name × Value)) (edges : List EdgeDecl)
    (h : toIR S q = .ok ir) (hfrag : fragNode q.root = 0) (hh : Hyps ⟨S, D, args, edges⟩ 1 q) :
    (interpret { Env.ofData D args with useLimits := false } ir).toOption =
      (Spec.rows ⟨D, args, edges⟩ q).toOption :=
  interp_eq_spec_core S q ir D args edges false 1 (by decide) h (by omega) hh

/-- **F1** — plain and `@optional` edges in arbitrary nesting, type coercions, filters on
variables and on tags of the same or of earlier vertices (incl. tags defined in a missing optional
scope), edge parameters. -/
theorem interp_eq_spec_F1 (S : SchemaView) (q : Query) (ir : IRQuery) (D : Data)
    (args : List (Name × Value)) (edges : List EdgeDecl)
    (h : toIR S q = .ok ir) (hfrag : fragNode q.root ≤ 1) (hh : Hyps ⟨S, D, args, edges⟩ 1 q) :
    (interpret { Env.ofData D args with useLimits := false } ir).toOption =
      (Spec.rows ⟨D, args, edges⟩ q).toOption :=
  interp_eq_spec_core S q ir D args edges false 1 (by decide) h hfrag hh

/-- The same, spelled out: the engine model yields rows iff the semantics does, and they are the
same rows in the same order. -/
theorem interp_ok_iff_spec_ok_F1 (S : SchemaView) (q : Query) (ir : IRQuery) (D : Data)
    (args : List (Name × Value)) (edges : List EdgeDecl)
    (h : toIR S q = .ok ir) (hfrag : fragNode q.root ≤ 1) (hh : Hyps ⟨S, D, args, edges⟩ 1 q)
    (rows : List Row) :
    interpret { Env.ofData D args with useLimits := false } ir = .ok rows ↔
      Spec.rows ⟨D, args, edges⟩ q = .ok rows := by
  have := interp_eq_spec_F1 S q ir D args edges h hfrag hh
  cases hi : interpret { Env.ofData D args with useLimits := false } ir <;>
    cases hs : Spec.rows ⟨D, args, edges⟩ q <;> simp_all [R.toOption]

/-- In the fragment the fold-count limits are irrelevant (there is no fold): the statement also
holds for the engine's default environment `Env.ofData D args` (limits enabled) — this is the
statement of `Props/C01.lean` verbatim, for the fragment. -/
theorem interp_eq_spec_F1_default_env (S : SchemaView) (q : Query) (ir : IRQuery) (D : Data)
    (args : List (Name × Value)) (edges : List EdgeDecl)
    (h : toIR S q = .ok ir) (hfrag : fragNode q.root ≤ 1) (hh : Hyps ⟨S, D, args, edges⟩ 1 q) :
    (interpret (Env.ofData D args) ir).toOption = (Spec.rows ⟨D, args, edges⟩ q).toOption :=
  interp_eq_spec_core S q ir D args edges true 1 (by decide) h hfrag hh

/-- **F2** — F1 + `@recurse(depth: d)` edges (arbitrarily nested with plain/optional edges,
incl. recursion inside a missing optional scope): the piggy-backed level-by-level expansion with
suspension of non-coercible vertices yields exactly the declarative pre-order `reach` to depth
`d`. -/
theorem interp_eq_spec_F2 (S : SchemaView) (q : Query) (ir : IRQuery) (D : Data)
    (args : List (Name × Value)) (edges : List EdgeDecl)
    (h : toIR S q = .ok ir) (hfrag : fragNode q.root ≤ 2) (hh : Hyps ⟨S, D, args, edges⟩ 2 q) :
    (interpret { Env.ofData D args with useLimits := false } ir).toOption =
      (Spec.rows ⟨D, args, edges⟩ q).toOption :=
  interp_eq_spec_core S q ir D args edges false 2 (by decide) h hfrag hh

theorem interp_ok_iff_spec_ok_F2 (S : SchemaView) (q : Query) (ir : IRQuery) (D : Data)
    (args : List (Name × Value)) (edges : List EdgeDecl)
    (h : toIR S q = .ok ir) (hfrag : fragNode q.root ≤ 2) (hh : Hyps ⟨S, D, args, edges⟩ 2 q)
    (rows : List Row) :
    interpret { Env.ofData D args with useLimits := false } ir = .ok rows ↔
      Spec.rows ⟨D, args, edges⟩ q = .ok rows := by
  have := interp_eq_spec_F2 S q ir D args edges h hfrag hh
  cases hi : interpret { Env.ofData D args with useLimits := false } ir <;>
    cases hs : Spec.rows ⟨D, args, edges⟩ q <;> simp_all [R.toOption]

/-- F2 for the engine's default environment (fold-count limits enabled: no fold, no effect). -/
theorem interp_eq_spec_F2_default_env (S : SchemaView) (q : Query) (ir : IRQuery) (D : Data)
    (args : List (Name × Value)) (edges : List EdgeDecl)
    (h : toIR S q = .ok ir) (hfrag : fragNode q.root ≤ 2) (hh : Hyps ⟨S, D, args, edges⟩ 2 q) :
    (interpret (Env.ofData D args) ir).toOption = (Spec.rows ⟨D, args, edges⟩ q).toOption :=
  interp_eq_spec_core S q ir D args edges true 2 (by decide) h hfrag hh

/-- **F3 = the main theorem** — every edge kind incl. `@fold`: folds in arbitrary nesting (also
inside `@optional` / `@recurse` scopes and inside other folds), outputs inside folds as aligned
lists (nested folds: lists of lists), `_x_count` outputs, count tags and count filters (on
variables, on tags of the enclosing component, on counts of earlier folds, on the fold's own
count), tags of enclosing components used inside folds at any depth (`imported_tags`), the defaults
of a fold that does not exist (missing scope) or has no element.  Fold-count limits are disabled
(`useLimits := false`: the reference semantics of C22). -/
theorem interp_eq_spec (S : SchemaView) (q : Query) (ir : IRQuery) (D : Data)
    (args : List (Name × Value)) (edges : List EdgeDecl)
    (h : toIR S q = .ok ir) (hh : Hyps3 ⟨S, D, args, edges⟩ q ir) :
    (interpret { Env.ofData D args with useLimits := false } ir).toOption =
      (Spec.rows ⟨D, args, edges⟩ q).toOption :=
  interp_eq_spec_F3a_core S q ir D args edges false (Or.inl rfl) h hh

theorem interp_ok_iff_spec_ok (S : SchemaView) (q : Query) (ir : IRQuery) (D : Data)
    (args : List (Name × Value)) (edges : List EdgeDecl)
    (h : toIR S q = .ok ir) (hh : Hyps3 ⟨S, D, args, edges⟩ q ir) (rows : List Row) :
    interpret { Env.ofData D args with useLimits := false } ir = .ok rows ↔
      Spec.rows ⟨D, args, edges⟩ q = .ok rows := by
  have := interp_eq_spec S q ir D args edges h hh
  cases hi : interpret { Env.ofData D args with useLimits := false } ir <;>
    cases hs : Spec.rows ⟨D, args, edges⟩ q <;> simp_all [R.toOption]

/-- The same theorem under its staging names (F3 / F3a: F3a was the stage without imported tags;
the hypothesis `Hyps3` now only excludes DUPLICATE imports). -/
theorem interp_eq_spec_F3 (S : SchemaView) (q : Query) (ir : IRQuery) (D : Data)
    (args : List (Name × Value)) (edges : List EdgeDecl)
    (h : toIR S q = .ok ir) (hh : Hyps3 ⟨S, D, args, edges⟩ q ir) :
    (interpret { Env.ofData D args with useLimits := false } ir).toOption =
      (Spec.rows ⟨D, args, edges⟩ q).toOption :=
  interp_eq_spec S q ir D args edges h hh

theorem interp_eq_spec_F3a (S : SchemaView) (q : Query) (ir : IRQuery) (D : Data)
    (args : List (Name × Value)) (edges : List EdgeDecl)
    (h : toIR S q = .ok ir) (hh : Hyps3 ⟨S, D, args, edges⟩ q ir) :
    (interpret { Env.ofData D args with useLimits := false } ir).toOption =
      (Spec.rows ⟨D, args, edges⟩ q).toOption :=
  interp_eq_spec S q ir D args edges h hh

theorem interp_ok_iff_spec_ok_F3a (S : SchemaView) (q : Query) (ir : IRQuery) (D : Data)
    (args : List (Name × Value)) (edges : List EdgeDecl)
    (h : toIR S q = .ok ir) (hh : Hyps3 ⟨S, D, args, edges⟩ q ir) (rows : List Row) :
    interpret { Env.ofData D args with useLimits := false } ir = .ok rows ↔
      Spec.rows ⟨D, args, edges⟩ q = .ok rows :=
  interp_ok_iff_spec_ok S q ir D args edges h hh rows

/-! ### non-vacuity: a concrete world inside the fragment, hypotheses decided by the kernel

Schema: one type `T` with `n : Int` and an edge `e : [T!]!`; data `0 -e-> 1`; query
`{ R { n @output(o1) @tag(t1)  e @optional { n @output(o2) @filter(>, %t1) }  e @recurse(depth: 2) { n @output(o3) } } }`. -/

def exS : SchemaView :=
  { types := [⟨"T", false, [], [("n", ⟨"Int", [true]⟩)], [⟨"e", "T", ⟨"T", [false, false]⟩, []⟩]⟩],
    roots := [⟨"R", "T", ⟨"T", [false, false]⟩, []⟩] }
def exD : Data :=
  { vertices := [⟨0, "T", [("n", .int64 1)]⟩, ⟨1, "T", [("n", .int64 2)]⟩],
    adj := [⟨0, "e", [], [1]⟩, ⟨1, "e", [], []⟩],
    starts := [⟨"R", [], [0, 1]⟩], rx := [], sub := [("T", [])] }
def exQ : Query :=
  ⟨"R", [], .mk none [.prop "n" [.output "o1", .tag "t1"],
    .edge "e" [] .optional (.mk none [.prop "n" [.output "o2", .filter (.bin .greaterThan) (.tag "t1")]]),
    .edge "e" [] (.recurse 2) (.mk none [.prop "n" [.output "o3"]])]⟩

example : (toIR exS exQ).isOk = true := by decide
example : Hyps ⟨exS, exD, [], []⟩ 2 exQ := by decide
example (ir : IRQuery) (h : toIR exS exQ = .ok ir) :
    (interpret (Env.ofData exD []) ir).toOption = (Spec.rows ⟨exD, [], []⟩ exQ).toOption :=
  interp_eq_spec_F2_default_env exS exQ ir exD [] [] h (by decide) (by decide)

/-- A query with a fold: `{ R { n @output(o1) e @fold @transform(count) @output(c) @filter(>=, $v) { n @output(o2) e @fold { n @output(o3) } } } }`. -/
def exQ3 : Query :=
  ⟨"R", [], .mk none [.prop "n" [.output "o1"],
    .edge "e" [] (.fold [.countOutput "c", .countFilter (.bin .greaterThanOrEqual) (.var "v")])
      (.mk none [.prop "n" [.output "o2"],
        .edge "e" [] (.fold []) (.mk none [.prop "n" [.output "o3"]])])]⟩

/-- A fold that imports a tag of the enclosing component:
`{ R { n @tag(t) @output(o1) e @fold { n @output(o2) @filter(>=, %t) } } }`. -/
def exQ4 : Query :=
  ⟨"R", [], .mk none [.prop "n" [.tag "t", .output "o1"],
    .edge "e" [] (.fold [])
      (.mk none [.prop "n" [.output "o2", .filter (.bin .greaterThanOrEqual) (.tag "t")]])]⟩

example : (match toIR exS exQ4 with
    | .ok ir => decide (Hyps3 ⟨exS, exD, [], []⟩ exQ4 ir) &&
        !(match ir.rootComponent.folds with | f :: _ => f.imports.isEmpty | [] => true)
    | .error _ => false) = true := by decide

example : (match toIR exS exQ3 with
    | .ok ir => decide (Hyps3 ⟨exS, exD, [("v", .int64 0)], []⟩ exQ3 ir)
    | .error _ => false) = true := by decide

end TF.C01

#print axioms TF.C01.interp_eq_spec_F0
#print axioms TF.C01.interp_eq_spec_F1
#print axioms TF.C01.interp_ok_iff_spec_ok_F1
#print axioms TF.C01.interp_eq_spec_F1_default_env
#print axioms TF.C01.interp_eq_spec_F2
#print axioms TF.C01.interp_ok_iff_spec_ok_F2
#print axioms TF.C01.interp_eq_spec_F2_default_env
#print axioms TF.C01.interp_eq_spec
#print axioms TF.C01.interp_ok_iff_spec_ok
#print axioms TF.C01.interp_eq_spec_F3
#print axioms TF.C01.interp_eq_spec_F3a
#print axioms TF.C01.interp_ok_iff_spec_ok_F3a
