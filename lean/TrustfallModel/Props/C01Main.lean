/-
C01 — main theorem, closed fragment by fragment:

    interpret (toIR q)  =  Spec.rows q          (as `R (List Row)`, through `toOption`)

The list-level mirror of the engine's interpreter (`Model/Interp.lean`), run on the IR produced by
the model of the frontend (`Model/Frontend.lean`), computes exactly the rows — same rows, same
order — that the declarative semantics (`Model/Spec.lean`) assigns to the query tree.

Full target (fragments F2 `@recurse`, F3 `@fold` still open):

    theorem interp_eq_spec (S : SchemaView) (q : Spec.Query) (ir : IRQuery) (D : Data) (args) :
        toIR S q = .ok ir → Hyps ⟨S, D, args, edges⟩ 3 q →
        (interpret { Env.ofData D args with useLimits := false } ir).toOption =
          (Spec.rows ⟨D, args, edges⟩ q).toOption

Why `toOption`: the interpreter runs stage by stage over the whole context list, the semantics
depth-first per assignment, so when several rows fail (operator panics F-4/F-5) they may report
different *sites*; `toOption` identifies all failures.  The statement still says: one side
succeeds iff the other does, and then with equal row lists (`interp_ok_iff_spec_ok_F1`).

`Hyps` (`Proofs/InterpSpec/HypsDef.lean`; `Bool`, evaluated on every generated request by
`Driver/C01Hyps.lean`):
 * the specification's completion of the root / edge parameters selects the same table entries
   of the dataset as the frontend's (`paramsAgreeB`, root `start`);
 * every variable used by a filter has an argument; a regex pattern given as a variable compiles
   (F-4: the engine compiles it while the pipeline is built, even if no row reaches the filter);
 * the filters of each vertex are emitted by the frontend in selection order (`filtersInOrder`:
   false only when a property is selected again after another filtered property — then the engine
   evaluates the filters in a different order than written, which is observable through operator
   panics only);
 * nesting depth ≤ 64 (the fuel of `Spec.rows`);
 * every edge kind lies in the fragment.
-/
import TrustfallModel.Proofs.InterpSpec.Main

namespace TF.C01
open TF TF.Engine TF.Spec TF.Frontend TF.InterpSpec

/-- **F0** — single-vertex queries: properties with outputs, tags and filters (on variables and
same-vertex tags) at the root, coercion of the root; no edges. -/
theorem interp_eq_spec_F0 (S : SchemaView) (q : Query) (ir : IRQuery) (D : Data)
    (args : List (Name × Value)) (edges : List EdgeDecl)
    (h : toIR S q = .ok ir) (hfrag : fragNode q.root = 0) (hh : Hyps ⟨S, D, args, edges⟩ 1 q) :
    (interpret { Env.ofData D args with useLimits := false } ir).toOption =
      (Spec.rows ⟨D, args, edges⟩ q).toOption :=
  interp_eq_spec_F1_core S q ir D args edges false h (by omega) hh

/-- **F1** — plain and `@optional` edges in arbitrary nesting, type coercions, filters on
variables and on tags of the same or of earlier vertices (incl. tags defined in a missing optional
scope), edge parameters. -/
theorem interp_eq_spec_F1 (S : SchemaView) (q : Query) (ir : IRQuery) (D : Data)
    (args : List (Name × Value)) (edges : List EdgeDecl)
    (h : toIR S q = .ok ir) (hfrag : fragNode q.root ≤ 1) (hh : Hyps ⟨S, D, args, edges⟩ 1 q) :
    (interpret { Env.ofData D args with useLimits := false } ir).toOption =
      (Spec.rows ⟨D, args, edges⟩ q).toOption :=
  interp_eq_spec_F1_core S q ir D args edges false h hfrag hh

/-- The same, spelled out: the engine model yields rows iff the semantics does, and they are the
same rows in the same order. -/
theorem interp_ok_iff_spec_ok_F1 (S : SchemaView) (q : Query) (ir : IRQuery) (D : Data)
    (args : List (Name × Value)) (edges : List EdgeDecl)
    (h : toIR S q = .ok ir) (hfrag : fragNode q.root ≤ 1) (hh : Hyps ⟨S, D, args, edges⟩ 1 q)
    (rows : List Row) :
    interpret { Env.ofData D args with useLimits := false } ir = .ok rows ↔
      Spec.rows ⟨D, args, edges⟩ q = .ok rows := by
  have := interp_eq_spec_F1 S q ir D args edges h hfrag hh
  cases hi : interpret { Env.ofData D args with useLimits := false } ir <;>
    cases hs : Spec.rows ⟨D, args, edges⟩ q <;> simp_all [R.toOption]

/-- In the fragment the fold-count limits are irrelevant (there is no fold): the statement also
holds for the engine's default environment `Env.ofData D args` (limits enabled) — this is the
statement of `Props/C01.lean` verbatim, for the fragment. -/
theorem interp_eq_spec_F1_default_env (S : SchemaView) (q : Query) (ir : IRQuery) (D : Data)
    (args : List (Name × Value)) (edges : List EdgeDecl)
    (h : toIR S q = .ok ir) (hfrag : fragNode q.root ≤ 1) (hh : Hyps ⟨S, D, args, edges⟩ 1 q) :
    (interpret (Env.ofData D args) ir).toOption = (Spec.rows ⟨D, args, edges⟩ q).toOption :=
  interp_eq_spec_F1_core S q ir D args edges true h hfrag hh

end TF.C01

#print axioms TF.C01.interp_eq_spec_F0
#print axioms TF.C01.interp_eq_spec_F1
#print axioms TF.C01.interp_ok_iff_spec_ok_F1
#print axioms TF.C01.interp_eq_spec_F1_default_env
