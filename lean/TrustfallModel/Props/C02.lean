/-
C02 — Results do not depend on how adapters batch or pre-fetch their inputs.

"For any query and dataset, the sequence of result rows is identical no matter how eagerly each
adapter resolver pulls contexts from its input iterator or buffers its outputs, as long as it
preserves context order.  The engine must neither crash nor change results when an adapter reads
ahead."

Two layers, as for C03.

(1) **No crash** — operational, on the carrier machine (`Model/Carrier.lean`): the only state the
engine shares between the construction of the pipeline and the lazily executed closures of earlier
stages is the `QueryCarrier` (`Option<InterpretedQuery>`, `take().expect("query was not returned")`
/ `= Some(..)` around every adapter call).  The adversary is every order-preserving adapter: inside
every adapter call it may pull its input any number of times, i.e. activate the pull-time closures
of the earlier stages in any order, any number of times, at any fold-nesting depth (an explicit
schedule, quantified universally).  `carrier_safe`: if every closure owns a clone of the carrier,
no schedule leads to `take()` on `None`, nor to a closure capturing an empty carrier;
`carrier_safe_ir`: that is the case for the plan `execution.rs` builds for *every* IR query;
`carrier_total`: with enough fuel the run ends `ok`.  Non-vacuity: `pre205_unsafe` — the same
machine, the plan of the query of `repro_issue_205`, with the fold closures working on the
pipeline's own cell (the wiring issue #205 was about): an eager pull inside `construct_outputs`
hits `None`.

(2) **Same rows** — extensional, on the list-level interpreter (`Model/Interp.lean`): every stage
is a list homomorphism (`Proofs/InterpHom.lean`), the rows are a function of the context *list*
only; `chunk_flatten`: the re-batching wrapper (`VariableChunkIterator`) is the identity on
sequences for every schedule; `rows_independent_of_batching`: feeding any stage batch by batch, in
the batches of any schedule, and concatenating gives exactly the result of feeding it the whole
list — in particular two schedules cannot be told apart.

Not exhibited by the model (stated in the evidence): Rust closure capture and borrow behaviour;
the correspondence plan ↔ code is by reading (bracket inventory in `Model/Carrier.lean`), by the
call-log conformance checks of the harness (`plan` requests: Rust re-derivation of the plan from the
real `IRQuery` ≡ `planOf`, and the lazy call log conforms to it; `carrier-trace` requests: the nested
call log of a *batched* real run parses as an abstract schedule which the machine serves activation
for activation) and by the batching oracle on the real engine (`batch-exec` requests).
-/
import TrustfallModel.Proofs.Carrier
import TrustfallModel.Proofs.InterpHom

namespace TF.C02
open TF TF.Engine TF.Carrier

/-! ### (1) the carrier discipline under re-entrant pulls -/

/-- No schedule — whatever the adapters pull, whenever, at whatever nesting depth — makes a plan
whose closures all own their clone hit `expect("query was not returned")`, and no closure ever
captures an empty carrier. -/
theorem carrier_safe (p : Plan) (h : p.allOwn = true) (sched : Schedule) (fuel : Nat) :
    (∀ s, run p sched fuel ≠ .takeOnNone s) ∧ run p sched fuel ≠ .cloneOfNone := by
  rcases run_safe p h sched fuel with h | h <;> simp [h]

/-- … and that covers the plan of every IR query (`planOf` mirrors `interpret_ir`,
`compute_component`, `compute_fold`, `expand_edge`, `apply_filter`, `construct_outputs`). -/
theorem carrier_safe_ir (ir : IRQuery) (sched : Schedule) (fuel : Nat) :
    (∀ s, run (planOf ir) sched fuel ≠ .takeOnNone s) ∧ run (planOf ir) sched fuel ≠ .cloneOfNone :=
  carrier_safe (planOf ir) (planOf_allOwn ir) sched fuel

/-- The machine is total: with `fuelFor` fuel (linear in plan size and schedule length) the run of
every query under every schedule ends `ok` — all pulls served, all cells full again. -/
theorem carrier_total (ir : IRQuery) (sched : Schedule) (fuel : Nat)
    (h : fuelFor (planOf ir) sched ≤ fuel) : run (planOf ir) sched fuel = .ok := by
  rcases run_safe (planOf ir) (planOf_allOwn ir) sched fuel with h1 | h1
  · exact h1
  · exact absurd h1 (fuel_adequate _ sched fuel h)

/-- The query of `repro_issue_205` (`outputs_both_inside_and_outside_fold`):
`{ Number(min: 1, max: 3) { value @output  multiple(max: 3) @fold { multiple: value @output } } }`. -/
def ir205 : IRQuery :=
  ⟨"Number", [("max", .int64 3), ("min", .int64 1)], [],
    .mk 1 [⟨1, "Number", none, []⟩] []
      [.mk 1 1 2 "multiple" [("max", .int64 3)]
        (.mk 2 [⟨2, "Composite", none, []⟩] [] [] [⟨"multiple", 2, "value", ⟨"Int", [true]⟩⟩]) [] [] []]
      [⟨"value", 1, "value", ⟨"Int", [true]⟩⟩]⟩

/-- Non-vacuity (issue #205): with the fold closures wired to the pipeline's own cell, the schedule
"nothing during the fold's `resolve_neighbors`; then, inside `construct_outputs`' bracket, the
output resolver pulls one context through the fold's `final_iterator` closure" takes from `None` —
at the `foldOutput` bracket, exactly where the pre-fix code panicked. -/
theorem pre205_unsafe : ∃ sched, run (planPre205 ir205) sched 64 = .takeOnNone .foldOutput :=
  ⟨[9, 1], by decide⟩

/-- The fixed wiring survives that schedule (and, by `carrier_safe_ir`, every other one). -/
example : run (planOf ir205) [9, 1] 64 = .ok := by decide
example : run (planOf ir205) [9, 0, 9, 1, 9, 1, 0, 1, 1] 64 = .ok := by decide
/-- the machine can fail elsewhere too: a shared `folded_iterator` closure of a fold with a filter
inside fails at the inner `localField` bracket -/
example : run ⟨[.call .foldNeighbors [1], .closure false [.call .localField [2]],
    .call .constructOutputs [1]]⟩ [9, 0] 64 = .takeOnNone .localField := by decide
/-- `cloneOfNone` is reachable: a shared closure activated inside a bracket whose body clones -/
example : run ⟨[.closure false [.closure true []], .call .edgeNeighbors [1]]⟩ [0] 64 = .cloneOfNone := by
  decide
/-- and so is `outOfFuel` -/
example : run (planOf ir205) [9, 1] 3 = .outOfFuel := by decide
example : (planOf ir205).allOwn = true ∧ (planPre205 ir205).allOwn = false := by decide
example : fuelFor (planOf ir205) [9, 1] ≤ 64 := by decide

/-! ### (2) rows are a function of the context list -/

/-- The re-batching wrapper is order preserving: concatenating the batches gives the input back,
for every schedule of batch sizes. -/
theorem chunk_flatten {α : Type} (sched : Schedule) (xs : List α) : (chunk sched xs).flatten = xs :=
  Carrier.chunk_flatten sched xs

/-- The repo's `VariableChunkIterator` is the instance with sizes `1..4` read from the 2-bit digits of
a `u64` (so it always makes progress; `u64::MAX` = chunks of 4, `0` = chunks of 1). -/
theorem word_chunks (w : Nat) (k : Nat) (xs : List α) :
    (chunk (wordSizes w k) xs).flatten = xs ∧ ∀ i, 1 ≤ wordSize w i ∧ wordSize w i ≤ 4 :=
  ⟨Carrier.chunk_flatten _ xs, wordSize_range w⟩

/-- Run a stage batch by batch and concatenate (a failure anywhere is a failure). -/
def batchwise {α β : Type} (S : List α → R (List β)) : List (List α) → Option (List β)
  | [] => (S []).toOption
  | b :: bs => (S b).toOption.bind fun r => (batchwise S bs).map fun rs => r ++ rs

theorem batchwise_eq {α β : Type} {S : List α → R (List β)} (hS : Hom S) (bs : List (List α)) :
    batchwise S bs = (S bs.flatten).toOption := by
  induction bs with
  | nil => rfl
  | cons b bs ih => simp only [batchwise, List.flatten_cons, hS b bs.flatten, ih]

/-- **Independence from batching, extensionally.**  Whatever batches a schedule cuts the starting
vertices into, computing the rows batch by batch and concatenating gives the rows of the unbatched
run (and fails exactly when it fails). -/
theorem rows_independent_of_batching (env : Env) (ir : IRQuery) (sched : Schedule)
    (starts : List VertexId) :
    batchwise (interpretFrom env ir) (chunk sched starts) = (interpretFrom env ir starts).toOption := by
  have h : Hom (fun (s : List VertexId) => interpretFrom env ir s) :=
    fun xs ys => interpretFrom_append env ir xs ys
  rw [batchwise_eq h, chunk_flatten]

/-- The same for the contexts entering *any* component pipeline — the root's or a fold's, at any
depth — hence for every adapter call inside it (each stage is a `Hom`: `expandEdge_hom`,
`computeFold_hom`, `applyFilter_hom`, `enterVertex_hom`, … in `Proofs/InterpHom.lean`). -/
theorem component_independent_of_batching (env : Env) (fuel : Nat) (comp : Component)
    (sched : Schedule) (ctxs : List Ctx) :
    batchwise (computeComponent env fuel comp) (chunk sched ctxs) =
      (computeComponent env fuel comp ctxs).toOption := by
  rw [batchwise_eq (computeComponent_hom env fuel comp), chunk_flatten]

/-- Two schedules cannot be told apart. -/
theorem sched_irrelevant (env : Env) (ir : IRQuery) (s₁ s₂ : Schedule) (starts : List VertexId) :
    batchwise (interpretFrom env ir) (chunk s₁ starts) =
      batchwise (interpretFrom env ir) (chunk s₂ starts) := by
  rw [rows_independent_of_batching, rows_independent_of_batching]

/-! Non-vacuity of (2): batches are really cut, sizes follow the schedule, `VariableChunkIterator`'s
2-bit digits. -/
example : chunk [2, 0, 3] [1, 2, 3, 4, 5, 6, 7, 8] = [[1, 2], [], [3, 4, 5], [6, 7, 8]] := by decide
example : chunkSizes (wordSizes (2 ^ 64 - 1) 9) 9 = [4, 4, 1] := by decide
example : chunkSizes (wordSizes 0 3) 3 = [1, 1, 1] := by decide
example : chunkSizes (wordSizes 0xE4 10) 10 = [1, 2, 3, 4] := by decide

end TF.C02

#print axioms TF.C02.carrier_safe
#print axioms TF.C02.carrier_safe_ir
#print axioms TF.C02.carrier_total
#print axioms TF.C02.pre205_unsafe
#print axioms TF.C02.chunk_flatten
#print axioms TF.C02.word_chunks
#print axioms TF.C02.rows_independent_of_batching
#print axioms TF.C02.component_independent_of_batching
#print axioms TF.C02.sched_irrelevant
