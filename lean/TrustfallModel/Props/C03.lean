/-
C03 — Evaluation is lazy: starting vertices are pulled only on demand.

Two layers.  (1) Extensional: the list-level interpreter (`Model/Interp.lean`, the mirror of
`execution.rs`) is a list homomorphism over the starting vertices — `rows (xs ++ ys) = rows xs ++
rows ys`, every stage (filters, edge expansion, recursion, folds — which materialise only *per
context*) distributes over append; so the rows contributed by a starting vertex depend on that
vertex alone and the result is the concatenation of the per-vertex blocks.  (2) Operational, for the
top-level `flat_map` machine (`Model/Lazy.lean`): nothing is pulled before the first `next()`; `k`
calls of `next()` hand out exactly the first `k` rows and have pulled exactly `pullsFor per xs k`
starting vertices, which is the *least* number of starting vertices whose blocks contain `k` rows;
without further `next()` calls the state does not change (dropping the iterator pulls nothing).

Not exhibited by the model (stated in the evidence): the pull order *inside* the deeper stages of
the Rust iterator chain; the harness observes it (pull counter around `resolve_starting_vertices`).
-/
import TrustfallModel.Proofs.InterpHom
import TrustfallModel.Proofs.Lazy

namespace TF.C03
open TF TF.Engine TF.Lazy

/-- Rows over `xs ++ ys` starting vertices are the rows over `xs` followed by the rows over `ys`
(success of the whole run = success of both parts). -/
theorem rows_append (env : Env) (ir : IRQuery) (xs ys : List VertexId) :
    (interpretFrom env ir (xs ++ ys)).toOption =
      (interpretFrom env ir xs).toOption.bind fun a =>
        (interpretFrom env ir ys).toOption.map fun b => a ++ b :=
  interpretFrom_append env ir xs ys

/-- Hence the result is the concatenation of the blocks each starting vertex contributes alone. -/
theorem rows_eq_blocks (env : Env) (ir : IRQuery) (per : VertexId → List Row) (xs : List VertexId)
    (h0 : interpretFrom env ir [] = .ok [])
    (h : ∀ v ∈ xs, interpretFrom env ir [v] = .ok (per v)) :
    (interpretFrom env ir xs).toOption = some (xs.flatMap per) := by
  induction xs with
  | nil => simp [h0]
  | cons x xs ih =>
    have := rows_append env ir [x] xs
    simp only [List.singleton_append] at this
    rw [this, h x (by simp), ih (fun v hv => h v (by simp [hv]))]
    simp

/-- Nothing is pulled before the first row is requested. -/
theorem nothing_before_first_request {α β : Type} (xs : List α) : (M.init xs : M α β).pulled = 0 := rfl

/-- `k` calls of `next()` hand out exactly the first `k` rows of the eager result. -/
theorem lazy_rows {α β : Type} (per : α → List β) (xs : List α) (k : Nat) :
    (M.run per k (M.init xs)).1 = (xs.flatMap per).take k := by
  simpa [M.init] using run_items per k (M.init xs)

/-- After `k ≥ 1` rows the machine has pulled exactly the demand of the `k`-th row … -/
theorem lazy_demand {α β : Type} (per : α → List β) (xs : List α) (k : Nat) (hk1 : 1 ≤ k)
    (hk : k ≤ (xs.flatMap per).length) :
    (M.run per k (M.init xs)).2.pulled = pullsFor per xs k := by
  have h := run_pulled per k (⟨xs, [], 0⟩ : M α β) (by simpa using hk)
  have hk0 : ¬ k ≤ 0 := by omega
  simpa [M.init, hk0] using h

/-- … which suffices for `k` rows … -/
theorem demand_suffices {α β : Type} (per : α → List β) (xs : List α) (k : Nat)
    (hk : k ≤ (xs.flatMap per).length) :
    k ≤ ((xs.take (pullsFor per xs k)).flatMap per).length :=
  pullsFor_enough per xs k hk

/-- … and is the least such number: the row is contributed by the last vertex pulled. -/
theorem demand_least {α β : Type} (per : α → List β) (xs : List α) (k : Nat) (hk : 1 ≤ k) (m : Nat)
    (hm : m < pullsFor per xs k) : ((xs.take m).flatMap per).length < k :=
  pullsFor_least per xs k hk m hm

/-- Without further `next()` calls nothing changes: dropping the iterator causes no data access. -/
theorem drop_pulls_nothing {α β : Type} (per : α → List β) (m : M α β) : (M.run per 0 m).2 = m := rfl

/-! Non-vacuity: three sources contributing 0, 2 and 1 rows. -/
example : pullsFor (fun n : Nat => List.replicate (if n = 1 then 0 else if n = 2 then 2 else 1) n) [1, 2, 3] 1 = 2 := by
  decide
example : (M.run (fun n : Nat => List.replicate (if n = 1 then 0 else if n = 2 then 2 else 1) n) 3 (M.init [1, 2, 3])).1
    = [2, 2, 3] := by decide

end TF.C03

#print axioms TF.C03.rows_append
#print axioms TF.C03.rows_eq_blocks
#print axioms TF.C03.nothing_before_first_request
#print axioms TF.C03.lazy_rows
#print axioms TF.C03.lazy_demand
#print axioms TF.C03.demand_suffices
#print axioms TF.C03.demand_least
#print axioms TF.C03.drop_pulls_nothing
