/-
C04 — Pruning data with the engine's query hints never changes results.

"An adapter that discards vertices whose property values fall outside the candidate values reported by
the query hints (statically known or dynamically resolved from tags), or that lack an edge reported as
mandatory, returns exactly the same results as an adapter that ignores the hints. Hints may be
imprecise but must never exclude a value or vertex that can contribute to a result."

Objects (`Model/Hints.lean` part 2, mirroring hints/{mod,vertex_info,filters,dynamic}.rs):
`candidateOfStatic` / `staticCandidateOf` (`candidate_from_statically_evaluated_filters`),
`staticallyRequired` (`statically_required_property`), `dynamicallyRequired` + `candidateOfTag`
(`dynamically_required_property` + `DynamicallyResolvedValue::resolve`), `foldRequiresAtLeastOne`,
`VInfo` (the binding / non-binding state of `ResolveInfo` / `NeighborInfo`), `mandatoryEdges`,
`pruneAdapter` / `pruneStaticAdapter` (table adapters that use the hints to discard vertices).
Membership in a candidate is `Candidate.mem` (C06).

LOCAL SOUNDNESS (fully proved, for all values): a value that passes a filter is a member of the
candidate reported for it — `static_candidate_sound` (one operator), `static_candidates_sound`
(`statically_required_property`: several filters, intersection, `!=`/`not_one_of` exclusions),
`dynamic_candidate_sound_partial` (tag operand), `fold_requires_at_least_one_sound`.

The dynamic statement is FALSE on the pinned code for `>=` (finding F-1: both `GreaterThanOrEqual`
arms of dynamic.rs build `Range::with_end`): `dynamic_candidate_sound_false`.  Findings F-2 / F-2b (the resolution of an ordering / `one_of` hint
against a null tag value panicked) are repaired: `dynamic_candidate_null_tag_empty`.
Finding F-C04-1 (look-ahead through a non-root `@optional` edge reported binding hints) is repaired:
`lookahead_through_optional_non_binding`.

GLOBAL: `prune_invariant` (full statement, below) — proved for the static candidates at every
resolution point (`prune_static_invariant_partial`); the mandatory-edge look-ahead is stated and
open (it is exercised on every generated case by the check: the model's `pruneAdapter` is run and
its rows are compared with the rows of the real plain run).
-/
import TrustfallModel.Proofs.HintsSound
import TrustfallModel.Proofs.HintsPrune
import TrustfallModel.Proofs.FrontendBridgeHints

namespace TF.C04
open TF TF.Engine Filter Candidate

/-! ### local soundness -/

/-- One operator, operand from a query variable: a property value `x` with `x op a` is a member of
the candidate `filters.rs` builds for `op a` (`=` ↦ `Single`, `<,<=,>,>=` ↦ half-open ranges,
`one_of` ↦ `Multiple`, `!= null` ↦ the non-null range). -/
theorem static_candidate_sound (rx : RegexEngine) (o : BinOp) (x a : Value) (c : Candidate)
    (hf : applyStatic rx o x a = .ok true) (hc : candidateOfStatic o a = .ok (some c)) :
    c.mem x = true :=
  candidateOfStatic_sound rx o x a c hf hc

/-- `candidate_from_statically_evaluated_filters` over any list of filters on one property: if `x`
passes every unary / variable-operand filter of the list (filters with tag operands are ignored by
the static hint) and is non-null when the property is non-nullable, then `x` is a member of the
reported candidate — through the fold of `intersect` (C06 `mem_intersect`), `normalize`
(`mem_normalize`) and the `!=` / `not_one_of` exclusions (`exclude_keeps`). -/
theorem static_candidates_sound (rx : RegexEngine) (args : List (Name × Value)) (nullable : Bool)
    (fs : List IRFilter) (x : Value) (c : Candidate)
    (hc : staticCandidateOf args nullable fs = .ok (some c))
    (hf : ∀ f ∈ fs, StaticFilterPasses rx args f x)
    (hn : nullable = false → Cand.isNull x = false) :
    c.mem x = true :=
  (staticCandidateOf_sound rx args nullable fs x c hc hf hn).1

/-- `statically_required_property` of a hint object: whatever it reports contains every value that
passes the vertex's static filters on that property. -/
theorem statically_required_sound (rx : RegexEngine) (args : List (Name × Value)) (i : VInfo)
    (v : IRVertex) (p : Name) (x : Value) (c : Candidate)
    (hc : staticallyRequired args i v p = .ok (some c))
    (hf : ∀ f ∈ v.filters, filterSubject f = some p → StaticFilterPasses rx args f x)
    (hn : ∀ f ∈ v.filters, filterSubject f = some p → subjectNullable f = false → Cand.isNull x = false) :
    c.mem x = true :=
  (staticallyRequired_sound rx args i v p x c hc hf hn).1

/-
Full dynamic statement (FALSE on the pinned code, see `dynamic_candidate_sound_false`):

  theorem dynamic_candidate_sound (rx) (ni) (o) (x) (t : Tagged) (initial c)
      (hi : initial.mem x = true ∧ initial.wf = true)
      (hf : ∀ v, t = .some v → applyTagged rx o x v = .ok true)
      (hc : candidateOfTag ni o t initial = .ok c) : c.mem x = true
-/

/-- Operand from a tag, every operator except `>=`: if `x` is in the initial candidate and passes
`x op tagValue` (a tag from an `@optional` scope that does not exist imposes nothing), `x` is a
member of the candidate `DynamicallyResolvedValue::resolve` yields for that context — on the
context-field / imported-tag path (`ni = true`) and on the fold-count path (`ni = false`). -/
theorem dynamic_candidate_sound_partial (rx : RegexEngine) (ni : Bool) (o : BinOp) (x : Value)
    (t : Tagged) (initial c : Candidate)
    (hge : o ≠ .greaterThanOrEqual)
    (hi : initial.mem x = true ∧ initial.wf = true)
    (hf : ∀ v, t = .some v → applyTagged rx o x v = .ok true)
    (hc : candidateOfTag ni o t initial = .ok c) :
    c.mem x = true :=
  (candidateOfTag_sound_partial rx ni o x t initial c hge hi hf hc).1

/-- **F-1.** `x = 4`, tag `= 3`, filter `x >= %tag`: the filter passes, the reported candidate is
`(-∞, 3]` and does not contain `4` (on both paths). -/
theorem dynamic_candidate_sound_false :
    applyTagged (fun _ => none) .greaterThanOrEqual (.int64 4) (.int64 3) = .ok true ∧
    candidateOfTag true .greaterThanOrEqual (.some (.int64 3)) .all
      = .ok (.range ⟨.unbounded, .included (.int64 3), true⟩) ∧
    Candidate.mem (.int64 4) (.range ⟨.unbounded, .included (.int64 3), true⟩) = false ∧
    candidateOfTag false .greaterThanOrEqual (.some (.uint64 3)) (.range Range.fullNonNull)
      = .ok (.range ⟨.unbounded, .included (.uint64 3), false⟩) ∧
    Candidate.mem (.uint64 4) (.range ⟨.unbounded, .included (.uint64 3), false⟩) = false :=
  ⟨by decide, rfl, by decide, rfl, by decide⟩

/-- With the `>=` arm repaired (`Range::with_start`), the statement holds for `>=` too. -/
theorem dynamic_candidate_ge_sound_when_repaired (ni : Bool) (x v : Value) (initial c : Candidate)
    (hi : initial.mem x = true ∧ initial.wf = true)
    (hf : greaterThanOrEqual x v = .ok true)
    (hc : candidateOfTagFixedGe ni v initial = .ok c) : c.mem x = true :=
  (candidateOfTagFixedGe_sound ni x v initial c hi hf hc).1

/-- **F-2 / F-2b, repaired.**  History: before the repair a null tag value under an ordering
operator went into `Range::with_end/with_start` and hit the assertion of `Range::new`
(`cannot bound range with null value`), and under `one_of` the `as_slice()` of the null list
panicked — although the filters are simply false on a null operand (earlier revision:
`dynamic_candidate_null_tag_panics : ∃ s, candidateOfTag ni .lessThan (.some .null) initial =
.panic s ∧ …`).  Now, on the context-field and imported-tag paths, the resolution yields a candidate
that contains no value — exactly what the filter admits. -/
theorem dynamic_candidate_null_tag_empty (o : BinOp) (initial : Candidate) (hw : initial.wf = true)
    (ho : o = .lessThan ∨ o = .lessThanOrEqual ∨ o = .greaterThan ∨ o = .greaterThanOrEqual ∨ o = .oneOf) :
    ∃ c, candidateOfTag true o (.some .null) initial = .ok c ∧ ∀ x, c.mem x = false := by
  rcases ho with rfl | rfl | rfl | rfl | rfl
  · exact ⟨_, rfl, fun x => by rw [mem_intersect' _ _ x hw rfl]; simp [Candidate.mem]⟩
  · exact ⟨_, rfl, fun x => by rw [mem_intersect' _ _ x hw rfl]; simp [Candidate.mem]⟩
  · exact ⟨_, rfl, fun x => by rw [mem_intersect' _ _ x hw rfl]; simp [Candidate.mem]⟩
  · exact ⟨_, rfl, fun x => by rw [mem_intersect' _ _ x hw rfl]; simp [Candidate.mem]⟩
  · exact ⟨_, rfl, fun x => by rw [mem_intersect' _ _ x hw rfl]; simp [Candidate.mem, Cand.containsV]⟩

/-- … and that is precise: no value passes an ordering or `one_of` filter against null. -/
theorem null_operand_filters_are_false (rx : RegexEngine) (x : Value) :
    lessThan x .null = .ok false ∧ lessThanOrEqual x .null = .ok false ∧
    greaterThan x .null = .ok false ∧ greaterThanOrEqual x .null = .ok false ∧
    applyTagged rx .oneOf x .null = .ok false := by
  cases x <;> exact ⟨rfl, rfl, rfl, rfl, rfl⟩

/-- `fold_requires_at_least_one_element`: when it answers `true`, every fold count that passes the
fold's count filters (those with a variable operand; tag operands are ignored by the hint) is ≥ 1 —
so an `EdgeInfo` reported `FoldedMandatory` really is mandatory. -/
theorem fold_requires_at_least_one_sound (rx : RegexEngine) (args : List (Name × Value))
    (post : List IRFilter) (u : UInt64)
    (h : foldRequiresAtLeastOne args post = .ok true)
    (hf : ∀ f ∈ post, StaticFilterPasses rx args f (.uint64 u)) : 1 ≤ u.toNat :=
  foldRequiresAtLeastOne_sound rx args post u h hf

/-! ### binding scopes -/

/-- Where hints must not prune, nothing is reported: the destination of an `@optional` edge, of a
`@recurse(depth ≥ 2)` edge, and everything reached by look-ahead through a non-mandatory `@fold`
reports no static candidate, no dynamic candidate and no mandatory edge. -/
theorem non_binding_reports_nothing (args : List (Name × Value)) (comp : Component) (i : VInfo)
    (v : IRVertex) (p : Name) (h : i.nonBinding = true) :
    staticallyRequired args i v p = .ok none ∧
    (∃ r, dynamicallyRequired args i v p = .ok r ∧ r.isNone = true) ∧
    mandatoryEdges args comp i = .ok [] := by
  refine ⟨by simp [staticallyRequired, h], ⟨none, by simp [dynamicallyRequired, h], rfl⟩, ?_⟩
  simp only [mandatoryEdges]
  generalize outgoingNames comp i.vid = l
  induction l with
  | nil => rfl
  | cons n ns ih => simp [flatMapR, mandatoryEdgesWithName, h, ih]

theorem optional_edge_non_binding (e : IREdge) (h : e.optional = true) :
    (VInfo.ofEdge e).nonBinding = true := by
  simp [VInfo.ofEdge, VInfo.nonBinding, h]

theorem deep_recursion_non_binding (e : IREdge) (r : Recursive) (h : e.recursive = some r)
    (hd : r.depth ≥ 2) : (VInfo.ofEdge e).nonBinding = true := by
  simp [VInfo.ofEdge, VInfo.nonBinding, locallyNonBindingEdge, h, hd]

/-- Looking ahead through a fold that is not forced non-empty, and through anything below it. -/
theorem optional_fold_lookahead_non_binding (args : List (Name × Value)) (i : VInfo) (f : Fold)
    (e : EInfo) (h : foldRequiresAtLeastOne args f.post = .ok false)
    (he : i.foldedEdge args f = .ok e) :
    e.isMandatory = false ∧ e.destination.nonBinding = true := by
  simp only [VInfo.foldedEdge, h, R.map] at he
  cases he
  cases i.isResolveInfo <;> simp [EInfo.isMandatory, VInfo.nonBinding]

/-- An `@optional` or `@recurse` edge, and a fold that may be empty, are never mandatory. -/
theorem mandatory_edge_shape (e : EInfo) (h : e.isMandatory = true) :
    e.optional = false ∧ e.recursive = false ∧ e.folded ≠ .foldedOptional := by
  simp only [EInfo.isMandatory, Bool.and_eq_true, Bool.not_eq_true', beq_eq_false_iff_ne] at h
  exact ⟨h.1.2, h.2, h.1.1⟩

/-- Mandatory edges, locally: a context whose active vertex has no neighbour along a non-optional
edge produces no context (`EdgeExpander`), and a fold reported `FoldedMandatory` with no element
fails one of its count filters (contrapositive of `fold_requires_at_least_one_sound`). -/
theorem mandatory_edge_no_neighbour_no_context (c : Ctx) (v : VertexId) (h : c.active = some v) :
    expandOne c [] false = [] := by
  simp [expandOne, h]

theorem mandatory_fold_empty_fails_a_filter (rx : RegexEngine) (args : List (Name × Value))
    (post : List IRFilter) (h : foldRequiresAtLeastOne args post = .ok true) :
    ¬ ∀ f ∈ post, StaticFilterPasses rx args f (.uint64 0) := by
  intro hf
  have := foldRequiresAtLeastOne_sound rx args post 0 h hf
  simp at this

/-! ### look-ahead through `@optional` (finding F-C04-1, repaired)

History: before the repair `NeighborInfo::make_non_folded_edge_info` inherited
`within_optional_scope` from the current hint object and forgot the edge's own `optional` flag.  For
`{ RA { id @output e { g @optional { x @filter(op: "=", value: ["$v"]) @output } } } }` (Vids 1, 2, 3;
`g` = Eid 2) the hint object reached from the root by `first_edge("e").destination()
.first_edge("g").destination()` reported filters as binding and the candidate `Single($v)` for `x`
(witness theorem `lookahead_through_optional_reports_binding` of the earlier revision: `viaRoot
.nonBinding = false`, `staticallyRequired … viaRoot la_v3 "x" = .ok (some (.single (.int64 7)))`),
while the hint object of the resolution point of `g` reported nothing; a pruning adapter applying the
looked-ahead candidate turned 0 rows into 1.  With `self.within_optional_scope || edge.optional`: -/

def la_e1 : IREdge := ⟨1, 1, 2, "e", [], false, none⟩
def la_e2 : IREdge := ⟨2, 2, 3, "g", [], true, none⟩
def la_v3 : IRVertex :=
  ⟨3, "A", none, [⟨.bin .equals, .loc "x" ⟨"Int", [true]⟩, some (.var "v" ⟨"Int", [true]⟩)⟩]⟩

/-- Looking ahead through an `@optional` edge — from a `ResolveInfo` or from any `NeighborInfo` —
yields a non-binding hint object: no static candidate, no dynamic candidate, no mandatory edge. -/
theorem lookahead_through_optional_non_binding (i : VInfo) (e : IREdge) (h : e.optional = true) :
    (i.nonFoldedEdge e).destination.nonBinding = true ∧ (i.nonFoldedEdge e).isMandatory = false := by
  cases hi : i.isResolveInfo <;> simp [VInfo.nonFoldedEdge, VInfo.nonBinding, EInfo.isMandatory, hi, h]

/-- … and the non-binding state is inherited by everything below (regular edges and folds). -/
theorem lookahead_below_optional_non_binding (args : List (Name × Value)) (i : VInfo)
    (hi : i.isResolveInfo = false) (hw : i.withinOptional = true) (e : IREdge) (f : Fold) (ef : EInfo)
    (hf : i.foldedEdge args f = .ok ef) :
    (i.nonFoldedEdge e).destination.nonBinding = true ∧ ef.destination.nonBinding = true := by
  constructor
  · simp [VInfo.nonFoldedEdge, VInfo.nonBinding, hi, hw]
  · simp only [VInfo.foldedEdge] at hf
    cases hr : foldRequiresAtLeastOne args f.post with
    | ok b => rw [hr] at hf; simp only [R.map] at hf; cases hf; simp [VInfo.nonBinding, hi, hw]
    | panic s => rw [hr] at hf; simp [R.map] at hf
    | fuel => rw [hr] at hf; simp [R.map] at hf

/-- The former witness: now nothing is reported for the vertex inside the `@optional`. -/
theorem lookahead_witness_repaired :
    let viaRoot := (((VInfo.resolve 1 false).nonFoldedEdge la_e1).destination.nonFoldedEdge la_e2).destination
    viaRoot.nonBinding = true ∧
    staticallyRequired [("v", .int64 7)] viaRoot la_v3 "x" = .ok none :=
  ⟨rfl, rfl⟩

/-! ### the global statement

  theorem prune_invariant (ir : IRQuery) (D : Data) (args) (rows) :
      interpret (Env.ofData D args) ir = .ok rows →
      interpret { Env.ofData D args with adapter := pruneAdapter ir args D } ir = .ok rows

(`pruneAdapter`: the table adapter that, at `resolve_starting_vertices` and at every
`resolve_neighbors`, drops the vertices rejected by the static candidates of the call's hint object
and by the look-ahead over its mandatory edges.)  The statement is about runs that yield rows: a
pruning adapter may also turn a panicking run (C09's findings) into rows.

Proved below: the static candidates at every resolution point, without look-ahead
(`prune_static_invariant_partial`).  Open: the mandatory-edge look-ahead of `pruneAdapter`
(`keepVertex`), and the dynamic candidates (they depend on the context, which the abstract `Adapter`
of `Model/Interp.lean` does not see; their local soundness is above, F-1 is their refutation). -/

/-- **Pruning with the static hints never changes the rows.**  `pruneStaticAdapter` is the table
adapter that, at `resolve_starting_vertices` and at every `resolve_neighbors` (plain, `@optional`,
`@recurse`, `@fold` edges, at any fold depth), drops the vertices outside
`statically_required_property(p)` of the call's hint object, for every filtered property `p`.  If
the plain run yields rows, the pruned run yields the same rows in the same order.

Guard `PruneHyp`: the IR has distinct Vids and Eids and every fold's `to_vid` is the root of its
component (all enforced by `IndexedQuery::try_from`); the hint computation does not panic
(`HintsTotal`: guaranteed by argument validation); a property declared non-nullable is not null on
the vertices the adapter returns for the corresponding starting edge / edge / fold.  The proof
combines local soundness with the homomorphism lemmas of `Proofs/InterpHom.lean`: a context whose
new active vertex the hints reject does not survive the entry into that vertex
(`enterVertex_dropped`), so dropping it before the stage changes nothing; for `@recurse(depth: 1)`
the depth-0 context is untouched; for folds the rejected neighbours contribute no fold element. -/
theorem prune_static_invariant_partial (ir : IRQuery) (D : Data) (args : List (Name × Value))
    (rows : List Row) (hyp : PruneHyp ir args D)
    (h : interpret (Env.ofData D args) ir = .ok rows) :
    interpret { Env.ofData D args with adapter := pruneStaticAdapter ir args D } ir = .ok rows :=
  interpret_pruned hyp rows h

/-- The step the global proof rests on: a context whose active vertex is rejected by the static
hints of the vertex it enters is removed by the engine itself. -/
theorem rejected_vertex_never_survives (ir : IRQuery) (D : Data) (args : List (Name × Value))
    (i : VInfo) (comp comp' : Component) (v : IRVertex) (c : Ctx) (x : VertexId) (o : List Ctx)
    (hl : locate ir i.vid = some (comp', v))
    (hp : passesStatic ir args D i x = .ok false)
    (hnn : NonNullOk D v x) (hc : c.active = some x)
    (h : enterVertex (Env.ofData D args) comp v [c] = .ok o) : o = [] :=
  enterVertex_dropped ir D args i comp comp' v c x o hl hp hnn hc h

/-- Non-vacuity: a query with a static filter at the root and one behind an edge, data on which the
hints really drop a starting vertex, and all hypotheses of the theorem. -/
example : PruneHyp nvIR nvArgs nvData ∧
    keepB nvIR nvArgs nvData (VInfo.resolve 1 false) 1 = false :=
  ⟨nv_hyp, by decide⟩

end TF.C04

/-! ### compiled queries

The three structural clauses of `PruneHyp` (distinct Vids, distinct Eids, a fold enters the root of
its component) hold for every query the (modelled) frontend accepts (clauses 2 and 4 of C11); what
remains of the guard concerns the arguments and the dataset only. -/
namespace TF.C04.Compiled
open TF TF.Engine TF.Frontend

/-- The guard of `prune_static_invariant_partial` for a compiled query: only the clauses about the
arguments (`HintsTotal`: the hint computation does not panic) and about the dataset (non-nullable
properties are not null on the vertices the adapter returns) remain. -/
theorem pruneHyp_compiled {S : SchemaView} {q : Spec.Query} {ir : IRQuery} (h : toIR S q = .ok ir)
    {D : Data} {args : List (Name × Value)} (total : HintsTotal ir args D)
    (nnStart : ∀ v, ir.rootComponent.vertex? ir.rootComponent.root = some v →
      ∀ x ∈ D.start ir.rootName ir.rootParams, NonNullOk D v x)
    (nnEdge : ∀ c ∈ subComps ir.rootComponent, ∀ e ∈ c.edges, ∀ v, c.vertex? e.toVid = some v →
      ∀ y, ∀ x ∈ D.nbrs y e.name e.params, NonNullOk D v x)
    (nnFold : ∀ c ∈ subComps ir.rootComponent, ∀ f ∈ c.folds, ∀ v,
      f.component.vertex? f.component.root = some v →
      ∀ y, ∀ x ∈ D.nbrs y f.name f.params, NonNullOk D v x) :
    PruneHyp ir args D :=
  ⟨toIR_VidsDistinct h, toIR_EidsDistinct h, toIR_foldRoots h, total, nnStart, nnEdge, nnFold⟩

/-- **Pruning with the static hints never changes the rows — for every query accepted by the
frontend.** -/
theorem prune_static_invariant_compiled {S : SchemaView} {q : Spec.Query} {ir : IRQuery}
    (h : toIR S q = .ok ir) (D : Data) (args : List (Name × Value)) (rows : List Row)
    (total : HintsTotal ir args D)
    (nnStart : ∀ v, ir.rootComponent.vertex? ir.rootComponent.root = some v →
      ∀ x ∈ D.start ir.rootName ir.rootParams, NonNullOk D v x)
    (nnEdge : ∀ c ∈ subComps ir.rootComponent, ∀ e ∈ c.edges, ∀ v, c.vertex? e.toVid = some v →
      ∀ y, ∀ x ∈ D.nbrs y e.name e.params, NonNullOk D v x)
    (nnFold : ∀ c ∈ subComps ir.rootComponent, ∀ f ∈ c.folds, ∀ v,
      f.component.vertex? f.component.root = some v →
      ∀ y, ∀ x ∈ D.nbrs y f.name f.params, NonNullOk D v x)
    (hrun : interpret (Env.ofData D args) ir = .ok rows) :
    interpret { Env.ofData D args with adapter := pruneStaticAdapter ir args D } ir = .ok rows :=
  prune_static_invariant_partial ir D args rows (pruneHyp_compiled h total nnStart nnEdge nnFold) hrun

/-- one type `T` with a property `s : String` and an edge `e : [T]`; root `R : [T]` -/
def exSchema : SchemaView :=
  ⟨[⟨"T", false, [], [("s", ⟨"String", [true]⟩)], [⟨"e", "T", ⟨"T", [true, true]⟩, []⟩]⟩],
   [⟨"R", "T", ⟨"T", [true, true]⟩, []⟩]⟩

/-- `{ R { s @filter(op: "=", value: ["$v"]) @output(name: "o")
          e @fold { s @output(name: "p") } } }` -/
def exQuery : Spec.Query :=
  ⟨"R", [], .mk none [
    .prop "s" [.filter (.bin .equals) (.var "v"), .output "o"],
    .edge "e" [] (.fold []) (.mk none [.prop "s" [.output "p"]])]⟩

def accepted : M IRQuery → Bool
  | .ok _ => true
  | .error _ => false

/-- Non-vacuity: the frontend accepts the example query, and its IR satisfies the three structural
clauses of the guard. -/
example : ∃ ir, toIR exSchema exQuery = .ok ir ∧ VidsDistinct ir ∧ EidsDistinct ir ∧
    ∀ c ∈ subComps ir.rootComponent, ∀ f ∈ c.folds, f.toVid = f.component.root := by
  have hacc : accepted (toIR exSchema exQuery) = true := by decide +kernel
  cases h : toIR exSchema exQuery with
  | ok ir => exact ⟨ir, rfl, toIR_VidsDistinct h, toIR_EidsDistinct h, toIR_foldRoots h⟩
  | error e => rw [h] at hacc; simp [accepted] at hacc

end TF.C04.Compiled

#print axioms TF.C04.static_candidate_sound
#print axioms TF.C04.static_candidates_sound
#print axioms TF.C04.statically_required_sound
#print axioms TF.C04.dynamic_candidate_sound_partial
#print axioms TF.C04.dynamic_candidate_sound_false
#print axioms TF.C04.dynamic_candidate_ge_sound_when_repaired
#print axioms TF.C04.dynamic_candidate_null_tag_empty
#print axioms TF.C04.null_operand_filters_are_false
#print axioms TF.C04.fold_requires_at_least_one_sound
#print axioms TF.C04.non_binding_reports_nothing
#print axioms TF.C04.optional_edge_non_binding
#print axioms TF.C04.deep_recursion_non_binding
#print axioms TF.C04.optional_fold_lookahead_non_binding
#print axioms TF.C04.mandatory_edge_shape
#print axioms TF.C04.mandatory_edge_no_neighbour_no_context
#print axioms TF.C04.mandatory_fold_empty_fails_a_filter
#print axioms TF.C04.lookahead_through_optional_non_binding
#print axioms TF.C04.lookahead_below_optional_non_binding
#print axioms TF.C04.lookahead_witness_repaired
#print axioms TF.C04.prune_static_invariant_partial
#print axioms TF.C04.rejected_vertex_never_survives
#print axioms TF.C04.Compiled.pruneHyp_compiled
#print axioms TF.C04.Compiled.prune_static_invariant_compiled
