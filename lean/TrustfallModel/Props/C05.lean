/-
C05 — Required-properties hints list every property the engine will request.

"For every vertex of a query, each property the engine asks the adapter to resolve for that vertex
appears in the required-properties list reported for that vertex, whether it is needed for an output,
a filter, or a tag used anywhere in the query (including inside nested @fold scopes and fold-count
filters)."

Objects (all in `Model/Hints.lean`, `Model/Interp.lean`):
* `requiredProps ir vid` — the model of `VertexInfo::required_properties` (vertex_info.rs l. 158) for
  the hint object of vertex `vid`, as coded;
* `interpret env ir` — the model of `interpret_ir` (execution.rs); every `resolve_property` call of
  the engine is a call `env.adapter.prop vid typeName field activeVertex` carrying the Vid the engine
  puts into the call's `ResolveInfo`;
* `requiredCheckedAdapter ir D` — the table adapter over dataset `D` that *refuses* (panics on) every
  `resolve_property` whose property is not in the list reported for the call's vertex.
The property says that this refusing adapter is never triggered: the run under it equals the plain run.

Full statement, proved (`required_props_complete`):

  interpret { Env.ofData D args with adapter := requiredCheckedAdapter ir D } ir
    = interpret (Env.ofData D args) ir        for every query with distinct Vids.

History (finding F-3, repaired): `compute_fold` (execution.rs) fetches every *imported*
context-field tag through `resolve_property` at the tag's vertex, and `apply_fold_specific_filter`
does the same for a tag operand of a fold-count filter, but `required_properties` used to scan only
tag uses by filters of vertices of the tag's *own* component: a tag used only inside a fold (or only
in a fold's post-filter) was requested without being listed.  The earlier revision of this file
proved the refutation on the two-vertex query below (`required_props_complete_false`: plain run one
row, checked run `panic "required-props"`; `f3_site_not_required : requiredProps f3IR 1 = []`) and
the theorem only under the guard `TagsUsedInDefiningComponent`.  `required_properties` now also
lists the tags of the vertex that a fold of its component imports or that a fold-count filter uses;
the guard is gone.  The proof has two halves — (A) the engine requests properties only at the
statically known call sites `propSites ir`, (B) every call site is listed.
-/
import TrustfallModel.Proofs.Hints
import TrustfallModel.Proofs.FrontendBridgeHints

namespace TF.C05
open TF TF.Engine

/-- The table adapter over `D` that panics (`"required-props"`) on a `resolve_property` call whose
property is not in `requiredProps ir vid` for the vertex `vid` of the call. -/
def requiredCheckedAdapter (ir : IRQuery) (D : Data) : Adapter :=
  D.adapter.checkProps (requiredOk ir)

/-- (A) The engine calls `resolve_property` only at the static call sites `propSites ir`: local
filter subjects, tag operands resolved at a vertex of the filtering component, imported context-field
tags (at the tag's vertex in the fold's parent component), outputs of the root component and of every
fold component.  For every query, adapter and arguments. -/
theorem calls_within_sites (env : Env) (ir : IRQuery) :
    interpret (env.checked fun vid f => decide ((vid, f) ∈ propSites ir)) ir = interpret env ir :=
  interpret_checked env _ ir (fun s hs => by simpa using hs)

/-- (B) Every call site is in the required-properties list of its vertex — for queries whose Vids
are distinct (enforced by `IndexedQuery::try_from`). -/
theorem sites_required_all (ir : IRQuery) (hd : VidsDistinct ir) :
    ∀ s ∈ propSites ir, s.2 ∈ requiredProps ir s.1 := by
  intro s hs
  have := sites_required hd s hs
  simpa [requiredOk] using this

/-- Refusing the properties outside a set `q` is invisible as soon as `q` contains the call sites. -/
theorem checked_invisible (env : Env) (ir : IRQuery) (q : Vid → Name → Bool)
    (h : ∀ s ∈ propSites ir, q s.1 s.2 = true) :
    interpret (env.checked q) ir = interpret env ir :=
  interpret_checked env q ir h

/-- **C05**, for any adapter: for every query with distinct Vids, an adapter that refuses every
property outside the reported required-properties list of the call's vertex behaves exactly like
the adapter itself. -/
theorem required_props_complete_env (env : Env) (ir : IRQuery) (hd : VidsDistinct ir) :
    interpret (env.checked (requiredOk ir)) ir = interpret env ir :=
  interpret_checked env _ ir (sites_required hd)

/-- **C05**, the full statement: the table adapter that refuses every property outside the list. -/
theorem required_props_complete (ir : IRQuery) (D : Data) (args : List (Name × Value))
    (hd : VidsDistinct ir) :
    interpret { Env.ofData D args with adapter := requiredCheckedAdapter ir D } ir
      = interpret (Env.ofData D args) ir :=
  required_props_complete_env (Env.ofData D args) ir hd

/-! ### the former witness of F-3

`{ RA { x @tag(name: "t")  e @fold { y @filter(op: "=", value: ["%t"]) @output(name: "o1") } } }`
over one `A` vertex (`x = 1`) with one `e`-neighbour `B` (`y = 1`). -/

def tInt : QTy := ⟨"Int", [true]⟩

/-- the fold's component: vertex 2 with the filter `y = %t` (tag = field `x` of vertex 1) -/
def f3Fold : Component :=
  .mk 2 [⟨2, "B", none, [⟨.bin .equals, .loc "y" tInt, some (.tag (.ctx 1 "x" tInt))⟩]⟩] [] []
    [⟨"o1", 2, "y", tInt⟩]

def f3Root : Component :=
  .mk 1 [⟨1, "A", none, []⟩] [] [.mk 1 1 2 "e" [] f3Fold [.ctx 1 "x" tInt] [] []] []

def f3IR : IRQuery := ⟨"RA", [], [], f3Root⟩

def f3Data : Data :=
  { vertices := [⟨0, "A", [("x", .int64 1)]⟩, ⟨1, "B", [("y", .int64 1)]⟩],
    adj := [⟨0, "e", [], [1]⟩], starts := [⟨"RA", [], [0]⟩], rx := [], sub := [] }

/-- Statically: the engine resolves `x` at vertex 1 (imported tag), and the list of vertex 1 now
contains it (it used to be empty). -/
theorem f3_site_required :
    VidsDistinct f3IR ∧ (1, "x") ∈ propSites f3IR ∧ requiredProps f3IR 1 = ["x"] ∧
      requiredProps f3IR 2 = ["y"] := by
  decide

theorem computeComponent_leaf (env : Env) (n : Nat) (comp : Component) (ctxs : List Ctx)
    (he : comp.edges = []) (hf : comp.folds = []) :
    computeComponent env (n + 1) comp ctxs =
      match comp.vertex? comp.root with
      | none => .panic "component.vertices[&component_root_vid]"
      | some rootV => enterVertex env comp rootV ctxs := by
  rw [computeComponent.eq_2, he, hf]
  cases comp.vertex? comp.root with
  | none => rfl
  | some rootV =>
    simp only [mergeStages, R.bind_ok, List.map_nil]
    cases enterVertex env comp rootV ctxs with
    | ok a => simp only [R.bind_ok, runStages.eq_1]
    | panic s => rfl
    | fuel => rfl

/-- The plain run of the witness query returns one row … -/
theorem f3_plain_run :
    interpret (Env.ofData f3Data []) f3IR = .ok [[("o1", .list [.int64 1])]] := by
  unfold interpret interpretFrom
  rw [show (Env.ofData f3Data []).adapter.start f3IR.rootName f3IR.rootParams f3IR.rootComponent.root
    = .ok [0] from rfl]
  simp only [R.bind_ok]
  rw [show fuelFor f3IR = Nat.succ 63 from rfl, computeComponent.eq_2]
  rw [show mergeStages f3IR.rootComponent.edges f3IR.rootComponent.folds
      (f3IR.rootComponent.edges.length + f3IR.rootComponent.folds.length) =
      .ok [Stage.fold (.mk 1 1 2 "e" [] f3Fold [.ctx 1 "x" tInt] [] [])] from rfl]
  simp only [R.bind_ok, runStages.eq_3, runStages.eq_1, computeFold.eq_1, foldOne.eq_1, Fold.component]
  simp only [show (63 : Nat) = 62 + 1 from rfl, computeComponent_leaf _ 62 f3Fold _ rfl rfl]
  rfl

/-- … and so does the run under the required-properties-checking adapter (it used to be refused
with `panic "required-props"` while the tag was imported into the fold). -/
theorem f3_checked_run :
    interpret { Env.ofData f3Data [] with adapter := requiredCheckedAdapter f3IR f3Data } f3IR
      = .ok [[("o1", .list [.int64 1])]] := by
  rw [required_props_complete f3IR f3Data [] (by decide), f3_plain_run]

/-- The second shape of F-3: the tag is used only by a fold-count filter
(`{ RA { x @tag(name: "t")  e @fold @transform(op: "count") @filter(op: "=", value: ["%t"]) } }`):
`apply_fold_specific_filter` resolves `x` at vertex 1; now listed after the output `id`. -/
def f3PostIR : IRQuery :=
  ⟨"RA", [], [], .mk 1 [⟨1, "A", none, []⟩] []
    [.mk 1 1 2 "e" [] (.mk 2 [⟨2, "B", none, []⟩] [] [] []) [] []
      [⟨.bin .equals, .count, some (.tag (.ctx 1 "x" tInt))⟩]] [⟨"o", 1, "id", tInt⟩]⟩

theorem f3_post_filter_site_required :
    VidsDistinct f3PostIR ∧ (1, "x") ∈ propSites f3PostIR ∧ requiredProps f3PostIR 1 = ["id", "x"] := by
  decide

/-! ### Non-vacuity -/


/-- The same query with `x` also output at vertex 1 (`x @tag(name: "t") @output(name: "o0")`):
the list of vertex 1 is `[x]`, once. -/
def okImportIR : IRQuery :=
  ⟨"RA", [], [], .mk 1 [⟨1, "A", none, []⟩] [] [.mk 1 1 2 "e" [] f3Fold [.ctx 1 "x" tInt] [] []]
    [⟨"o0", 1, "x", tInt⟩]⟩

example : VidsDistinct okImportIR ∧ requiredProps okImportIR 1 = ["x"] := by decide

/-- A query with an output, a filter with a variable, a same-component tag from an earlier vertex, a
repeated property and a fold with outputs: the list is de-duplicated in the reported order. -/
def okTagIR : IRQuery :=
  ⟨"RA", [], [("v", tInt)], .mk 1
    [⟨1, "A", none, [⟨.bin .lessThan, .loc "x" tInt, some (.var "v" tInt)⟩]⟩,
     ⟨2, "B", none, [⟨.bin .equals, .loc "y" tInt, some (.tag (.ctx 1 "z" tInt))⟩,
                     ⟨.bin .notEquals, .loc "y" tInt, some (.tag (.ctx 2 "w" tInt))⟩]⟩]
    [⟨1, 1, 2, "e", [], false, none⟩]
    [.mk 2 2 3 "g" [] (.mk 3 [⟨3, "B", none, []⟩] [] [] [⟨"o3", 3, "y", tInt⟩]) [] ["c"] []]
    [⟨"o1", 1, "x", tInt⟩, ⟨"o2", 2, "y", tInt⟩]⟩

example : VidsDistinct okTagIR ∧
    requiredProps okTagIR 1 = ["x", "z"] ∧ requiredProps okTagIR 2 = ["y", "w"] ∧
    requiredProps okTagIR 3 = ["y"] := by decide

example : propSites okTagIR = [(1, "x"), (2, "y"), (1, "x"), (2, "y"), (1, "z"), (2, "y"), (2, "w"), (3, "y")] := by
  decide

end TF.C05

/-! ### compiled queries

The hypothesis `VidsDistinct ir` of `required_props_complete` holds for every query the (modelled)
frontend accepts (`toIR_VidsDistinct`, from clause 2 of C11), so for compiled queries the statement
is unconditional. -/
namespace TF.C05.Compiled
open TF TF.Engine TF.Frontend

/-- **C05 for every query accepted by the frontend**: on the IR of any query the frontend compiles
(over any schema), the table adapter that refuses every property outside the reported
required-properties list behaves exactly like the table adapter. -/
theorem required_props_complete_compiled {S : SchemaView} {q : Spec.Query} {ir : IRQuery}
    (h : toIR S q = .ok ir) (D : Data) (args : List (Name × Value)) :
    interpret { Env.ofData D args with adapter := requiredCheckedAdapter ir D } ir
      = interpret (Env.ofData D args) ir :=
  required_props_complete ir D args (toIR_VidsDistinct h)

/-- one type `T` with a property `s : String` and an edge `e : [T]`; root `R : [T]` -/
def exSchema : SchemaView :=
  ⟨[⟨"T", false, [], [("s", ⟨"String", [true]⟩)], [⟨"e", "T", ⟨"T", [true, true]⟩, []⟩]⟩],
   [⟨"R", "T", ⟨"T", [true, true]⟩, []⟩]⟩

/-- `{ R { s @tag(name: "a") @output(name: "o")
          e @fold { s @filter(op: "=", value: ["%a"]) @output(name: "p") } } }` — the tag is used
only inside the fold (the shape of the former finding F-3). -/
def exQuery : Spec.Query :=
  ⟨"R", [], .mk none [
    .prop "s" [.tag "a", .output "o"],
    .edge "e" [] (.fold []) (.mk none [
      .prop "s" [.filter (.bin .equals) (.tag "a"), .output "p"]])]⟩

def accepted : M IRQuery → Bool
  | .ok _ => true
  | .error _ => false

/-- Non-vacuity: the frontend accepts the example query, and the theorem applies to its IR. -/
example : ∃ ir, toIR exSchema exQuery = .ok ir ∧ VidsDistinct ir ∧
    ∀ D args, interpret { Env.ofData D args with adapter := requiredCheckedAdapter ir D } ir
      = interpret (Env.ofData D args) ir := by
  have hacc : accepted (toIR exSchema exQuery) = true := by decide +kernel
  cases h : toIR exSchema exQuery with
  | ok ir => exact ⟨ir, rfl, toIR_VidsDistinct h, required_props_complete_compiled h⟩
  | error e => rw [h] at hacc; simp [accepted] at hacc

end TF.C05.Compiled

#print axioms TF.C05.calls_within_sites
#print axioms TF.C05.sites_required_all
#print axioms TF.C05.checked_invisible
#print axioms TF.C05.required_props_complete_env
#print axioms TF.C05.required_props_complete
#print axioms TF.C05.f3_site_required
#print axioms TF.C05.f3_plain_run
#print axioms TF.C05.f3_checked_run
#print axioms TF.C05.f3_post_filter_site_required
#print axioms TF.C05.Compiled.required_props_complete_compiled
