/-
C06 — Candidate-value intersection and exclusion are exact set operations.

"Combining two candidate value sets yields exactly the values (including null) contained in both,
normalizing a candidate never changes which values it contains, and excluding a value yields a set that
contains everything else the original contained and is contained in the original."

Statements are about `TF.Candidate.intersect / normalize / exclude`, the model of
`CandidateValue::<FieldValue>::{intersect, normalize, exclude_single_value}` and of `Range::{new,
intersect, degenerate, null_only, contains}` (trustfall_core/src/interpreter/hints/candidates.rs), and
about the membership function `mem` (`Impossible` ∅, `Single` by `==`, `Multiple` by `Vec::contains`,
`Range` by `Range::contains`, `All` everything).

They hold for *all* candidates and *all* probe values `v` — every `Int64`/`UInt64` bit pattern in either
representation, strings, null, and also values of any other kind or of a kind different from the range
bounds (membership is then decided by `FieldValue`'s cross-kind order; the laws hold for it as well).

`WF c` is the invariant that `Range::new` asserts (no range bound is null).  Every `Range` the real code
can build satisfies it (`range_new_wf`; the fields are private), all three operations preserve it
(`wf_intersect`, `wf_normalize`, `wf_exclude`), and it is genuinely needed: for a (non-constructible)
range bounded by null, `normalize` changes membership (`normalize_needs_wf`).
-/
import TrustfallModel.Proofs.Candidates

namespace TF.C06
open TF Value Cand Candidate

/-- The invariant asserted by `Range::new`: range bounds are not null. -/
def WF (c : Candidate) : Prop := c.wf = true

instance (c : Candidate) : Decidable (WF c) := inferInstanceAs (Decidable (c.wf = true))

/-- `Range::new` either panics (exactly when a bound is null) or builds a well-formed range. -/
theorem range_new_wf (s e : Bound) (n : Bool) :
    (Range.new s e n = .panic ∧ (s.isNullBound = true ∨ e.isNullBound = true)) ∨
    (Range.new s e n = .ok ⟨s, e, n⟩ ∧ WF (.range ⟨s, e, n⟩)) := by
  unfold Range.new WF Candidate.wf
  cases hs : s.isNullBound <;> cases he : e.isNullBound <;> simp [hs, he]

/-- Intersection is exact: a value (null included) is in `a ∩ b` iff it is in both. -/
theorem mem_intersect (a b : Candidate) (v : Value) (ha : WF a) (hb : WF b) :
    mem v (a.intersect b) = (mem v a && mem v b) :=
  mem_intersect' a b v ha hb

/-- Normalizing never changes which values a candidate contains. -/
theorem mem_normalize (a : Candidate) (v : Value) (ha : WF a) :
    mem v a.normalize = mem v a :=
  mem_normalize' a v ha

/-- Intersection preserves the `Range::new` invariant. -/
theorem wf_intersect (a b : Candidate) (ha : WF a) (hb : WF b) : WF (a.intersect b) :=
  wf_intersect' a b ha hb

/-- Normalization preserves the `Range::new` invariant. -/
theorem wf_normalize (a : Candidate) (ha : WF a) : WF a.normalize :=
  wf_normalize' a ha

/-- Exclusion preserves the `Range::new` invariant. -/
theorem wf_exclude (a : Candidate) (x : Value) (ha : WF a) : WF (a.exclude x) :=
  wf_exclude' a x ha

/-- Excluding a value yields a set contained in the original. -/
theorem exclude_sub (a : Candidate) (x v : Value) (ha : WF a)
    (h : mem v (a.exclude x) = true) : mem v a = true :=
  exclude_sub' a x v ha h

/-- Excluding a value keeps everything else the original contained. -/
theorem exclude_keeps (a : Candidate) (x v : Value) (ha : WF a)
    (h : mem v a = true) (hne : ¬ ((v == x) = true)) : mem v (a.exclude x) = true :=
  exclude_keeps' a x v ha h (by simpa [BEq.beq] using hne)

/-- For the discrete variant, exclusion is exact: the members that are not `==` the excluded value. -/
theorem exclude_multiple_exact (vs : List Value) (x v : Value) :
    mem v ((Candidate.multiple vs).exclude x) = (mem v (.multiple vs) && !(v == x)) :=
  mem_exclude_multiple vs x v

/-- The invariant is needed: the point range `[null, null]` without null (which `Range::new` refuses to
build) contains nothing, but normalizes to `Single(null)`. -/
theorem normalize_needs_wf :
    let r : Candidate := .range ⟨.included .null, .included .null, false⟩
    ¬ WF r ∧ mem .null r = false ∧ mem .null r.normalize = true := by
  decide

/-! ### Non-vacuity and corner cases (all evaluated on the model by the kernel) -/

-- `Single(Int64 5)` ∩ point range `[Uint64 5, Uint64 5]`: same number, different representations.
example : (Candidate.single (.int64 5)).intersect (.range ⟨.included (.uint64 5), .included (.uint64 5), false⟩)
    = .single (.int64 5) := by rfl
example : (Candidate.range ⟨.included (.uint64 5), .included (.uint64 5), false⟩).intersect (.single (.int64 5))
    = .single (.int64 5) := by rfl
-- a range whose included bounds are `==` but differently represented normalizes to the start's payload
example : (Candidate.range ⟨.included (.int64 5), .included (.uint64 5), true⟩).normalize
    = .multiple [.null, .int64 5] := by rfl
-- overlapping integer ranges across representations, beyond the signed range
example : (Candidate.range ⟨.included (.int64 (-1)), .excluded (.uint64 18446744073709551615), true⟩).intersect
      (.range ⟨.excluded (.uint64 9223372036854775807), .unbounded, false⟩)
    = .range ⟨.excluded (.uint64 9223372036854775807), .excluded (.uint64 18446744073709551615), false⟩ := by
  rfl
-- a string probe against integer bounds: cross-kind order; `(-∞, 7]` does not contain `"a"`, `[7, ∞)` does
example : mem (.string [97]) (.range ⟨.unbounded, .included (.int64 7), false⟩) = false := by decide
example : mem (.string [97]) (.range ⟨.included (.int64 7), .unbounded, false⟩) = true := by decide
-- excluding a value `==` to an included bound turns it into an excluded bound (own payload kept) …
example : (Candidate.range ⟨.included (.int64 1), .included (.int64 9), true⟩).exclude (.uint64 1)
    = .range ⟨.excluded (.int64 1), .included (.int64 9), true⟩ := by rfl
-- … excluding a value `==` to an *excluded* bound, or an interior value, changes nothing
example : (Candidate.range ⟨.excluded (.int64 1), .included (.int64 9), true⟩).exclude (.int64 1)
    = .range ⟨.excluded (.int64 1), .included (.int64 9), true⟩ := by rfl
example : (Candidate.range ⟨.included (.int64 1), .included (.int64 9), true⟩).exclude (.int64 5)
    = .range ⟨.included (.int64 1), .included (.int64 9), true⟩ := by rfl
-- excluding the only point of a point range (+null) leaves null alone; `All` only reacts to null
example : (Candidate.range ⟨.included (.int64 1), .included (.int64 1), true⟩).exclude (.int64 1)
    = .single .null := by rfl
example : Candidate.all.exclude (.int64 1) = .all := by rfl
example : Candidate.all.exclude .null = .range ⟨.unbounded, .unbounded, false⟩ := by rfl
-- `Multiple` with null and duplicates in mixed representations
example : (Candidate.multiple [.null, .int64 1, .uint64 1, .int64 2]).intersect
      (.range ⟨.unbounded, .excluded (.int64 2), true⟩)
    = .multiple [.null, .int64 1, .uint64 1] := by rfl
example : (Candidate.multiple [.null, .int64 1, .uint64 1]).exclude (.int64 1) = .single .null := by rfl
-- `Range::new` panics exactly on a null bound
example : Range.new (.excluded .null) .unbounded true = .panic := by rfl
example : WF (.range ⟨.excluded (.int64 0), .unbounded, true⟩) := by decide

end TF.C06

#print axioms TF.C06.range_new_wf
#print axioms TF.C06.mem_intersect
#print axioms TF.C06.mem_normalize
#print axioms TF.C06.wf_intersect
#print axioms TF.C06.wf_normalize
#print axioms TF.C06.wf_exclude
#print axioms TF.C06.exclude_sub
#print axioms TF.C06.exclude_keeps
#print axioms TF.C06.exclude_multiple_exact
#print axioms TF.C06.normalize_needs_wf
