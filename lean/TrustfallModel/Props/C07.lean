/-
C07 — Filter operators decide exactly their mathematical definition.

Statements are about the functions of `TF.Filter` (`Model/Filter.lean`), the branch-by-branch model
of `trustfall_core/src/interpreter/filtering.rs`: `equals`, the four comparison functions generated
by `make_comparison_op_func!` with their slow paths (`cmpFn op` is the function generated for the
operator token `op`), `has_prefix/has_suffix/has_substring`, `one_of`, `contains`, the two regex
paths, `is_null`, and the dispatch tables `applyStatic` / `applyTagged` (right operand from a query
variable / from a tag) in which the negated operators are formed with `not!`.

They hold for *all* values — every `Int64`/`UInt64` bit pattern (all 2^128 pairs), every byte
string, every nesting depth; floats are finite by construction (`float64 k` carries the
order-preserving key of a finite f64, ±0 identified).  The regex engine is a parameter `rx`.

Two statements are false of the code as it stands and are therefore proved in `_partial` form with
the defective inputs excluded by an explicit guard, together with witnesses of the failure:
`typed_no_panic` (F-5: ordering two list-typed operands reaches `unreachable!`; F-4: an invalid
regex in a query variable reaches `expect`).
-/
import TrustfallModel.Proofs.Filter

namespace TF.C07
open TF Value Filter

/-- The mathematical meaning of an operator token on an ordered type. -/
def holds {α : Type} [LT α] [LE α] [DecidableLT α] [DecidableLE α] (op : CmpOp) (a b : α) : Bool :=
  match op with
  | .gt => decide (a > b)
  | .ge => decide (a ≥ b)
  | .lt => decide (a < b)
  | .le => decide (a ≤ b)

/-! ### integers: numeric value decides, whatever the representation -/

/-- `<`, `<=`, `>`, `>=` on integer-kinded operands (signed or unsigned, in any combination,
including unsigned values beyond the signed range) return the comparison of the numeric values. -/
theorem ordering_int (op : CmpOp) (l r : Value) (x y : Int)
    (hl : numVal l = some x) (hr : numVal r = some y) :
    cmpFn op l r = .ok (holds op x y) := by
  rw [cmpFn_int op l r x y hl hr]; cases op <;> rfl

theorem lt_int (l r : Value) (x y : Int) (hl : numVal l = some x) (hr : numVal r = some y) :
    lessThan l r = .ok (decide (x < y)) := ordering_int .lt l r x y hl hr

theorem le_int (l r : Value) (x y : Int) (hl : numVal l = some x) (hr : numVal r = some y) :
    lessThanOrEqual l r = .ok (decide (x ≤ y)) := ordering_int .le l r x y hl hr

theorem gt_int (l r : Value) (x y : Int) (hl : numVal l = some x) (hr : numVal r = some y) :
    greaterThan l r = .ok (decide (x > y)) := ordering_int .gt l r x y hl hr

theorem ge_int (l r : Value) (x y : Int) (hl : numVal l = some x) (hr : numVal r = some y) :
    greaterThanOrEqual l r = .ok (decide (x ≥ y)) := ordering_int .ge l r x y hl hr

/-- `=` on integer-kinded operands is equality of the numeric values. -/
theorem eq_int (l r : Value) (x y : Int) (hl : numVal l = some x) (hr : numVal r = some y) :
    equals l r = decide (x = y) := equals_int l r x y hl hr

/-! ### strings and floats -/

/-- On strings the comparisons decide the lexicographic order of the UTF-8 bytes
(`List.lt` on `List UInt8`, which is `str`'s order). -/
theorem ordering_string (op : CmpOp) (a b : Bytes) :
    cmpFn op (.string a) (.string b) = .ok (holds op a b) := by
  rw [cmpFn_string, onOrdering_cmpBytes]; cases op <;> rfl

/-- On (finite) floats the comparisons decide the order of the keys, i.e. the numeric order with
`-0.0 = +0.0`. -/
theorem ordering_float (op : CmpOp) (a b : Int) :
    cmpFn op (.float64 a) (.float64 b) = .ok (holds op a b) := by
  rw [cmpFn_float]; cases op <;> rfl

/-- On two integers, two floats or two strings the comparison operators agree with the total
order `Value.cmp` of C08 (`impl PartialOrd for FieldValue`). -/
theorem ordering_agrees_with_value_order (op : CmpOp) (l r : Value) (h : SameOrderableKind l r) :
    cmpFn op l r = .ok (op.onOrdering (Value.cmp l r)) := cmpFn_eq_cmp op l r h

/-! ### null -/

/-- An ordering comparison with null on the left is false … -/
theorem ordering_null_left (op : CmpOp) (r : Value) : cmpFn op .null r = .ok false :=
  cmpFn_null_left op r

/-- … and with null on the right (whatever the other operand is, even a list). -/
theorem ordering_null_right (op : CmpOp) (l : Value) : cmpFn op l .null = .ok false :=
  cmpFn_null_right op l

/-- Equality is null-safe: `null = null` … -/
theorem equals_null_null : equals .null .null = true := by decide

/-- … and null equals nothing else. -/
theorem equals_null_left (x : Value) (h : x ≠ .null) : equals .null x = false := by
  cases x <;> simp_all [equals, disc]

theorem equals_null_right (x : Value) (h : x ≠ .null) : equals x .null = false := by
  cases x <;> simp_all [equals, disc]

/-! ### `equals` is the equality of C08 -/

/-- `filtering::equals` (a separate implementation with its own fast path, list recursion and
integer conversions) agrees with `impl PartialEq for FieldValue` on all values, including nested
lists that mix integer representations.  Hence it is an equivalence relation (C08), numeric on
integers, structural on lists. -/
theorem equals_eq_value_eq (a b : Value) : equals a b = (a == b) := equals_eq_beq a b

/-! ### negated operators -/

/-- The positive form of each negated operator (`none` for operators that are not negations). -/
def positive : BinOp → Option BinOp
  | .notEquals => some .equals
  | .notContains => some .contains
  | .notOneOf => some .oneOf
  | .notHasPrefix => some .hasPrefix
  | .notHasSuffix => some .hasSuffix
  | .notHasSubstring => some .hasSubstring
  | .notRegexMatches => some .regexMatches
  | _ => none

/-- Every negated operator is the exact complement of its positive form, on both argument paths:
it panics exactly where the positive form does and otherwise returns the negated answer. -/
theorem neg_is_complement (rx : RegexEngine) (path : ArgPath) (op pos : BinOp) (l r : Value)
    (h : positive op = some pos) :
    applyBinary rx path op l r = (applyBinary rx path pos l r).map (!·) := by
  cases path <;> cases op <;> simp [positive] at h <;> subst h <;> (try rfl)
  -- static regex: the pattern is compiled first on both sides
  simp only [applyBinary, applyStatic]
  cases compileStaticRegex rx r <;> rfl

/-- For instance `!=` on integers of either representation, on either argument path, is
inequality of the numeric values. -/
theorem neq_int (rx : RegexEngine) (path : ArgPath) (l r : Value) (x y : Int)
    (hl : numVal l = some x) (hr : numVal r = some y) :
    applyBinary rx path .notEquals l r = .ok (decide (x ≠ y)) := by
  rw [neg_is_complement rx path .notEquals .equals l r rfl]
  cases path <;>
    simp [applyBinary, applyStatic, applyTagged, equalsOp, Outcome.map, eq_int l r x y hl hr]

/-- Outside the two regex operations both dispatch tables (variable argument / tag argument) select
the same operator function. -/
theorem paths_agree (rx : RegexEngine) (op : BinOp) (l r : Value) (h : op.isRegex = false) :
    applyBinary rx .static op l r = applyBinary rx .tagged op l r := by
  cases op <;> simp [BinOp.isRegex] at h <;> rfl

/-- `is_not_null` is the complement of `is_null`. -/
theorem is_not_null_is_complement (v : Value) : applyUnary .isNotNull v = !applyUnary .isNull v :=
  rfl

/-- `is_null` holds exactly of null. -/
theorem is_null_spec (v : Value) : applyUnary .isNull v = true ↔ v = .null := by
  cases v <;> simp [applyUnary, isNull]

/-! ### collections -/

/-- `one_of` against a list: some element is equal (`==`, the equality of C08) to the left
operand. -/
theorem one_of_list (x : Value) (v : List Value) :
    oneOf x (.list v) = .ok (v.any fun a => x == a) := by
  simp [oneOf, oneOfLoop_eq_any]

theorem one_of_singleton (x a : Value) : oneOf x (.list [a]) = .ok (x == a) := by
  rw [one_of_list]; simp

/-- … equivalently, with `filtering::equals`. -/
theorem one_of_singleton_equals (x a : Value) : oneOf x (.list [a]) = .ok (equals x a) := by
  rw [one_of_singleton, equals_eq_value_eq]

/-- `one_of` against null is false. -/
theorem one_of_null (x : Value) : oneOf x .null = .ok false := rfl

/-- `contains` is `one_of` with the operands exchanged. -/
theorem contains_eq_one_of (l x : Value) : Filter.contains l x = oneOf x l := rfl

/-! ### string operators -/

/-- `has_prefix`: the right operand's bytes are a prefix of the left operand's. -/
theorem has_prefix_spec (l r : Bytes) : hasPrefix (.string l) (.string r) = .ok (decide (r <+: l)) := by
  simp only [hasPrefix, stringOp]; congr 1
  rw [Bool.eq_iff_iff, List.isPrefixOf_iff_prefix, decide_eq_true_iff]

/-- `has_suffix`: … a suffix. -/
theorem has_suffix_spec (l r : Bytes) : hasSuffix (.string l) (.string r) = .ok (decide (r <:+ l)) := by
  simp only [hasSuffix, stringOp]; congr 1
  rw [Bool.eq_iff_iff, List.isSuffixOf_iff_suffix, decide_eq_true_iff]

/-- `has_substring`: … a contiguous sublist (`∃ s t, l = s ++ r ++ t`). -/
theorem has_substring_spec (l r : Bytes) :
    hasSubstring (.string l) (.string r) = .ok (decide (r <:+: l)) := by
  simp only [hasSubstring, stringOp]; congr 1
  rw [Bool.eq_iff_iff, isInfixOf_iff, decide_eq_true_iff]

/-- The string operators (and the tag-path regex) are false as soon as an operand is null, for
string-typed operands. -/
theorem string_op_null (f : Bytes → Bytes → Bool) (l r : Value)
    (hl : isStringOrNull l = true) (hr : isStringOrNull r = true) (hn : l = .null ∨ r = .null) :
    stringOp f l r = .ok false := by
  cases l <;> simp [isStringOrNull] at hl <;> cases r <;> simp [isStringOrNull] at hr <;>
    simp_all [stringOp]

/-! ### regex -/

/-- Tag path, pattern compiles: the engine's answer. -/
theorem regex_slow_valid (rx : RegexEngine) (l r : Bytes) (m : Bytes → Bool) (h : rx r = some m) :
    applyTagged rx .regexMatches (.string l) (.string r) = .ok (m l) := by
  simp [applyTagged, regexMatchesSlowPath, stringOp, h]

/-- Tag path, pattern does not compile: "does not match". -/
theorem regex_slow_invalid (rx : RegexEngine) (l r : Bytes) (h : rx r = none) :
    applyTagged rx .regexMatches (.string l) (.string r) = .ok false := by
  simp [applyTagged, regexMatchesSlowPath, stringOp, h]

/-- Variable path, pattern compiles: the engine's answer on a string, false on null. -/
theorem regex_opt_valid (rx : RegexEngine) (l r : Bytes) (m : Bytes → Bool) (h : rx r = some m) :
    applyStatic rx .regexMatches (.string l) (.string r) = .ok (m l) ∧
      applyStatic rx .regexMatches .null (.string r) = .ok false := by
  simp [applyStatic, compileStaticRegex, h, Outcome.bind, regexMatchesOptimized]

/-- F-4, in general: on the variable path a pattern that does not compile panics, whatever the
left operand is (`Regex::new(..).expect("regex argument was not a valid regex")`, l. 460/466). -/
theorem regex_opt_invalid_panics (rx : RegexEngine) (l : Value) (r : Bytes) (h : rx r = none) :
    applyStatic rx .regexMatches l (.string r) = .panic ∧
      applyStatic rx .notRegexMatches l (.string r) = .panic := by
  simp [applyStatic, compileStaticRegex, h, Outcome.bind]

/-! ### typed operand pairs never reach an `unreachable!` — except … -/

/-- F-5, in general: every ordering comparison of two lists panics (`unreachable!` at the end of
the slow path), although `Type::is_orderable` admits list types and documents a lexicographic
order for them. -/
theorem list_ordering_panics (op : CmpOp) (a b : List Value) :
    cmpFn op (.list a) (.list b) = .panic := by
  cases op <;> rfl

/-
Full statement (FALSE of the code today, see the two witnesses below):

  theorem typed_no_panic (rx) (path) (op) (l r) (ht : Typed path op l r) :
      applyBinary rx path op l r ≠ .panic
-/

/-- For operand pairs admitted by the frontend's typing (`Typed`, the value-kind content of
`operand_types_valid`: any pair for `=`/`!=`; both operands of one orderable type for the ordering
operators; a list or null on the collection side of `contains`/`one_of`; strings or null for the
string and regex operators, a non-null string for a regex variable) no operator panics —
*provided* the two operands of an ordering operator are not both lists (F-5) and the pattern of a
regex variable compiles (F-4). -/
theorem typed_no_panic_partial (rx : RegexEngine) (path : ArgPath) (op : BinOp) (l r : Value)
    (ht : Typed path op l r)
    (hF5 : op.isOrdering = true → ¬ (isList l = true ∧ isList r = true))
    (hF4 : path = .static → op.isRegex = true → patternCompiles rx r) :
    applyBinary rx path op l r ≠ .panic := by
  have ord : ∀ cop, TypedOrdering l r → ¬ (isList l = true ∧ isList r = true) →
      cmpFn cop l r ≠ .panic := by
    intro cop ⟨base, d, hl, hr⟩ hg
    cases d with
    | zero => exact cmpFn_no_panic_of_scalar cop l r base hl hr
    | succ d =>
      cases l <;> simp [inhabits] at hl
      · rw [cmpFn_null_left]; simp
      · cases r <;> simp [inhabits] at hr
        · rw [cmpFn_null_right]; simp
        · simp [isList] at hg
  have staticRx : isStringOrNull l = true → (∃ s, r = .string s) → patternCompiles rx r →
      ((compileStaticRegex rx r).bind fun p => regexMatchesOptimized p l) ≠ .panic ∧
      ((compileStaticRegex rx r).bind fun p => (regexMatchesOptimized p l).map (!·)) ≠ .panic := by
    intro hl ⟨s, hs⟩ hc
    subst hs
    simp only [patternCompiles, Option.isSome_iff_exists] at hc
    obtain ⟨m, hm⟩ := hc
    cases l <;> simp [isStringOrNull] at hl <;>
      simp [compileStaticRegex, hm, Outcome.bind, regexMatchesOptimized, Outcome.map]
  have okNe : ∀ b : Bool, Outcome.ok b ≠ .panic := fun _ => nofun
  cases path <;> cases op <;> simp only [Typed] at ht <;>
    simp only [applyBinary, applyStatic, applyTagged, notOp, equalsOp, Filter.contains,
      hasPrefix, hasSuffix, hasSubstring, regexMatchesSlowPath]
  all_goals first
    | exact okNe _
    | exact map_ne_panic _ _ (okNe _)
    | exact ord .lt ht (hF5 rfl)
    | exact ord .le ht (hF5 rfl)
    | exact ord .gt ht (hF5 rfl)
    | exact ord .ge ht (hF5 rfl)
    | exact oneOf_no_panic _ _ ht
    | exact map_ne_panic _ _ (oneOf_no_panic _ _ ht)
    | exact stringOp_no_panic _ _ _ ht.1 ht.2
    | exact map_ne_panic _ _ (stringOp_no_panic _ _ _ ht.1 ht.2)
    | exact (staticRx ht.1 ht.2 (hF4 rfl rfl)).1
    | exact (staticRx ht.1 ht.2 (hF4 rfl rfl)).2

/-- F-5 witness: `[1] < [2]` on `[Int]`-typed operands is admitted by the typing and panics. -/
theorem typed_no_panic_list_ordering_witness :
    inhabits .int 1 (.list [.int64 1]) = true ∧ inhabits .int 1 (.list [.int64 2]) = true ∧
      applyBinary (fun _ => none) .tagged .lessThan (.list [.int64 1]) (.list [.int64 2])
        = .panic := by
  decide

/-- F-4 witness: the pattern `[` (byte 0x5b), which the engine rejects, in a query variable
panics the `=~` filter even on a null left operand. -/
theorem typed_no_panic_invalid_regex_witness :
    let rx : RegexEngine := fun p => if p = [0x5b] then none else some fun _ => true
    applyBinary rx .static .regexMatches (.string [0x61]) (.string [0x5b]) = .panic ∧
      applyBinary rx .static .regexMatches .null (.string [0x5b]) = .panic ∧
      applyBinary rx .tagged .regexMatches (.string [0x61]) (.string [0x5b]) = .ok false := by
  decide

/-! ### the filter stage is stateless: a stream of contexts is decided pair by pair

`filterStream rx path op ps` models ONE call of `apply_filter_with_tagged_argument_value` /
`apply_filter_with_static_argument_value` over all the contexts `ps` of a query (each a left value
with its right operand, `none` for `TaggedValue::NonexistentOptional`).  The statements below are
easy *on the model*; their point is the correspondence: the harness pushes whole streams through
one call of the real stage (`verif_hooks::apply_tagged_stream` / `apply_static_stream`) and the
answers are diffed against `taggedStreamAnswer` / `staticStreamAnswer`, so an implementation that
carries anything from one context to the next (a cached compiled regex, a remembered right
operand, a counter) disagrees with a model that provably cannot. -/

/-- Position-independence: the decision the stage takes for the `i`-th context of a stream is the
per-pair decision (`applyBinary` on that context's own `(left, right)`; "pass" for a tag from a
nonexistent `@optional` scope) of the `i`-th pair and of nothing else. -/
theorem filterStream_get (rx : RegexEngine) (path : ArgPath) (op : BinOp) (ps : List StreamPair)
    (i : Nat) :
    (filterStream rx path op ps)[i]? = ps[i]?.map (pairDecision rx path op) := by
  simp [filterStream]

/-- Running one stage over `a ++ b` is running it over `a` and over `b`: nothing the stage saw in
`a` reaches `b`. -/
theorem filterStream_append (rx : RegexEngine) (path : ArgPath) (op : BinOp)
    (a b : List StreamPair) :
    filterStream rx path op (a ++ b) = filterStream rx path op a ++ filterStream rx path op b := by
  simp [filterStream]

/-- Statelessness, spelled out: whatever contexts went through the stage `before` (and whatever come
`after`), the context `p` is decided as if it were alone. -/
theorem filterStream_stateless (rx : RegexEngine) (path : ArgPath) (op : BinOp)
    (before after : List StreamPair) (p : StreamPair) :
    (filterStream rx path op (before ++ p :: after))[before.length]?
      = some (pairDecision rx path op p) := by
  simp [filterStream]

/-- A tag from an `@optional` scope that does not exist lets the context through, whatever the
operator and the left value ("all comparisons against it should succeed"). -/
theorem nonexistent_optional_passes (rx : RegexEngine) (path : ArgPath) (op : BinOp) (l : Value) :
    pairDecision rx path op (l, none) = .ok true := rfl

/-- With an existing right operand the per-context decision *is* the function all the theorems
above are about. -/
theorem pairDecision_some (rx : RegexEngine) (path : ArgPath) (op : BinOp) (l r : Value) :
    pairDecision rx path op (l, some r) = applyBinary rx path op l r := rfl

/-- The drained answer is a list of bits exactly when every context was decided without panic, and
then it is those decisions in order. -/
theorem collect_ok_iff (os : List (Outcome Bool)) (bs : List Bool) :
    collectDecisions os = .ok bs ↔ os = bs.map .ok := by
  induction os generalizing bs with
  | nil => cases bs <;> simp [collectDecisions]
  | cons o rest ih =>
    cases o with
    | panic => cases bs <;> simp [collectDecisions]
    | ok b =>
      cases h : collectDecisions rest with
      | panic =>
        simp only [collectDecisions, h, Outcome.map]
        constructor
        · intro hc; cases hc
        · intro hc
          cases bs with
          | nil => simp at hc
          | cons b' bs' =>
            simp at hc
            have := (ih bs').mpr hc.2
            rw [h] at this; cases this
      | ok cs =>
        simp only [collectDecisions, h, Outcome.map]
        have hcs := (ih cs).mp h
        constructor
        · intro hc
          cases hc
          simp [hcs]
        · intro hc
          cases bs with
          | nil => simp at hc
          | cons b' bs' =>
            simp at hc
            obtain ⟨hb, hr⟩ := hc
            have := (ih bs').mpr hr
            rw [h] at this
            cases this
            subst hb
            rfl

/-- The drained answer is `panic` exactly when some context's decision panics. -/
theorem collect_panic_iff (os : List (Outcome Bool)) :
    collectDecisions os = .panic ↔ Outcome.panic ∈ os := by
  induction os with
  | nil => simp [collectDecisions]
  | cons o rest ih =>
    cases o with
    | panic => simp [collectDecisions]
    | ok b =>
      cases h : collectDecisions rest with
      | panic => simp [collectDecisions, h, Outcome.map, ih.mp h]
      | ok cs =>
        have : ¬ Outcome.panic ∈ rest := fun hm => by rw [ih.mpr hm] at h; cases h
        simp [collectDecisions, h, Outcome.map, this]

/-- The answer of `apply_tagged_stream` is `bits` iff, position by position, the per-pair decision
is `ok` of that bit. -/
theorem tagged_stream_ok_iff (rx : RegexEngine) (op : BinOp) (ps : List StreamPair)
    (bits : List Bool) :
    taggedStreamAnswer rx op ps = .ok bits ↔
      ps.map (pairDecision rx .tagged op) = bits.map .ok :=
  collect_ok_iff _ _

/-- … and it panics iff some pair on its own panics. -/
theorem tagged_stream_panic_iff (rx : RegexEngine) (op : BinOp) (ps : List StreamPair) :
    taggedStreamAnswer rx op ps = .panic ↔ ∃ p ∈ ps, pairDecision rx .tagged op p = .panic := by
  simp [taggedStreamAnswer, collect_panic_iff, filterStream]

/-- Variable path: although the two regex operations compile their pattern once, before the first
context, the drained answer of the stage over a non-empty stream (any stream, for the other
operations) is the pointwise per-pair decision `applyBinary rx .static op l r`. -/
theorem static_stream_eq_pairwise (rx : RegexEngine) (op : BinOp) (r : Value) (lefts : List Value)
    (h : lefts ≠ [] ∨ op.isRegex = false) :
    staticStreamAnswer rx op r lefts
      = collectDecisions (filterStream rx .static op (lefts.map fun l => (l, some r))) := by
  have hmap : ∀ f : Value → Outcome Bool,
      (∀ l, f l = applyStatic rx op l r) →
      collectDecisions (lefts.map f)
        = collectDecisions (filterStream rx .static op (lefts.map fun l => (l, some r))) := by
    intro f hf
    have hf' : f = fun l => applyStatic rx op l r := funext hf
    subst hf'
    simp [filterStream, List.map_map, Function.comp_def, pairDecision, applyBinary]
  cases op
  case regexMatches | notRegexMatches =>
    simp only [staticStreamAnswer]
    cases hc : compileStaticRegex rx r with
    | ok p =>
      simp only [Outcome.bind]
      apply hmap
      intro l
      simp [applyStatic, hc, Outcome.bind]
    | panic =>
      simp only [Outcome.bind]
      cases lefts with
      | nil => simp [BinOp.isRegex] at h
      | cons l ls =>
        simp [filterStream, pairDecision, applyBinary, applyStatic, hc, Outcome.bind,
          collectDecisions]
  all_goals
    simp only [staticStreamAnswer]
    exact hmap _ (fun _ => rfl)

/-- The excluded case is real (F-4 again): with a pattern that does not compile the variable-path
stage panics while it is built, even when there is no context to filter, whereas the pointwise
reading of an empty stream is the empty answer. -/
theorem static_stream_empty_invalid_regex_panics (rx : RegexEngine) (r : Bytes) (h : rx r = none) :
    staticStreamAnswer rx .regexMatches (.string r) [] = .panic ∧
      staticStreamAnswer rx .notRegexMatches (.string r) [] = .panic ∧
      collectDecisions (filterStream rx .static .regexMatches []) = .ok [] := by
  simp [staticStreamAnswer, compileStaticRegex, h, Outcome.bind, filterStream, collectDecisions]

/-- Non-vacuity, and the shape of the seeded change C07-2 ("reuse the last compiled regex"): in one
stream the pattern `a` (matches `a`), then the invalid pattern `(`, then a nonexistent-optional tag,
then `a` again against `b`: the model answers match / no match / pass / no match — a stage that
kept the compiled `a` for the invalid pattern would answer match in second place. -/
theorem stream_stale_pattern_witness :
    let rx : RegexEngine := fun p => if p = [0x28] then none else some fun h => h == p
    taggedStreamAnswer rx .regexMatches
        [(.string [0x61], some (.string [0x61])), (.string [0x61], some (.string [0x28])),
         (.string [0x61], none), (.string [0x62], some (.string [0x61]))]
      = .ok [true, false, true, false] ∧
    taggedStreamAnswer rx .notRegexMatches
        [(.string [0x61], some (.string [0x61])), (.string [0x61], some (.string [0x28]))]
      = .ok [false, true] := by
  decide

/-! Non-vacuity: the statements apply to mixed representations beyond the signed range, to nested
lists mixing representations, and the typing predicate has inhabitants on which nothing panics. -/
example : lessThan (.int64 (-1)) (.uint64 18446744073709551615) = .ok true := by decide
example : greaterThanOrEqual (.uint64 9223372036854775808) (.int64 9223372036854775807) = .ok true := by
  decide
example : numVal (.uint64 18446744073709551615) = some 18446744073709551615 := by decide
example : equals (.list [.int64 1, .list [.uint64 2]]) (.list [.uint64 1, .list [.int64 2]]) = true := by
  decide
example : equals (.list [.int64 1]) (.list [.int64 1, .int64 1]) = false := by decide
example : TypedOrdering (.int64 1) (.uint64 2) := ⟨.int, 0, by decide, by decide⟩
example : hasSubstring (.string [1, 2, 3]) (.string [2, 3]) = .ok true := by decide
example : oneOf (.uint64 1) (.list [.null, .int64 1]) = .ok true := by decide

end TF.C07

#print axioms TF.C07.ordering_int
#print axioms TF.C07.lt_int
#print axioms TF.C07.le_int
#print axioms TF.C07.gt_int
#print axioms TF.C07.ge_int
#print axioms TF.C07.eq_int
#print axioms TF.C07.ordering_string
#print axioms TF.C07.ordering_float
#print axioms TF.C07.ordering_agrees_with_value_order
#print axioms TF.C07.ordering_null_left
#print axioms TF.C07.ordering_null_right
#print axioms TF.C07.equals_null_null
#print axioms TF.C07.equals_null_left
#print axioms TF.C07.equals_null_right
#print axioms TF.C07.equals_eq_value_eq
#print axioms TF.C07.neg_is_complement
#print axioms TF.C07.neq_int
#print axioms TF.C07.paths_agree
#print axioms TF.C07.is_not_null_is_complement
#print axioms TF.C07.is_null_spec
#print axioms TF.C07.one_of_list
#print axioms TF.C07.one_of_singleton
#print axioms TF.C07.one_of_singleton_equals
#print axioms TF.C07.one_of_null
#print axioms TF.C07.contains_eq_one_of
#print axioms TF.C07.has_prefix_spec
#print axioms TF.C07.has_suffix_spec
#print axioms TF.C07.has_substring_spec
#print axioms TF.C07.string_op_null
#print axioms TF.C07.regex_slow_valid
#print axioms TF.C07.regex_slow_invalid
#print axioms TF.C07.regex_opt_valid
#print axioms TF.C07.regex_opt_invalid_panics
#print axioms TF.C07.list_ordering_panics
#print axioms TF.C07.typed_no_panic_partial
#print axioms TF.C07.typed_no_panic_list_ordering_witness
#print axioms TF.C07.typed_no_panic_invalid_regex_witness
#print axioms TF.C07.filterStream_get
#print axioms TF.C07.filterStream_append
#print axioms TF.C07.filterStream_stateless
#print axioms TF.C07.nonexistent_optional_passes
#print axioms TF.C07.pairDecision_some
#print axioms TF.C07.collect_ok_iff
#print axioms TF.C07.collect_panic_iff
#print axioms TF.C07.tagged_stream_ok_iff
#print axioms TF.C07.tagged_stream_panic_iff
#print axioms TF.C07.static_stream_eq_pairwise
#print axioms TF.C07.static_stream_empty_invalid_regex_panics
#print axioms TF.C07.stream_stale_pattern_witness
