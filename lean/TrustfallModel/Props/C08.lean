/-
C08 — Field values form a consistent equality and total order.

Statements are about `TF.Value.beq` / `TF.Value.cmp`, the model of `impl PartialEq/PartialOrd for
FieldValue` (trustfall_core/src/ir/value.rs).  They hold for *all* values: every `Int64`/`UInt64`
bit pattern, every byte string, every nesting depth; floats are finite by construction of the model
(`float64 k` carries the order-preserving key of a finite f64).
-/
import TrustfallModel.Proofs.ValueOrder

namespace TF.C08
open TF Value

/-- Equality is reflexive. -/
theorem eq_refl (a : Value) : (a == a) = true :=
  (cmp_eq_iff_beq a a).mp (Std.ReflCmp.compare_self (cmp := cmp))

/-- Equality is symmetric. -/
theorem eq_symm (a b : Value) : (a == b) = (b == a) := by
  have h1 := cmp_eq_iff_beq a b
  have h2 := cmp_eq_iff_beq b a
  have h3 := cmp_swap a b
  show beq a b = beq b a
  cases hab : beq a b <;> cases hba : beq b a <;> simp_all

/-- Equality is transitive. -/
theorem eq_trans {a b c : Value} (h1 : (a == b) = true) (h2 : (b == c) = true) : (a == c) = true :=
  (cmp_eq_iff_beq a c).mp
    (Std.TransCmp.eq_trans ((cmp_eq_iff_beq a b).mpr h1) ((cmp_eq_iff_beq b c).mpr h2))

/-- The order is total and antisymmetric: comparing the other way round gives the mirrored answer
(in particular exactly one of `<`, `==`, `>` holds). -/
theorem cmp_antisymm (a b : Value) : cmp b a = (cmp a b).swap := cmp_swap b a

/-- `<` is transitive. -/
theorem lt_trans {a b c : Value} (h1 : cmp a b = .lt) (h2 : cmp b c = .lt) : cmp a c = .lt :=
  Std.TransCmp.lt_trans h1 h2

/-- `≤` is transitive. -/
theorem le_trans {a b c : Value} (h1 : cmp a b ≠ .gt) (h2 : cmp b c ≠ .gt) : cmp a c ≠ .gt := by
  have := cmp_isLE_trans (a := a) (b := b) (c := c)
  revert this h1 h2
  cases cmp a b <;> cases cmp b c <;> cases cmp a c <;> simp [Ordering.isLE]

/-- The order agrees with equality. -/
theorem cmp_eq_iff (a b : Value) : cmp a b = .eq ↔ (a == b) = true := cmp_eq_iff_beq a b

/-- Equal values are indistinguishable by the order (congruence). -/
theorem cmp_congr_left {a b : Value} (h : (a == b) = true) (c : Value) : cmp a c = cmp b c :=
  Std.TransCmp.congr_left ((cmp_eq_iff_beq a b).mpr h)

/-- On integers of either representation the order is numeric order … -/
theorem cmp_int (a b : Value) (x y : Int) (ha : numVal a = some x) (hb : numVal b = some y) :
    cmp a b = compare x y := by
  cases a <;> simp [numVal] at ha <;> cases b <;> simp [numVal] at hb <;> subst ha hb
  · simp [cmp]
  · simp [cmp, cmpI64U64_num]
  · simp only [cmp, cmpI64U64_num, Int.compare_swap]
  · simp [cmp, natCompare_cast]

/-- … and equality is numeric equality (signed and unsigned with the same value are equal). -/
theorem eq_int (a b : Value) (x y : Int) (ha : numVal a = some x) (hb : numVal b = some y) :
    (a == b) = true ↔ x = y := by
  rw [← cmp_eq_iff, cmp_int a b x y ha hb, Int.compare_eq_eq]

/-- Across kinds the order is the fixed kind order `null < integers < float < string < boolean <
enum < list`. -/
theorem cmp_cross_kind {a b : Value} (h : cls a ≠ cls b) : cmp a b = compare (cls a) (cls b) :=
  cmp_of_cls_ne h

/-! Non-vacuity: the statements apply to mixed representations beyond the signed range and to
nested lists. -/
example : cmp (.int64 (-1)) (.uint64 18446744073709551615) = .lt := by decide
example : (Value.list [.int64 1, .list [.uint64 2]] == Value.list [.uint64 1, .list [.int64 2]]) = true := by
  decide
example : numVal (.uint64 9223372036854775808) = some 9223372036854775808 := by decide

end TF.C08

#print axioms TF.C08.eq_refl
#print axioms TF.C08.eq_symm
#print axioms TF.C08.eq_trans
#print axioms TF.C08.cmp_antisymm
#print axioms TF.C08.lt_trans
#print axioms TF.C08.le_trans
#print axioms TF.C08.cmp_eq_iff
#print axioms TF.C08.cmp_congr_left
#print axioms TF.C08.cmp_int
#print axioms TF.C08.eq_int
#print axioms TF.C08.cmp_cross_kind
