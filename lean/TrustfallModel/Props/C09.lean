/-
C09 — "Executing an accepted query never panics. If the frontend accepts a query and the engine
accepts the argument values, running it against an adapter that honours the adapter contract never
panics; it either yields rows or ends."

Full statement (FALSE on the engine):

  exec_no_panic : WFq ir → SchemaOK S ir → ArgsOK ir args → Conforms S D →
                  ∀ s, interpret (Env.ofData D args) ir ≠ .panic s

`interpret` (Model/Interp.lean) has one `R.panic site` for every `expect / unwrap / index /
unreachable! / assert!` of `execution.rs`, `filtering.rs` and the context bookkeeping of
`interpreter/mod.rs` that the input can reach.  Two trigger classes reach one (each with a witness
theorem on a small world that is also confirmed on the real engine, corpus/C09.cases):
  F-4  `regex` filter whose variable holds a pattern that does not compile   (`exec_panics_F4`)
  F-5  ordering operator on list-typed operands (`is_orderable` accepts lists) (`exec_panics_F5`)

`exec_no_panic_partial`: under the decidable guard `NoKnownTrigger D ir args` (no regex filter whose
variable's argument does not compile; no ordering filter on a list-typed left operand) no panic
site of the model is reachable — for the whole IR language of the model (optional, folds, nested
folds, folds with count filters inside missing optional scopes, recursion with implicit coercion,
imported tags).  `exec_panic_site`: without the guard, the only reachable sites are the two known
ones.

HISTORY.  There used to be four trigger classes.  Two were fixed in the engine; their sites, guard
clauses and witness theorems (`exec_panics_F9`, `exec_panics_F10`) are gone:
  F-9  fold-count filter on a fold inside a missing @optional: `apply_fold_specific_filter` hit
       `unreachable!`; it now pushes `Null` and runs the ordinary filter stage (a context without
       active vertex passes).  The site no longer exists; that the new branch is safe is part of the
       invariant proof (`applyPostFilter_safe`: slot `None` ⇒ no active vertex).
  F-10 the same tag used twice inside one fold → duplicate entry in the fold's `imported_tags` → the
       second `imported_tags.remove(..).unwrap()` failed.  The frontend now de-duplicates, so "no tag
       imported twice by one fold" is a clause of the structural well-formedness `WFq`
       (`tagKeysDistinct` in `stageWf`), and under `WFq` the `remove(..).unwrap()` site is unreachable.
The two old witness worlds are kept as regressions (`Witness.F9`, `Witness.F10`, examples at the end):
they now satisfy all five hypotheses and run to rows.
-/
import TrustfallModel.Proofs.InterpInvMain
import TrustfallModel.Proofs.InterpInvWitness
import TrustfallModel.Proofs.FrontendBridge

namespace TF.C09
open TF TF.Engine
open TF.Frontend (SchemaView)

/-- Under the guard, executing an accepted query on a conforming dataset never panics. -/
theorem exec_no_panic_partial (S : SchemaView) (D : Data) (ir : IRQuery) (args : List (Name × Value))
    (hwf : WFq ir = true) (hso : SchemaOK S ir = true) (hargs : ArgsOK ir args = true)
    (hconf : Conforms S D = true) (hnt : NoKnownTrigger D ir args = true) :
    ∀ s, interpret (Env.ofData D args) ir ≠ .panic s := by
  intro s h
  have hs := (exec_safe S D ir args True hwf hso hargs hconf (fun _ => hnt)).2
  rw [h] at hs
  exact hs.2 trivial

/-- … it either yields rows or ends (the fuel outcome is the model's bound on fold nesting, 64
levels; the frontend's queries nest a handful). -/
theorem exec_rows_or_fuel (S : SchemaView) (D : Data) (ir : IRQuery) (args : List (Name × Value))
    (hwf : WFq ir = true) (hso : SchemaOK S ir = true) (hargs : ArgsOK ir args = true)
    (hconf : Conforms S D = true) (hnt : NoKnownTrigger D ir args = true) :
    (∃ rows, interpret (Env.ofData D args) ir = .ok rows) ∨
      interpret (Env.ofData D args) ir = .fuel := by
  cases h : interpret (Env.ofData D args) ir with
  | ok rows => exact Or.inl ⟨rows, rfl⟩
  | fuel => exact Or.inr rfl
  | panic s => exact absurd h (exec_no_panic_partial S D ir args hwf hso hargs hconf hnt s)

/-- Without the guard: the only panic sites an accepted query can reach are the two known ones
(`knownSite`: "regex argument was not a valid regex" — F-4, "filter operator: unreachable!" — F-5),
and then a known trigger is present. -/
theorem exec_panic_site (S : SchemaView) (D : Data) (ir : IRQuery) (args : List (Name × Value))
    (hwf : WFq ir = true) (hso : SchemaOK S ir = true) (hargs : ArgsOK ir args = true)
    (hconf : Conforms S D = true) (s : String)
    (h : interpret (Env.ofData D args) ir = .panic s) :
    knownSite s = true ∧ NoKnownTrigger D ir args = false := by
  have hs := (exec_safe S D ir args (NoKnownTrigger D ir args = true) hwf hso hargs hconf id).2
  rw [h] at hs
  exact ⟨hs.1, by simpa using hs.2⟩

/-! ### the full statement is false: one witness per (remaining) trigger class -/

theorem exec_panics_F4 : ∃ S D ir args, WFq ir = true ∧ SchemaOK S ir = true ∧
    ArgsOK ir args = true ∧ Conforms S D = true ∧
    interpret (Env.ofData D args) ir = .panic "regex argument was not a valid regex" :=
  ⟨_, _, _, _, Witness.F4.hyps.1, Witness.F4.hyps.2.1, Witness.F4.hyps.2.2.1,
    Witness.F4.hyps.2.2.2, Witness.F4.panics⟩

theorem exec_panics_F5 : ∃ S D ir args, WFq ir = true ∧ SchemaOK S ir = true ∧
    ArgsOK ir args = true ∧ Conforms S D = true ∧
    interpret (Env.ofData D args) ir = .panic "filter operator: unreachable!" :=
  ⟨_, _, _, _, Witness.F5.hyps.1, Witness.F5.hyps.2.1, Witness.F5.hyps.2.2.1,
    Witness.F5.hyps.2.2.2, Witness.F5.panics⟩

theorem exec_no_panic_full_false :
    ¬ (∀ (S : SchemaView) (D : Data) (ir : IRQuery) (args : List (Name × Value)),
        WFq ir = true → SchemaOK S ir = true → ArgsOK ir args = true → Conforms S D = true →
        ∀ s, interpret (Env.ofData D args) ir ≠ .panic s) := by
  intro h
  obtain ⟨S, D, ir, args, h1, h2, h3, h4, hp⟩ := exec_panics_F4
  exact h S D ir args h1 h2 h3 h4 _ hp

/-- the guard is necessary in each of its two clauses -/
example : NoKnownTrigger Witness.F4.D Witness.F4.ir Witness.F4.args = false := Witness.F4.trigger
example : NoKnownTrigger Witness.F5.D Witness.F5.ir Witness.F5.args = false := Witness.F5.trigger

/-- the two sites are exactly these -/
example : knownSite "regex argument was not a valid regex" = true ∧
    knownSite "filter operator: unreachable!" = true ∧
    knownSite "while applying fold-specific filter, the @fold turned out to not exist: unreachable!"
      = false ∧
    knownSite "imported_tags.remove(..).unwrap()" = false := by decide +kernel

/-! ### regressions of the two fixed defects (non-vacuity: all five hypotheses hold, rows come out) -/

/-- F-9: the world that used to hit `unreachable!` (count filter on a fold below a missing
`@optional` vertex) satisfies every hypothesis — the guard no longer excludes it — and yields its
row. -/
example : WFq Witness.F9.ir = true ∧ SchemaOK Witness.F9.S Witness.F9.ir = true ∧
    ArgsOK Witness.F9.ir Witness.F9.args = true ∧ Conforms Witness.F9.S Witness.F9.D = true ∧
    NoKnownTrigger Witness.F9.D Witness.F9.ir Witness.F9.args = true := Witness.F9.hyps
example : interpret (Env.ofData Witness.F9.D Witness.F9.args) Witness.F9.ir =
    .ok [[("o0", .string [0x61])]] := Witness.F9.runs

/-- F-10: the IR with the duplicated import (what the unfixed frontend produced) is not well-formed
any more; the IR the fixed frontend produces for the same query (import listed once) satisfies every
hypothesis and yields its row. -/
example : WFq Witness.F10.ir = false := Witness.F10.old_ir_not_wf
example : WFq Witness.F10.irFixed = true ∧ SchemaOK Witness.F10.S Witness.F10.irFixed = true ∧
    ArgsOK Witness.F10.irFixed Witness.F10.args = true ∧
    Conforms Witness.F10.S Witness.F10.D = true ∧
    NoKnownTrigger Witness.F10.D Witness.F10.irFixed Witness.F10.args = true := Witness.F10.hyps
example : interpret (Env.ofData Witness.F10.D Witness.F10.args) Witness.F10.irFixed =
    .ok [[("o0", .string [0x61])]] := Witness.F10.runs
/-- the `WFq` clause is one the engine relies on: on the (now impossible) IR with the duplicate the
unchanged interpreter would still fail in `imported_tags.remove(..).unwrap()` -/
example : interpret (Env.ofData Witness.F10.D Witness.F10.args) Witness.F10.ir =
    .panic "imported_tags.remove(..).unwrap()" := Witness.F10.dup_still_panics

/-- non-vacuity of the partial theorem on a world with a recursion -/
example : WFq Witness.C21a.ir = true ∧ ArgsOK Witness.C21a.ir Witness.C21a.args = true ∧
    Conforms Witness.C21a.S Witness.C21a.D = true ∧
    NoKnownTrigger Witness.C21a.D Witness.C21a.ir Witness.C21a.args = true := Witness.C21a.hyps

end TF.C09

/-! ### compiled queries

For the IR of a query the (modelled) frontend accepts, the structural hypothesis `WFq` is a theorem
(`Bridge.toIR_WFq`, Proofs/FrontendBridgeWFq.lean), and `SchemaOK` follows from `ValidSchemaCore S` (a
decidable predicate on the schema view alone: what the real `Schema::parse` guarantees, plus pairwise
distinct parameter names per edge) up to the two sub-clauses about the type a `@recurse` edge
continues on (`Bridge.RecClausesOK`, Proofs/FrontendBridge.lean: finding F-C21-1 and the clause that
needs `InheritedParamsSame`; both vacuous for a query without `@recurse`,
`Bridge.recClausesOK_of_noRecurse`).  So the statements quantify over "every query accepted by the
frontend". -/
namespace TF.C09.Compiled
open TF TF.Engine TF.Frontend
open TF.SchemaBridge (ValidSchemaCore)

/-- **No panic on accepted queries** (under the guard of the two known triggers): executing the IR of
any query the frontend accepts, typed by the schema, with valid arguments on a conforming dataset
never panics. -/
theorem exec_no_panic_compiled {S : SchemaView} {q : Spec.Query} {ir : IRQuery}
    (h : toIR S q = .ok ir) (D : Data) (args : List (Name × Value))
    (hV : ValidSchemaCore S = true) (hrec : Bridge.RecClausesOK S ir = true)
    (hargs : ArgsOK ir args = true)
    (hconf : Conforms S D = true) (hnt : NoKnownTrigger D ir args = true) :
    ∀ s, interpret (Env.ofData D args) ir ≠ .panic s :=
  exec_no_panic_partial S D ir args (Bridge.toIR_WFq h)
    (Bridge.toIR_SchemaOK_core hV h hrec) hargs hconf hnt

/-- Without the guard: the only panic sites an accepted query can reach are the two known ones, and
then a known trigger is present. -/
theorem exec_panic_site_compiled {S : SchemaView} {q : Spec.Query} {ir : IRQuery}
    (h : toIR S q = .ok ir) (D : Data) (args : List (Name × Value))
    (hV : ValidSchemaCore S = true) (hrec : Bridge.RecClausesOK S ir = true)
    (hargs : ArgsOK ir args = true)
    (hconf : Conforms S D = true) (s : String)
    (hp : interpret (Env.ofData D args) ir = .panic s) :
    knownSite s = true ∧ NoKnownTrigger D ir args = false :=
  exec_panic_site S D ir args (Bridge.toIR_WFq h)
    (Bridge.toIR_SchemaOK_core hV h hrec) hargs hconf s hp

/-- `{ R0 { s @output(name: "o0")
          e0 @optional { e0 @fold @transform(op: "count") @filter(op: "=", value: ["$v1"]) } } }`
— the query of the F-9 regression world (`Witness.F9`). -/
def exQuery : Spec.Query :=
  ⟨"R0", [], .mk none [
    .prop "s" [.output "o0"],
    .edge "e0" [] .optional (.mk none [
      .edge "e0" [] (.fold [.countFilter (.bin .equals) (.var "v1")]) (.mk none [])])]⟩

def accepted : M IRQuery → Bool
  | .ok _ => true
  | .error _ => false

def getIR : M IRQuery → IRQuery
  | .ok ir => ir
  | .error _ => default

theorem ok_getIR {r : M IRQuery} (h : accepted r = true) : r = .ok (getIR r) := by
  cases r with
  | ok ir => rfl
  | error e => simp [accepted] at h

/-- the IR the frontend model compiles the example query to, over the schema of `Witness.F9` -/
def exIR : IRQuery := getIR (toIR Witness.F9.S exQuery)

theorem ex_compiles : toIR Witness.F9.S exQuery = .ok exIR := ok_getIR (by decide +kernel)

/-- Non-vacuity: the example query is accepted, the schema view is valid, its IR meets the remaining
hypotheses (on the dataset and arguments of `Witness.F9`), and the theorem applies. -/
example : ∀ s, interpret (Env.ofData Witness.F9.D Witness.F9.args) exIR ≠ .panic s :=
  exec_no_panic_compiled ex_compiles Witness.F9.D Witness.F9.args (by decide +kernel)
    (Bridge.recClausesOK_of_noRecurse _ (by decide +kernel))
    (by decide +kernel) (by decide +kernel) (by decide +kernel)

end TF.C09.Compiled

#print axioms TF.C09.exec_no_panic_partial
#print axioms TF.C09.exec_rows_or_fuel
#print axioms TF.C09.exec_panic_site
#print axioms TF.C09.exec_panics_F4
#print axioms TF.C09.exec_panics_F5
#print axioms TF.C09.exec_no_panic_full_false
#print axioms TF.C09.Compiled.exec_no_panic_compiled
#print axioms TF.C09.Compiled.exec_panic_site_compiled
