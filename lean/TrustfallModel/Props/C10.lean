/-
C10 — The frontend never panics on any query text.

"For any schema accepted by schema validation and any query string, compiling the query either
returns a compiled query or a typed error; it never panics."

The text → AST GraphQL parser is an external crate and is not modelled; the model's input is the
abstract document it produces (`TF.FE.Doc`).  Stage 1 (this part of the file): the parse layer
`graphql_query::query::parse_document` (`TF.FE.parseDocument`).

Full statement (FALSE on the pinned tree, witness `parse_total_false` below):

    theorem parse_total : ∀ doc : Doc, ∀ s, parseDocument doc ≠ .panic s

What is proved instead:
* `parse_panic_sites`   — of the 14 panic sites of query.rs / directives.rs, only three can fire,
                          all inside `try_get_query_root`, each with its condition; F-6 exactly:
                          `parse_panics_f6_iff`;
* two of the three need an `ExecutableDocument` that the text grammar cannot produce
  (`selection_set = "{" selection+ "}"`, and a `Multiple` map is created on its first insertion):
  they are excluded by `ParserProducible`;
* the third is the defect F-6 (a document with exactly two named operations):
  `parse_total_partial : ParserProducible doc → NoKnownParseTrigger doc → no panic`.

Stage 2 (second part of the file): `frontend::parse` minus the text parser, `TF.FE.compile S doc`
= `parse_document`, `make_ir_for_query` (validation.rs, mod.rs, filters.rs, tags.rs, outputs.rs,
util.rs) and the `IndexedQuery` conversion's `get_output_type`, against a schema view `S`.

Full statement (FALSE on the pinned tree, nine witness theorems below):

    theorem frontend_total : ValidSchemaView S → ParserProducible doc → ∀ s, compile S doc ≠ .panic s

What is proved instead:
* `frontend_panic_sites` — of the 61 modelled panic sites only the nine of `KnownSite` can fire
  (F-6, F-7, F-8, F-12, N-1 … N-4, N-6); in particular every `unwrap/expect/assert!/index` of
  `tags.rs`, `outputs.rs`, `util.rs` (the `ComponentPath` / `TagHandler` / `OutputHandler` stack
  discipline, including the stale entries `make_fold`'s early `?` return leaves behind: F-13 is
  not a defect), the path bookkeeping and the asserts of `validation.rs`, and all but one `unwrap`
  of `filters.rs` are unreachable;
* `frontend_total_partial` — no panic at all outside the known defect classes;
* each class has a witness (`*_witness`), and N-5 (a schema that declares an edge parameter twice,
  accepted by `Schema::new`) is a witness that `ValidSchemaView`'s `paramsDistinct` clause is
  needed (`paramDuplicate_witness`).
-/
import TrustfallModel.Proofs.FrontendTop

namespace TF.C10
open TF.FE

/-- Structural facts every document produced by `async_graphql_parser::parse_query` satisfies and
that the parse layer relies on: a `DocumentOperations::Multiple` map has at least one entry, and
every operation's selection set has at least one item. -/
def ParserProducible (doc : Doc) : Prop :=
  match doc.ops with
  | .single op => op.sels ≠ []
  | .multiple l => l ≠ [] ∧ ∀ p ∈ l, p.2.sels ≠ []

instance (doc : Doc) : Decidable (ParserProducible doc) := by
  unfold ParserProducible
  split <;> infer_instance

/-- The confirmed defect class of the parse layer, **F-6**: no fragment definitions and exactly
two (named) operations. -/
def F6Trigger (doc : Doc) : Prop :=
  doc.frags = [] ∧ ∃ a b, doc.ops = .multiple [a, b]

instance (doc : Doc) : Decidable (F6Trigger doc) := by
  unfold F6Trigger
  refine @instDecidableAnd _ _ ?_ ?_
  · cases doc.frags <;> infer_instance
  · match doc.ops with
    | .single _ => exact isFalse (by rintro ⟨a, b, h⟩; cases h)
    | .multiple [] => exact isFalse (by rintro ⟨a, b, h⟩; cases h)
    | .multiple [_] => exact isFalse (by rintro ⟨a, b, h⟩; cases h)
    | .multiple [a, b] => exact isTrue ⟨a, b, rfl⟩
    | .multiple (_ :: _ :: _ :: _) => exact isFalse (by rintro ⟨a, b, h⟩; cases h)

/-- The guard of the partial theorem: the document is not in a known defect class. -/
def NoKnownParseTrigger (doc : Doc) : Prop := ¬ F6Trigger doc

instance (doc : Doc) : Decidable (NoKnownParseTrigger doc) := by
  unfold NoKnownParseTrigger; infer_instance

/-! ### Witnesses (each replayed against the real `parse_document` by the harness corpus) -/

/-- `{ Zero { value @output } }` as an operation. -/
def opZero : Operation :=
  ⟨.query, 0, [], [.field ⟨none, "Zero", [], []⟩ [.field ⟨none, "value", [], [⟨"output", []⟩]⟩ []]]⟩

/-- `query A { Zero { value @output } } query B { Zero { value @output } }`. -/
def docTwoOperations : Doc := ⟨.multiple [("A", opZero), ("B", opZero)], []⟩

/-- **F-6**: a document with exactly two operations panics (`nth(2)` on a two-element iterator,
query.rs:132). -/
theorem f6_witness : parseDocument docTwoOperations = .panic .opsNth2 :=
  Res.cls_eq_panic.mp (by decide)

/-- … so the full statement is false. -/
theorem parse_total_false : ¬ ∀ doc : Doc, ∀ s, parseDocument doc ≠ .panic s :=
  fun h => h docTwoOperations .opsNth2 f6_witness

/-- Three operations are *not* in the class: the error is returned. -/
example : (parseDocument ⟨.multiple [("A", opZero), ("B", opZero), ("C", opZero)], []⟩).cls
    = .err .MultipleOperationsInDocument := by decide
/-- One named operation is accepted. -/
example : (parseDocument ⟨.multiple [("A", opZero)], []⟩).panicSite? = none := by decide
/-- Two operations *and* a fragment definition: the fragment error comes first. -/
example : (parseDocument ⟨.multiple [("A", opZero), ("B", opZero)], [⟨"F", "Number", [], []⟩]⟩).cls
    = .err .DocumentContainsNonInlineFragments := by decide

/-- Not producible by any text: an empty `Multiple` map reaches `unreachable!` (query.rs:139). -/
theorem empty_map_witness : parseDocument ⟨.multiple [], []⟩ = .panic .opsMultipleEmpty :=
  Res.cls_eq_panic.mp (by decide)
/-- Not producible by any text: an empty selection set reaches `root_items[1]` (query.rs:172). -/
theorem empty_selection_witness :
    parseDocument ⟨.single ⟨.query, 0, [], []⟩, []⟩ = .panic .rootItemsIndex :=
  Res.cls_eq_panic.mp (by decide)

/-! ### The theorems -/

/-- Only three of the parse layer's panic sites can fire, with these conditions. -/
theorem parse_panic_sites {doc : Doc} {s : Site} (h : parseDocument doc = .panic s) :
    doc.frags = [] ∧
    ((s = .opsNth2 ∧ doc.opCount = 2 ∧ ∃ l, doc.ops = .multiple l) ∨
     (s = .opsMultipleEmpty ∧ doc.ops = .multiple []) ∨
     (s = .rootItemsIndex ∧ ∃ op, doc.soleOperation? = some op ∧ op.sels = [])) :=
  tryGetQueryRoot_panic (parseDocument_panic h)

/-- F-6 exactly: `parse_document` panics at query.rs:132 iff there is no fragment definition and
there are exactly two operations. -/
theorem parse_panics_f6_iff (doc : Doc) : parseDocument doc = .panic .opsNth2 ↔ F6Trigger doc := by
  constructor
  · intro h
    obtain ⟨hfr, hcase⟩ := parse_panic_sites h
    rcases hcase with ⟨_, hcount, l, hl⟩ | ⟨hs, _⟩ | ⟨hs, _⟩
    · refine ⟨hfr, ?_⟩
      simp only [Doc.opCount, hl] at hcount
      match l, hcount with
      | [a, b], _ => exact ⟨a, b, hl⟩
    · cases hs
    · cases hs
  · rintro ⟨hfr, a, b, hops⟩
    obtain ⟨ops, frags⟩ := doc
    simp only at hfr hops
    subst hfr hops
    simp [parseDocument, tryGetQueryRoot]

/-- The parse layer is total on every document a query text can produce, outside F-6. -/
theorem parse_total_partial {doc : Doc} (hp : ParserProducible doc) (hk : NoKnownParseTrigger doc) :
    ∀ s, parseDocument doc ≠ .panic s := by
  intro s h
  obtain ⟨hfr, hcase⟩ := parse_panic_sites h
  rcases hcase with ⟨hs, _, _⟩ | ⟨_, hops⟩ | ⟨_, op, hop, hsel⟩
  · subst hs
    exact hk ((parse_panics_f6_iff doc).mp h)
  · unfold ParserProducible at hp
    rw [hops] at hp
    exact hp.1 rfl
  · unfold ParserProducible at hp
    unfold Doc.soleOperation? at hop
    split at hop
    · rename_i op' hops
      cases hop
      rw [hops] at hp
      exact hp hsel
    · rename_i n op' hops
      cases hop
      rw [hops] at hp
      exact hp.2 (n, op) (by simp) hsel
    · cases hop

/-! Non-vacuity: the guards hold of ordinary documents and the theorem applies to them. -/
example : ParserProducible ⟨.single opZero, []⟩ ∧ NoKnownParseTrigger ⟨.single opZero, []⟩ := by decide
example : ParserProducible docTwoOperations ∧ ¬ NoKnownParseTrigger docTwoOperations := by decide

/-! ## Stage 2: the frontend proper -/

/-- The guard of the partial theorem: the document does not run into one of the known defect
classes.  F-6, F-7, N-1 and N-2 are delimited syntactically (`parse_panics_f6_iff`,
`frontend_panics_f7_only_if`, `frontend_panics_n1_only_if`, `frontend_panics_n2_only_if`); the
other classes (F-8, F-12, N-3, N-4, N-6) are delimited by the model's own panic site —
the decidable statement "`compile S doc` does not panic at that site" — which the harness
replays against the real code for every generated document. -/
def NoKnownTrigger (S : SchemaView) (doc : Doc) : Prop :=
  ∀ s, KnownSite s → compile S doc ≠ .panic s

instance (S : SchemaView) (doc : Doc) : Decidable (NoKnownTrigger S doc) :=
  match h : compile S doc with
  | .panic s =>
    if hk : KnownSite s then isFalse (fun hn => hn s hk h)
    else isTrue (fun s' hk' h' => by rw [h] at h'; cases h'; exact hk hk')
  | .ok _ => isTrue (fun s' _ h' => by rw [h] at h'; cases h')
  | .err _ => isTrue (fun s' _ h' => by rw [h] at h'; cases h')

/-- Of all modelled panic sites, only those of `KnownSite` can fire on a document produced by
the text parser, against a schema satisfying `ValidSchemaView`. -/
theorem frontend_panic_sites {S : SchemaView} (hS : ValidSchemaView S) {doc : Doc}
    (hp : ParserProducible doc) {s : Site} (h : compile S doc = .panic s) : KnownSite s := by
  rcases compile_panic_known hS h with hk | hs | hs
  · exact hk
  · subst hs
    exfalso
    have hparse : parseDocument doc = .panic .opsMultipleEmpty := by
      unfold compile at h
      cases hpd : parseDocument doc with
      | panic s' => rw [hpd] at h; cases h; rfl
      | err e => rw [hpd] at h; cases h
      | ok q =>
        rw [hpd] at h
        have := (makeIrForQuery_sat hS (parseDocument_wf hpd)).panic_site h
        exact absurd this.1 (by decide +kernel)
    exact parse_total_partial hp (fun hf6 => by
      have := (parse_panics_f6_iff doc).mpr hf6
      rw [hparse] at this; cases this) _ hparse
  · subst hs
    exfalso
    have hparse : parseDocument doc = .panic .rootItemsIndex := by
      unfold compile at h
      cases hpd : parseDocument doc with
      | panic s' => rw [hpd] at h; cases h; rfl
      | err e => rw [hpd] at h; cases h
      | ok q =>
        rw [hpd] at h
        have := (makeIrForQuery_sat hS (parseDocument_wf hpd)).panic_site h
        exact absurd this.1 (by decide +kernel)
    exact parse_total_partial hp (fun hf6 => by
      have := (parse_panics_f6_iff doc).mpr hf6
      rw [hparse] at this; cases this) _ hparse

/-- The frontend is total outside the known defect classes. -/
theorem frontend_total_partial {S : SchemaView} (hS : ValidSchemaView S) {doc : Doc}
    (hp : ParserProducible doc) (hk : NoKnownTrigger S doc) : ∀ s, compile S doc ≠ .panic s :=
  fun s h => hk s (frontend_panic_sites hS hp h) h

/-- N-1 is reached only through a root field called `__typename`. -/
theorem frontend_panics_n1_only_if {S : SchemaView} (hS : ValidSchemaView S) {doc : Doc}
    (h : compile S doc = .panic .rootEdgeLookup) :
    ∃ q, parseDocument doc = .ok q ∧ q.rootField.name = TYPENAME :=
  compile_rootEdgeLookup hS h

/-- F-7 is reached only if some field carries `@fold @transform … @transform`. -/
theorem frontend_panics_f7_only_if {S : SchemaView} (hS : ValidSchemaView S) {doc : Doc}
    (h : compile S doc = .panic .retransform) :
    ∃ q, parseDocument doc = .ok q ∧ hasRetrNode q.rootField = true :=
  compile_retransform hS h

/-- N-2 is reached only if some field has an enum literal among its arguments. -/
theorem frontend_panics_n2_only_if {S : SchemaView} (hS : ValidSchemaView S) {doc : Doc}
    (h : compile S doc = .panic .enumArgument) :
    ∃ q, parseDocument doc = .ok q ∧
      (argsHaveEnum q.rootConnection.arguments = true ∨ hasEnumNode q.rootField = true) :=
  compile_enumArgument hS h

/-! ### Witnesses (each is in `corpus/C10.cases` as text and replayed against the real code) -/

def tyInt : FTy := ⟨"Int", true, []⟩

/-- `type Root { A(max: Int): A }  type A { value: Int  flag: Boolean  deep: [..30 levels..Int]
next: A }`. -/
def miniSchema : SchemaView := ⟨"Root", [], [
  ⟨"Root", false, [], [⟨"A", ⟨"A", true, []⟩, [⟨"max", tyInt, false⟩]⟩]⟩,
  ⟨"A", false, [], [⟨"value", tyInt, []⟩, ⟨"flag", ⟨"Boolean", true, []⟩, []⟩,
     ⟨"deep", ⟨"Int", true, List.replicate 30 true⟩, []⟩, ⟨"next", ⟨"A", true, []⟩, []⟩]⟩]⟩

theorem miniSchema_valid : ValidSchemaView miniSchema := validSchemaViewB_sound (by decide +kernel)

def fld (name : String) (dirs : List Directive := []) (sels : List Selection := [])
    (args : List Arg := []) : Selection := .field ⟨none, name, args, dirs⟩ sels
def single (root : Selection) : Doc := ⟨.single ⟨.query, 0, [], [root]⟩, []⟩
def dOutput : Directive := ⟨"output", []⟩
def dOutputNamed (n : String) : Directive := ⟨"output", [⟨"name", .str n⟩]⟩
def dFold : Directive := ⟨"fold", []⟩
def dCount : Directive := ⟨"transform", [⟨"op", .str "count"⟩]⟩
def dFilter (op v : String) : Directive := ⟨"filter", [⟨"op", .str op⟩, ⟨"value", .list [.str v]⟩]⟩
/-- `next @fold { next @fold { … s … } }`, `k` levels. -/
def nestFolds : Nat → Selection → Selection
  | 0, s => s
  | k + 1, s => fld "next" [dFold] [nestFolds k s]

/-- **F-7** `{ A { next @fold @transform(op: "count") @transform(op: "count") } }`. -/
theorem f7_witness :
    compile miniSchema (single (fld "A" [] [fld "next" [dFold, dCount, dCount]])) = .panic .retransform :=
  Res.cls_eq_panic.mp (by decide +kernel)

/-- **F-8** `{ A { value { ... on A { __typename } } } }`. -/
theorem f8_witness :
    compile miniSchema (single (fld "A" [] [fld "value" [] [.inline (some "A") [] [fld "__typename"]]]))
      = .panic .coercePropertyIndex :=
  Res.cls_eq_panic.mp (by decide +kernel)

/-- **F-12** `{ A { flag @filter(op: "<", value: ["$x"]) } }` (`flag: Boolean`). -/
theorem f12_witness :
    compile miniSchema (single (fld "A" [] [fld "flag" [dFilter "<" "$x"]])) = .panic .asTagUnwrap :=
  Res.cls_eq_panic.mp (by decide +kernel)

/-- … but not with `=`: the defect needs an ordering operator. -/
example : (compile miniSchema (single (fld "A" [] [fld "flag" [dFilter "=" "$x", dOutput]]))).cls = .ok := by
  decide +kernel

/-- **N-1** `{ __typename }`. -/
theorem n1_witness : compile miniSchema (single (fld "__typename")) = .panic .rootEdgeLookup :=
  Res.cls_eq_panic.mp (by decide +kernel)

/-- **N-2** `{ A(max: FOO) }`. -/
theorem n2_witness :
    compile miniSchema (single (fld "A" [] [] [⟨"max", .enum "FOO"⟩])) = .panic .enumArgument :=
  Res.cls_eq_panic.mp (by decide +kernel)

/-- **N-3** `{ A { value @output(name: "a") next @fold @transform(op: "count") @output(name: "a") } }`. -/
theorem n3_witness :
    compile miniSchema (single (fld "A" [] [fld "value" [dOutputNamed "a"],
      fld "next" [dFold, dCount, dOutputNamed "a"]])) = .panic .dupOutputVertexIndex :=
  Res.cls_eq_panic.mp (by decide +kernel)

/-- … while two *property* outputs under one name are reported as the error they are. -/
example : (compile miniSchema (single (fld "A" [] [fld "value" [dOutputNamed "a"],
    fld "flag" [dOutputNamed "a"]]))).cls = .err (.frontend [.MultipleOutputsWithSameName]) := by decide +kernel

/-- **N-4** `value @output` under 31 nested `@fold`s. -/
theorem n4_witness :
    compile miniSchema (single (fld "A" [] [nestFolds 31 (fld "value" [dOutput])]))
      = .panic .outputListDepth :=
  Res.cls_eq_panic.mp (by decide +kernel)

/-- … 30 are accepted. -/
example : (compile miniSchema (single (fld "A" [] [nestFolds 30 (fld "value" [dOutput])]))).cls = .ok := by
  decide +kernel

/-- **N-6** `{ A { deep @filter(op: "one_of", value: ["$x"]) } }` (`deep` has 30 list levels). -/
theorem n6_witness :
    compile miniSchema (single (fld "A" [] [fld "deep" [dFilter "one_of" "$x"]])) = .panic .oneOfListDepth :=
  Res.cls_eq_panic.mp (by decide +kernel)

/-- The full statement is false. -/
theorem frontend_total_false :
    ¬ ∀ (S : SchemaView) (doc : Doc), ValidSchemaView S → ParserProducible doc →
      ∀ s, compile S doc ≠ .panic s :=
  fun h => h miniSchema _ miniSchema_valid (by decide +kernel) _ f7_witness

/-- **N-5**: `type Root { A(x: Int, x: Int): A }  type A { v: Int }` is accepted by `Schema::new`
but is not a `ValidSchemaView`; every query through `A` panics at mod.rs:195. -/
def dupParamSchema : SchemaView := ⟨"Root", [], [
  ⟨"Root", false, [], [⟨"A", ⟨"A", true, []⟩, [⟨"x", tyInt, false⟩, ⟨"x", tyInt, false⟩]⟩]⟩,
  ⟨"A", false, [], [⟨"v", tyInt, []⟩]⟩]⟩

theorem paramDuplicate_witness :
    compile dupParamSchema (single (fld "A" [] [fld "v" [dOutput]])) = .panic .paramDuplicate ∧
    validSchemaViewB dupParamSchema = false :=
  ⟨Res.cls_eq_panic.mp (by decide +kernel), by decide⟩

/-! Non-vacuity: the guards hold of ordinary queries, and fail exactly on the witnesses. -/
example : NoKnownTrigger miniSchema (single (fld "A" [] [fld "value" [dOutput, dFilter "<" "$x"],
    fld "next" [dFold, dCount, dOutputNamed "n"] [fld "flag" [dFilter "=" "$f"]]])) := by decide +kernel
example : (compile miniSchema (single (fld "A" [] [fld "value" [dOutput, dFilter "<" "$x"],
    fld "next" [dFold, dCount, dOutputNamed "n"] [fld "flag" [dFilter "=" "$f"]]]))).cls = .ok := by decide +kernel
example : ¬ NoKnownTrigger miniSchema (single (fld "__typename")) := by decide +kernel

end TF.C10

#print axioms TF.C10.f6_witness
#print axioms TF.C10.parse_total_false
#print axioms TF.C10.parse_panic_sites
#print axioms TF.C10.parse_panics_f6_iff
#print axioms TF.C10.parse_total_partial
#print axioms TF.C10.frontend_panic_sites
#print axioms TF.C10.frontend_total_partial
#print axioms TF.C10.frontend_panics_n1_only_if
#print axioms TF.C10.frontend_panics_f7_only_if
#print axioms TF.C10.frontend_panics_n2_only_if
#print axioms TF.C10.f7_witness
#print axioms TF.C10.f8_witness
#print axioms TF.C10.f12_witness
#print axioms TF.C10.n1_witness
#print axioms TF.C10.n2_witness
#print axioms TF.C10.n3_witness
#print axioms TF.C10.n4_witness
#print axioms TF.C10.n6_witness
#print axioms TF.C10.frontend_total_false
#print axioms TF.C10.paramDuplicate_witness
