/-
C10 — The frontend never panics on any query text.

"For any schema accepted by schema validation and any query string, compiling the query either
returns a compiled query or a typed error; it never panics."

The text → AST GraphQL parser is an external crate and is not modelled; the model's input is the
abstract document it produces (`TF.FE.Doc`).

STATE OF THE CODE THIS FILE IS ABOUT: /repo with the seven repairs of F-6, F-7, F-8, F-12, F-C10-1,
F-C10-3, F-C10-2 applied (hooks/fix-*.diff; F-C10-2 = hooks/fix-enum.diff: the `FieldValue::Enum`
arm of `Type::is_valid_value` is `false` instead of `unimplemented!`).  The theorems and witnesses about the tree before the repairs
are kept as history comments at the end of each part.

Stage 1: the parse layer `graphql_query::query::parse_document` (`TF.FE.parseDocument`).
* `parse_total` — for every document the text parser can produce (`ParserProducible`: a `Multiple`
  operation map is not empty, an operation's selection set is not empty — read off the grammar
  `selection_set = "{" selection+ "}"` and `parse_query`), `parse_document` does not panic.  The
  hypothesis cannot be dropped: `parse_document` is a public function on `ExecutableDocument`, and
  the two directly constructible structures the grammar excludes reach `unreachable!` / an index
  (`empty_map_witness`, `empty_selection_witness`, `parse_panic_sites`).

Stage 2: `frontend::parse` minus the text parser, `TF.FE.compile S doc` = `parse_document`,
`make_ir_for_query` (validation.rs, mod.rs, filters.rs, tags.rs, outputs.rs, util.rs) and the
`IndexedQuery` conversion's `get_output_type`, against a schema view `S`.

Full statement (still FALSE, two witness theorems below):

    theorem frontend_total : ValidSchemaView S → ParserProducible doc → ∀ s, compile S doc ≠ .panic s

What is proved instead:
* `frontend_panic_sites` — of the 61 modelled panic sites only the two of `KnownSite` can fire
  (F-C10-4 output under too many folds, F-C10-6 `one_of` on a 30-level list; F-C10-2, the
  enum-valued edge argument, was the third until its repair); every other `unwrap/expect/assert!/index/unreachable!/unimplemented!` is
  unreachable, in particular the index `ir_vertices[&vid]` of mod.rs:399/405 after the repair of
  F-C10-3 (every entry of a component's output map refers to one of its vertices or to a vertex of
  one of its folds: the `tops` clause of `FillPost`), all of
  `tags.rs`, `outputs.rs`, `util.rs` (the `ComponentPath` / `TagHandler` / `OutputHandler` stack
  discipline incl. the stale entries `make_fold`'s early `?` return leaves behind), `validation.rs`
  and `filters.rs`, the `unimplemented!` of mod.rs:1111 (the parse layer never builds a
  re-transform: `parseDocument_noRetr`) and the `unreachable!` of mod.rs:130;
* `frontend_total_partial` — no panic at all outside those classes;
* `frontend_no_enum_panic` — the former site of F-C10-2 (`is_valid_value` on an enum-valued edge
  argument) cannot fire on any document (it was `frontend_panics_n2_only_if`: "only if some field
  has an enum literal among its arguments"); such an argument is an `InvalidEdgeParameterType`
  error now (regression example below);
* N-5 / F-C10-5, REPAIRED in schema validation: a schema that declares an edge parameter twice used to
  be accepted by `Schema::new`, and every query through such an edge panicked at mod.rs:195
  (`paramDuplicate_witness`: the frontend code is unchanged, its `unwrap` still relies on distinct
  names — the witness shows that `ValidSchemaView`'s `paramsDistinct` clause is needed).  Since the
  repair `Schema::new` rejects such a schema (`DuplicateFieldParameterDefinition`), so the clause is
  something schema validation GUARANTEES: `schema_parse_params_distinct` (for every schema document,
  no guard, the view of an accepted schema has distinct parameter names per field; from
  `TF.C19.accepted_params_distinct`).  The finding is therefore no longer reachable through a schema
  accepted by `Schema::parse`.
-/
import TrustfallModel.Proofs.FrontendTop
import TrustfallModel.Proofs.FrontendSchemaParse

namespace TF.C10
open TF.FE

/-- Structural facts every document produced by `async_graphql_parser::parse_query` satisfies and
that the parse layer relies on: a `DocumentOperations::Multiple` map has at least one entry, and
every operation's selection set has at least one item. -/
def ParserProducible (doc : Doc) : Prop :=
  match doc.ops with
  | .single op => op.sels ≠ []
  | .multiple l => l ≠ [] ∧ ∀ p ∈ l, p.2.sels ≠ []

instance (doc : Doc) : Decidable (ParserProducible doc) := by
  unfold ParserProducible
  split <;> infer_instance

/-- `{ Zero { value @output } }` as an operation. -/
def opZero : Operation :=
  ⟨.query, 0, [], [.field ⟨none, "Zero", [], []⟩ [.field ⟨none, "value", [], [⟨"output", []⟩]⟩ []]]⟩

/-- `query A { Zero { value @output } } query B { Zero { value @output } }`. -/
def docTwoOperations : Doc := ⟨.multiple [("A", opZero), ("B", opZero)], []⟩

/-- Regression for F-6: two operations are now refused with the error, like three. -/
example : (parseDocument docTwoOperations).cls = .err .MultipleOperationsInDocument := by decide
example : (parseDocument ⟨.multiple [("A", opZero), ("B", opZero), ("C", opZero)], []⟩).cls
    = .err .MultipleOperationsInDocument := by decide
/-- One named operation is accepted. -/
example : (parseDocument ⟨.multiple [("A", opZero)], []⟩).cls = .ok := by decide
/-- Two operations *and* a fragment definition: the fragment error comes first. -/
example : (parseDocument ⟨.multiple [("A", opZero), ("B", opZero)], [⟨"F", "Number", [], []⟩]⟩).cls
    = .err .DocumentContainsNonInlineFragments := by decide

/-- Not producible by any text: an empty `Multiple` map reaches `unreachable!` (query.rs:139). -/
theorem empty_map_witness : parseDocument ⟨.multiple [], []⟩ = .panic .opsMultipleEmpty :=
  Res.cls_eq_panic.mp (by decide)
/-- Not producible by any text: an empty selection set reaches `root_items[1]` (query.rs:172). -/
theorem empty_selection_witness :
    parseDocument ⟨.single ⟨.query, 0, [], []⟩, []⟩ = .panic .rootItemsIndex :=
  Res.cls_eq_panic.mp (by decide)

/-! ### The theorems -/

/-- Only two of the parse layer's 14 panic sites can fire, and only on structures the text grammar
excludes. -/
theorem parse_panic_sites {doc : Doc} {s : Site} (h : parseDocument doc = .panic s) :
    doc.frags = [] ∧
    ((s = .opsMultipleEmpty ∧ doc.ops = .multiple []) ∨
     (s = .rootItemsIndex ∧ ∃ op, doc.soleOperation? = some op ∧ op.sels = [])) :=
  tryGetQueryRoot_panic (parseDocument_panic h)

/-- The parse layer is total on every document a query text can produce. -/
theorem parse_total {doc : Doc} (hp : ParserProducible doc) : ∀ s, parseDocument doc ≠ .panic s := by
  intro s h
  obtain ⟨hfr, hcase⟩ := parse_panic_sites h
  rcases hcase with ⟨_, hops⟩ | ⟨_, op, hop, hsel⟩
  · unfold ParserProducible at hp
    rw [hops] at hp
    exact hp.1 rfl
  · unfold ParserProducible at hp
    unfold Doc.soleOperation? at hop
    split at hop
    · rename_i op' hops
      cases hop
      rw [hops] at hp
      exact hp hsel
    · rename_i n op' hops
      cases hop
      rw [hops] at hp
      exact hp.2 (n, op) (by simp) hsel
    · cases hop

/-! Non-vacuity. -/
example : ParserProducible ⟨.single opZero, []⟩ ∧ ParserProducible docTwoOperations := by decide

/-! History (tree before `fix: a document with exactly two operations …`, F-6): `nth(2)` instead of
`nth(1)`.  Then proved: `f6_witness : parseDocument docTwoOperations = .panic .opsNth2`,
`parse_total_false`, `parse_panics_f6_iff : parseDocument doc = .panic .opsNth2 ↔ (doc.frags = [] ∧
∃ a b, doc.ops = .multiple [a, b])`, and `parse_total_partial` under the extra guard "not exactly
two operations". -/

/-! ## Stage 2: the frontend proper -/

/-- The guard of the partial theorem: the document does not run into one of the remaining defect
classes (F-C10-4, F-C10-6).  The classes are delimited by the model's own panic site —
the decidable statement "`compile S doc` does not panic at that site" — which the harness replays
against the real code for every generated document. -/
def NoKnownTrigger (S : SchemaView) (doc : Doc) : Prop :=
  ∀ s, KnownSite s → compile S doc ≠ .panic s

instance (S : SchemaView) (doc : Doc) : Decidable (NoKnownTrigger S doc) :=
  match h : compile S doc with
  | .panic s =>
    if hk : KnownSite s then isFalse (fun hn => hn s hk h)
    else isTrue (fun s' hk' h' => by rw [h] at h'; cases h'; exact hk hk')
  | .ok _ => isTrue (fun s' _ h' => by rw [h] at h'; cases h')
  | .err _ => isTrue (fun s' _ h' => by rw [h] at h'; cases h')

/-- Of all modelled panic sites, only those of `KnownSite` can fire on a document produced by the
text parser, against a schema satisfying `ValidSchemaView`. -/
theorem frontend_panic_sites {S : SchemaView} (hS : ValidSchemaView S) {doc : Doc}
    (hp : ParserProducible doc) {s : Site} (h : compile S doc = .panic s) : KnownSite s := by
  have hparse : ∀ s', s = s' → (s' = .opsMultipleEmpty ∨ s' = .rootItemsIndex) → False := by
    intro s' hs' hcase
    subst hs'
    have : parseDocument doc = .panic s := by
      unfold compile at h
      cases hpd : parseDocument doc with
      | panic s' => rw [hpd] at h; cases h; rfl
      | err e => rw [hpd] at h; cases h
      | ok q =>
        rw [hpd] at h
        have := (makeIrForQuery_sat hS (parseDocument_wf hpd) (parseDocument_noRetr hpd)).panic_site h
        exfalso
        rcases hcase with hc | hc <;> (subst hc; exact absurd this (by decide))
    exact parse_total hp _ this
  rcases compile_panic_known hS h with hk | hs | hs
  · exact hk
  · exact (hparse s rfl (Or.inl hs)).elim
  · exact (hparse s rfl (Or.inr hs)).elim

/-- The frontend is total outside the remaining defect classes. -/
theorem frontend_total_partial {S : SchemaView} (hS : ValidSchemaView S) {doc : Doc}
    (hp : ParserProducible doc) (hk : NoKnownTrigger S doc) : ∀ s, compile S doc ≠ .panic s :=
  fun s h => hk s (frontend_panic_sites hS hp h) h

/-- The former site of N-2 / F-C10-2 — the `unimplemented!` of `is_valid_value` on an enum-valued
edge or root-field argument — cannot fire, on any document (no `ParserProducible` needed).
(History: `frontend_panics_n2_only_if`, "N-2 is reached only if some field has an enum literal among
its arguments", while `.enumArgument` was a `KnownSite`.) -/
theorem frontend_no_enum_panic {S : SchemaView} (hS : ValidSchemaView S) {doc : Doc} :
    compile S doc ≠ .panic .enumArgument :=
  compile_not_enumArgument hS

/-! ### Witnesses and regressions (each is in `corpus/C10.cases` as text and replayed against the
real code) -/

def tyInt : FTy := ⟨"Int", true, []⟩

/-- `type Root { A(max: Int): A }  type A { value: Int  flag: Boolean  deep: [..30 levels..Int]
next: A }`. -/
def miniSchema : SchemaView := ⟨"Root", [], [
  ⟨"Root", false, [], [⟨"A", ⟨"A", true, []⟩, [⟨"max", tyInt, false⟩]⟩]⟩,
  ⟨"A", false, [], [⟨"value", tyInt, []⟩, ⟨"flag", ⟨"Boolean", true, []⟩, []⟩,
     ⟨"deep", ⟨"Int", true, List.replicate 30 true⟩, []⟩, ⟨"next", ⟨"A", true, []⟩, []⟩]⟩]⟩

theorem miniSchema_valid : ValidSchemaView miniSchema := validSchemaViewB_sound (by decide +kernel)

def fld (name : String) (dirs : List Directive := []) (sels : List Selection := [])
    (args : List Arg := []) : Selection := .field ⟨none, name, args, dirs⟩ sels
def single (root : Selection) : Doc := ⟨.single ⟨.query, 0, [], [root]⟩, []⟩
def dOutput : Directive := ⟨"output", []⟩
def dOutputNamed (n : String) : Directive := ⟨"output", [⟨"name", .str n⟩]⟩
def dFold : Directive := ⟨"fold", []⟩
def dCount : Directive := ⟨"transform", [⟨"op", .str "count"⟩]⟩
def dFilter (op v : String) : Directive := ⟨"filter", [⟨"op", .str op⟩, ⟨"value", .list [.str v]⟩]⟩
/-- `next @fold { next @fold { … s … } }`, `k` levels. -/
def nestFolds : Nat → Selection → Selection
  | 0, s => s
  | k + 1, s => fld "next" [dFold] [nestFolds k s]

/-- Regression for F-7 `{ A { next @fold @transform(op: "count") @transform(op: "count") } }`:
refused by the parse layer (was `.panic .retransform`, `f7_witness`). -/
example : (compile miniSchema (single (fld "A" [] [fld "next" [dFold, dCount, dCount]]))).cls
    = .err (.parse .UnsupportedDirectivePosition) := by decide +kernel

/-- Regression for F-8 `{ A { value { ... on A { __typename } } } }` (was
`.panic .coercePropertyIndex`, `f8_witness`). -/
example : (compile miniSchema (single (fld "A" [] [fld "value" [] [.inline (some "A") [] [fld "__typename"]]]))).cls
    = .err (.frontend [.CannotCoerceNonInterfaceType]) := by decide +kernel

/-- Regression for F-12 `{ A { flag @filter(op: "<", value: ["$x"]) } }` (`flag: Boolean`; was
`.panic .asTagUnwrap`, `f12_witness`). -/
example : (compile miniSchema (single (fld "A" [] [fld "flag" [dFilter "<" "$x"]]))).cls
    = .err (.frontend [.OrderingFilterOperationOnNonOrderableSubject]) := by decide +kernel

/-- `=` on a Boolean property is fine. -/
example : (compile miniSchema (single (fld "A" [] [fld "flag" [dFilter "=" "$x", dOutput]]))).cls = .ok := by
  decide +kernel

/-- Regression for N-1 / F-C10-1 `{ __typename }` (was `.panic .rootEdgeLookup`, `n1_witness`). -/
example : (compile miniSchema (single (fld "__typename"))).cls
    = .err (.frontend [.PropertyMetaFieldUsedAsEdge]) := by decide +kernel

/-- Regression for N-2 / F-C10-2 `{ A(max: FOO) { value @output } }` (was `.panic .enumArgument`,
`n2_witness`): an ordinary type error of the argument — also for an enum literal inside a list. -/
example : (compile miniSchema (single (fld "A" [] [fld "value" [dOutput]] [⟨"max", .enum "FOO"⟩]))).cls
    = .err (.frontend [.InvalidEdgeParameterType]) := by decide +kernel
example : (compile miniSchema (single (fld "A" [] [fld "value" [dOutput]]
    [⟨"max", .list [.enum "FOO"]⟩]))).cls = .err (.frontend [.InvalidEdgeParameterType]) := by decide +kernel

/-- Regression for N-3 / F-C10-3 `{ A { value @output(name: "a") next @fold @transform(op: "count")
@output(name: "a") } }` (was `.panic .dupOutputVertexIndex`, `n3_witness`). -/
example : (compile miniSchema (single (fld "A" [] [fld "value" [dOutputNamed "a"],
    fld "next" [dFold, dCount, dOutputNamed "a"]]))).cls
    = .err (.frontend [.MultipleOutputsWithSameName]) := by decide +kernel

/-- Two *property* outputs under one name: the same error. -/
example : (compile miniSchema (single (fld "A" [] [fld "value" [dOutputNamed "a"],
    fld "flag" [dOutputNamed "a"]]))).cls = .err (.frontend [.MultipleOutputsWithSameName]) := by decide +kernel

/-- **N-4** `value @output` under 31 nested `@fold`s. -/
theorem n4_witness :
    compile miniSchema (single (fld "A" [] [nestFolds 31 (fld "value" [dOutput])]))
      = .panic .outputListDepth :=
  Res.cls_eq_panic.mp (by decide +kernel)

/-- … 30 are accepted. -/
example : (compile miniSchema (single (fld "A" [] [nestFolds 30 (fld "value" [dOutput])]))).cls = .ok := by
  decide +kernel

/-- **N-6** `{ A { deep @filter(op: "one_of", value: ["$x"]) } }` (`deep` has 30 list levels). -/
theorem n6_witness :
    compile miniSchema (single (fld "A" [] [fld "deep" [dFilter "one_of" "$x"]])) = .panic .oneOfListDepth :=
  Res.cls_eq_panic.mp (by decide +kernel)

/-- The full statement is false. -/
theorem frontend_total_false :
    ¬ ∀ (S : SchemaView) (doc : Doc), ValidSchemaView S → ParserProducible doc →
      ∀ s, compile S doc ≠ .panic s :=
  fun h => h miniSchema _ miniSchema_valid (by decide +kernel) _ n6_witness

/-- **N-5** (F-C10-5, repaired in `Schema::new`): `type Root { A(x: Int, x: Int): A }  type A { v: Int }`
is not a `ValidSchemaView`; against such a schema every query through `A` panics at mod.rs:195 — the
frontend itself is unchanged.  Before the repair `Schema::new` accepted this schema, so the panic was
reachable from schema text + query text; now `Schema::new` returns
`DuplicateFieldParameterDefinition("Root", "A", "x")` (`TF.C19`, regression example) and the frontend
never sees it (`schema_parse_params_distinct`). -/
def dupParamSchema : SchemaView := ⟨"Root", [], [
  ⟨"Root", false, [], [⟨"A", ⟨"A", true, []⟩, [⟨"x", tyInt, false⟩, ⟨"x", tyInt, false⟩]⟩]⟩,
  ⟨"A", false, [], [⟨"v", tyInt, []⟩]⟩]⟩

theorem paramDuplicate_witness :
    compile dupParamSchema (single (fld "A" [] [fld "v" [dOutput]])) = .panic .paramDuplicate ∧
    validSchemaViewB dupParamSchema = false :=
  ⟨Res.cls_eq_panic.mp (by decide +kernel), by decide⟩

/-- **`Schema::parse` accepts ⇒ distinct parameter names** (the `paramsDistinct` clause of
`ValidSchemaView`): for every schema document `doc` — no guard — if the model of `Schema::new` returns
`Ok(s)`, then in the frontend's view of `s` every field declares each parameter name once.  So the
hypothesis under which `make_edge_parameters`' `unwrap` (site `paramDuplicate`) is unreachable is
established by schema validation itself since the repair of F-C10-5. -/
theorem schema_parse_params_distinct (doc : TF.SchemaDoc.Doc) (s : TF.SchemaDoc.Schema)
    (h : TF.SchemaDoc.Schema.new doc = .ok (.ok s)) :
    ∀ t ∈ (viewOfSchema s).types, ∀ f ∈ t.fields, (f.params.map (·.name)).Nodup :=
  parse_accepts_paramsDistinct h

/-- … and the schema of the witness, as a document, is rejected by that model. -/
example : TF.SchemaDoc.rejectsWith
    [.schema "Root",
     .type ⟨"Root", false, [], [⟨"A", .named "A" false, [⟨"x", .named "Int" false, none⟩, ⟨"x", .named "Int" false, none⟩]⟩]⟩,
     .type ⟨"A", false, [], [⟨"v", .named "Int" false, []⟩]⟩]
    = some [.duplicateFieldParameterDefinition "Root" "A" "x"] := by decide

/-! Non-vacuity: the guards hold of ordinary queries, and fail exactly on the witnesses. -/
example : NoKnownTrigger miniSchema (single (fld "A" [] [fld "value" [dOutput, dFilter "<" "$x"],
    fld "next" [dFold, dCount, dOutputNamed "n"] [fld "flag" [dFilter "=" "$f"]]])) := by decide +kernel
example : (compile miniSchema (single (fld "A" [] [fld "value" [dOutput, dFilter "<" "$x"],
    fld "next" [dFold, dCount, dOutputNamed "n"] [fld "flag" [dFilter "=" "$f"]]]))).cls = .ok := by decide +kernel
example : ¬ NoKnownTrigger miniSchema (single (fld "A" [] [fld "deep" [dFilter "one_of" "$x"]])) := by
  decide +kernel
/-- The enum-argument query no longer violates the guard (it did before the repair of F-C10-2). -/
example : NoKnownTrigger miniSchema (single (fld "A" [] [fld "value" [dOutput]] [⟨"max", .enum "FOO"⟩])) := by
  decide +kernel

/-! History (tree before the seven repairs): `KnownSite` had nine sites; additionally proved then:
`f7_witness`, `f8_witness`, `f12_witness`, `n1_witness`, `n2_witness`, `n3_witness` (the panics the
regression examples above used to be), `frontend_panics_f7_only_if` (F-7 only with `@fold @transform …
@transform`), `frontend_panics_n1_only_if` (N-1 only for a root field `__typename`) and
`frontend_panics_n2_only_if` (N-2 only with an enum literal among a field's arguments). -/

end TF.C10

#print axioms TF.C10.parse_panic_sites
#print axioms TF.C10.parse_total
#print axioms TF.C10.empty_map_witness
#print axioms TF.C10.empty_selection_witness
#print axioms TF.C10.frontend_panic_sites
#print axioms TF.C10.frontend_total_partial
#print axioms TF.C10.frontend_no_enum_panic
#print axioms TF.C10.n4_witness
#print axioms TF.C10.n6_witness
#print axioms TF.C10.frontend_total_false
#print axioms TF.C10.paramDuplicate_witness
#print axioms TF.C10.schema_parse_params_distinct
