/-
C10 — The frontend never panics on any query text.

"For any schema accepted by schema validation and any query string, compiling the query either
returns a compiled query or a typed error; it never panics."

The text → AST GraphQL parser is an external crate and is not modelled; the model's input is the
abstract document it produces (`TF.FE.Doc`).  Stage 1 (this part of the file): the parse layer
`graphql_query::query::parse_document` (`TF.FE.parseDocument`).

Full statement (FALSE on the pinned tree, witness `parse_total_false` below):

    theorem parse_total : ∀ doc : Doc, ∀ s, parseDocument doc ≠ .panic s

What is proved instead:
* `parse_panic_sites`   — of the 14 panic sites of query.rs / directives.rs, only three can fire,
                          all inside `try_get_query_root`; each with its exact condition
                          (`parse_panics_f6_iff`, `parse_panics_empty_map_iff`,
                          `parse_panics_empty_selection_iff`);
* two of the three need an `ExecutableDocument` that the text grammar cannot produce
  (`selection_set = "{" selection+ "}"`, and a `Multiple` map is created on its first insertion):
  they are excluded by `ParserProducible`;
* the third is the defect F-6 (a document with exactly two named operations):
  `parse_total_partial : ParserProducible doc → NoKnownParseTrigger doc → no panic`.
-/
import TrustfallModel.Proofs.QueryParse

namespace TF.C10
open TF.FE

/-- Structural facts every document produced by `async_graphql_parser::parse_query` satisfies and
that the parse layer relies on: a `DocumentOperations::Multiple` map has at least one entry, and
every operation's selection set has at least one item. -/
def ParserProducible (doc : Doc) : Prop :=
  match doc.ops with
  | .single op => op.sels ≠ []
  | .multiple l => l ≠ [] ∧ ∀ p ∈ l, p.2.sels ≠ []

instance (doc : Doc) : Decidable (ParserProducible doc) := by
  unfold ParserProducible
  split <;> infer_instance

/-- The confirmed defect class of the parse layer, **F-6**: no fragment definitions and exactly
two (named) operations. -/
def F6Trigger (doc : Doc) : Prop :=
  doc.frags = [] ∧ ∃ a b, doc.ops = .multiple [a, b]

instance (doc : Doc) : Decidable (F6Trigger doc) := by
  unfold F6Trigger
  refine @instDecidableAnd _ _ ?_ ?_
  · cases doc.frags <;> infer_instance
  · match doc.ops with
    | .single _ => exact isFalse (by rintro ⟨a, b, h⟩; cases h)
    | .multiple [] => exact isFalse (by rintro ⟨a, b, h⟩; cases h)
    | .multiple [_] => exact isFalse (by rintro ⟨a, b, h⟩; cases h)
    | .multiple [a, b] => exact isTrue ⟨a, b, rfl⟩
    | .multiple (_ :: _ :: _ :: _) => exact isFalse (by rintro ⟨a, b, h⟩; cases h)

/-- The guard of the partial theorem: the document is not in a known defect class. -/
def NoKnownParseTrigger (doc : Doc) : Prop := ¬ F6Trigger doc

instance (doc : Doc) : Decidable (NoKnownParseTrigger doc) := by
  unfold NoKnownParseTrigger; infer_instance

/-! ### Witnesses (each replayed against the real `parse_document` by the harness corpus) -/

/-- `{ Zero { value @output } }` as an operation. -/
def opZero : Operation :=
  ⟨.query, 0, [], [.field ⟨none, "Zero", [], []⟩ [.field ⟨none, "value", [], [⟨"output", []⟩]⟩ []]]⟩

/-- `query A { Zero { value @output } } query B { Zero { value @output } }`. -/
def docTwoOperations : Doc := ⟨.multiple [("A", opZero), ("B", opZero)], []⟩

/-- **F-6**: a document with exactly two operations panics (`nth(2)` on a two-element iterator,
query.rs:132). -/
theorem f6_witness : parseDocument docTwoOperations = .panic .opsNth2 :=
  Res.cls_eq_panic.mp (by decide)

/-- … so the full statement is false. -/
theorem parse_total_false : ¬ ∀ doc : Doc, ∀ s, parseDocument doc ≠ .panic s :=
  fun h => h docTwoOperations .opsNth2 f6_witness

/-- Three operations are *not* in the class: the error is returned. -/
example : (parseDocument ⟨.multiple [("A", opZero), ("B", opZero), ("C", opZero)], []⟩).cls
    = .err .MultipleOperationsInDocument := by decide
/-- One named operation is accepted. -/
example : (parseDocument ⟨.multiple [("A", opZero)], []⟩).panicSite? = none := by decide
/-- Two operations *and* a fragment definition: the fragment error comes first. -/
example : (parseDocument ⟨.multiple [("A", opZero), ("B", opZero)], [⟨"F", "Number", [], []⟩]⟩).cls
    = .err .DocumentContainsNonInlineFragments := by decide

/-- Not producible by any text: an empty `Multiple` map reaches `unreachable!` (query.rs:139). -/
theorem empty_map_witness : parseDocument ⟨.multiple [], []⟩ = .panic .opsMultipleEmpty :=
  Res.cls_eq_panic.mp (by decide)
/-- Not producible by any text: an empty selection set reaches `root_items[1]` (query.rs:172). -/
theorem empty_selection_witness :
    parseDocument ⟨.single ⟨.query, 0, [], []⟩, []⟩ = .panic .rootItemsIndex :=
  Res.cls_eq_panic.mp (by decide)

/-! ### The theorems -/

/-- Only three of the parse layer's panic sites can fire, with these conditions. -/
theorem parse_panic_sites {doc : Doc} {s : Site} (h : parseDocument doc = .panic s) :
    doc.frags = [] ∧
    ((s = .opsNth2 ∧ doc.opCount = 2 ∧ ∃ l, doc.ops = .multiple l) ∨
     (s = .opsMultipleEmpty ∧ doc.ops = .multiple []) ∨
     (s = .rootItemsIndex ∧ ∃ op, doc.soleOperation? = some op ∧ op.sels = [])) :=
  tryGetQueryRoot_panic (parseDocument_panic h)

/-- F-6 exactly: `parse_document` panics at query.rs:132 iff there is no fragment definition and
there are exactly two operations. -/
theorem parse_panics_f6_iff (doc : Doc) : parseDocument doc = .panic .opsNth2 ↔ F6Trigger doc := by
  constructor
  · intro h
    obtain ⟨hfr, hcase⟩ := parse_panic_sites h
    rcases hcase with ⟨_, hcount, l, hl⟩ | ⟨hs, _⟩ | ⟨hs, _⟩
    · refine ⟨hfr, ?_⟩
      simp only [Doc.opCount, hl] at hcount
      match l, hcount with
      | [a, b], _ => exact ⟨a, b, hl⟩
    · cases hs
    · cases hs
  · rintro ⟨hfr, a, b, hops⟩
    obtain ⟨ops, frags⟩ := doc
    simp only at hfr hops
    subst hfr hops
    simp [parseDocument, tryGetQueryRoot]

/-- The parse layer is total on every document a query text can produce, outside F-6. -/
theorem parse_total_partial {doc : Doc} (hp : ParserProducible doc) (hk : NoKnownParseTrigger doc) :
    ∀ s, parseDocument doc ≠ .panic s := by
  intro s h
  obtain ⟨hfr, hcase⟩ := parse_panic_sites h
  rcases hcase with ⟨hs, _, _⟩ | ⟨_, hops⟩ | ⟨_, op, hop, hsel⟩
  · subst hs
    exact hk ((parse_panics_f6_iff doc).mp h)
  · unfold ParserProducible at hp
    rw [hops] at hp
    exact hp.1 rfl
  · unfold ParserProducible at hp
    unfold Doc.soleOperation? at hop
    split at hop
    · rename_i op' hops
      cases hop
      rw [hops] at hp
      exact hp hsel
    · rename_i n op' hops
      cases hop
      rw [hops] at hp
      exact hp.2 (n, op) (by simp) hsel
    · cases hop

/-! Non-vacuity: the guards hold of ordinary documents and the theorem applies to them. -/
example : ParserProducible ⟨.single opZero, []⟩ ∧ NoKnownParseTrigger ⟨.single opZero, []⟩ := by decide
example : ParserProducible docTwoOperations ∧ ¬ NoKnownParseTrigger docTwoOperations := by decide

end TF.C10

#print axioms TF.C10.f6_witness
#print axioms TF.C10.parse_total_false
#print axioms TF.C10.parse_panic_sites
#print axioms TF.C10.parse_panics_f6_iff
#print axioms TF.C10.parse_total_partial
