/-
C11 — compiled queries are structurally well-formed.

`toIR` (Model/Frontend.lean) is the model of the real frontend on the query-tree language of
ENGINE_PROTOCOL.md; it is compared with the real frontend IR-for-IR on every generated accepted
query by `./check C11`.  `WF` (Model/IRWF.lean) is the decidable conjunction of the property's
clauses; the theorems below are its clauses for every query the modelled frontend accepts, over
every schema view.  `WF` is additionally evaluated on every real IR by the driver.
-/
import TrustfallModel.Proofs.FrontendTags

namespace TF.C11
open TF TF.Engine TF.Frontend TF.Spec

/-- Clauses 1 and 4: edge `i` leads to vertex `i + 1` (plain edges and folds, at every depth);
`from_vid < to_vid`; a plain edge's endpoints are vertices of its own component; a fold leaves
from a vertex of its parent component and enters the root of its own component, which is one of
that component's vertices. -/
theorem toIR_edge_numbering {S : SchemaView} {q : Query} {ir : IRQuery} (h : toIR S q = .ok ir) :
    wfNumberingC ir.rootComponent = true ∧ wfEndpointsC ir.rootComponent = true :=
  ⟨(toIR_numbering_endpoints h).1, (toIR_numbering_endpoints h).2.1⟩

/-- Clause 2: every Vid and every Eid occurs exactly once in the whole query (so every vertex and
edge belongs to exactly one, possibly folded, component). -/
theorem toIR_ids_unique {S : SchemaView} {q : Query} {ir : IRQuery} (h : toIR S q = .ok ir) :
    wfUnique ir.rootComponent = true :=
  (toIR_unique h).1

/-- Clause 3: the Eids of a fold's component, sub-components included, are exactly the interval
that starts right after the fold's own Eid (so folds precede their contents), and the Eids of the
whole query are the interval starting at 1. -/
theorem toIR_fold_intervals {S : SchemaView} {q : Query} {ir : IRQuery} (h : toIR S q = .ok ir) :
    wfIntervals ir.rootComponent = true := by
  simp only [wfIntervals, Bool.and_eq_true]
  exact ⟨(toIR_unique h).2, (toIR_numbering_endpoints h).2.2⟩

/-- Clause 7: every variable use (in a vertex filter or a fold post-filter, at any depth) names a
variable of the query-level `variables` map, and the type recorded there is a scalar-only subtype
of the type recorded at the use (`vref.variable_type.is_scalar_only_subtype(var_type)`). -/
theorem toIR_variables_recorded {S : SchemaView} {q : Query} {ir : IRQuery}
    (h : toIR S q = .ok ir) : wfVarsC ir.variables ir.rootComponent = true :=
  toIR_vars h

/-- Clause 5: tags are defined at vertices resolved before their uses.  Every tag operand `r` of a
filter at vertex `v` (for a fold's post-filter, `v` is the fold's root, as in `make_fold`) has
`defined_at(r) ≤ v`, and `r` is either defined in the using component (a vertex of it, or the count
of one of its folds) or imported by an enclosing fold; every imported tag of a fold is defined in
the fold's parent component at a vertex `≤` the fold's root.  With clause 1 (vertex `u` is recorded
by edge `u - 1`) this is the execution order. -/
theorem toIR_tags_defined_before_use {S : SchemaView} {q : Query} {ir : IRQuery}
    (h : toIR S q = .ok ir) : wfTagsC [] ir.rootComponent = true :=
  (toIR_tags_imports h).1

/-- Clause 6: `fold.imported_tags`, as a set, is exactly the set of tagged fields used inside the
fold at any depth (vertex filters, post-filters of nested folds) and defined in the fold's parent
component.  (The list may contain a field twice — F-10 — which is why this is a statement about
sets; a field defined further out is imported by the fold directly below *its* component, and
reaches inner folds through the context, which clause 5 accounts for.) -/
theorem toIR_imports_exact {S : SchemaView} {q : Query} {ir : IRQuery} (h : toIR S q = .ok ir) :
    wfImportsC ir.rootComponent = true :=
  (toIR_tags_imports h).2

/-- C11: every query the (modelled) frontend accepts, over any schema, compiles to a structurally
well-formed IR. -/
theorem toIR_wf {S : SchemaView} {q : Query} {ir : IRQuery} (h : toIR S q = .ok ir) :
    WF ir = true := by
  simp only [WF, Bool.and_eq_true]
  exact ⟨⟨⟨⟨⟨⟨(toIR_edge_numbering h).1, toIR_ids_unique h⟩, toIR_fold_intervals h⟩,
    (toIR_edge_numbering h).2⟩, toIR_tags_defined_before_use h⟩, toIR_imports_exact h⟩,
    toIR_variables_recorded h⟩

end TF.C11

#print axioms TF.C11.toIR_edge_numbering
#print axioms TF.C11.toIR_ids_unique
#print axioms TF.C11.toIR_fold_intervals
#print axioms TF.C11.toIR_variables_recorded
#print axioms TF.C11.toIR_tags_defined_before_use
#print axioms TF.C11.toIR_imports_exact
#print axioms TF.C11.toIR_wf
