/-
C11 — compiled queries are structurally well-formed.

`toIR` (Model/Frontend.lean) is the model of the real frontend on the query-tree language of
ENGINE_PROTOCOL.md; it is compared with the real frontend IR-for-IR on every generated accepted
query by `./check C11`.  `WF` (Model/IRWF.lean) is the decidable conjunction of the property's
clauses; the theorems below are its clauses for every query the modelled frontend accepts, over
every schema view (clause 6 includes, since the repair of F-10, that a fold's imported tags are
pairwise distinct).  `WF` is additionally evaluated on every real IR by the driver.
-/
import TrustfallModel.Proofs.FrontendIndexed

namespace TF.C11
open TF TF.Engine TF.Frontend TF.Spec

/-- Clauses 1 and 4: edge `i` leads to vertex `i + 1` (plain edges and folds, at every depth);
`from_vid < to_vid`; a plain edge's endpoints are vertices of its own component; a fold leaves
from a vertex of its parent component and enters the root of its own component, which is one of
that component's vertices. -/
theorem toIR_edge_numbering {S : SchemaView} {q : Query} {ir : IRQuery} (h : toIR S q = .ok ir) :
    wfNumberingC ir.rootComponent = true ∧ wfEndpointsC ir.rootComponent = true :=
  ⟨(toIR_numbering_endpoints h).1, (toIR_numbering_endpoints h).2.1⟩

/-- Clause 2: every Vid and every Eid occurs exactly once in the whole query (so every vertex and
edge belongs to exactly one, possibly folded, component). -/
theorem toIR_ids_unique {S : SchemaView} {q : Query} {ir : IRQuery} (h : toIR S q = .ok ir) :
    wfUnique ir.rootComponent = true :=
  (toIR_unique h).1

/-- Clause 3: the Eids of a fold's component, sub-components included, are exactly the interval
that starts right after the fold's own Eid (so folds precede their contents), and the Eids of the
whole query are the interval starting at 1. -/
theorem toIR_fold_intervals {S : SchemaView} {q : Query} {ir : IRQuery} (h : toIR S q = .ok ir) :
    wfIntervals ir.rootComponent = true := by
  simp only [wfIntervals, Bool.and_eq_true]
  exact ⟨(toIR_unique h).2, (toIR_numbering_endpoints h).2.2⟩

/-- Clause 7: every variable use (in a vertex filter or a fold post-filter, at any depth) names a
variable of the query-level `variables` map, and the type recorded there is a scalar-only subtype
of the type recorded at the use (`vref.variable_type.is_scalar_only_subtype(var_type)`). -/
theorem toIR_variables_recorded {S : SchemaView} {q : Query} {ir : IRQuery}
    (h : toIR S q = .ok ir) : wfVarsC ir.variables ir.rootComponent = true :=
  toIR_vars h

/-- Clause 5: tags are defined at vertices resolved before their uses.  Every tag operand `r` of a
filter at vertex `v` (for a fold's post-filter, `v` is the fold's root, as in `make_fold`) has
`defined_at(r) ≤ v`, and `r` is either defined in the using component (a vertex of it, or the count
of one of its folds) or imported by an enclosing fold; every imported tag of a fold is defined in
the fold's parent component at a vertex `≤` the fold's root.  With clause 1 (vertex `u` is recorded
by edge `u - 1`) this is the execution order. -/
theorem toIR_tags_defined_before_use {S : SchemaView} {q : Query} {ir : IRQuery}
    (h : toIR S q = .ok ir) : wfTagsC [] ir.rootComponent = true :=
  (toIR_tags_imports h).1

/-- Clause 6: `fold.imported_tags` is exactly the set of tagged fields used inside the fold at any
depth (vertex filters, post-filters of nested folds) and defined in the fold's parent component.
(A field defined further out is imported by the fold directly below *its* component, and reaches
inner folds through the context, which clause 5 accounts for.) -/
theorem toIR_imports_exact {S : SchemaView} {q : Query} {ir : IRQuery} (h : toIR S q = .ok ir) :
    wfImportsC ir.rootComponent = true :=
  (toIR_tags_imports h).2

/-- Clause 6, second half: the imported tags of a fold are pairwise distinct — a tag used several
times inside one fold is imported once (`reference_tag` pushes a field only if the slot does not
contain it yet).  History: before the repair of F-10 the list could contain a field twice and the
interpreter, which inserts and removes every import exactly once, panicked on the second removal
(`imported_tags.remove(..).unwrap()`); clause 6 was then a statement about sets only. -/
theorem toIR_imports_distinct {S : SchemaView} {q : Query} {ir : IRQuery} (h : toIR S q = .ok ir) :
    wfImportsDistinctC ir.rootComponent = true :=
  Frontend.toIR_imports_distinct h

/-- C11: every query the (modelled) frontend accepts, over any schema, compiles to a structurally
well-formed IR. -/
theorem toIR_wf {S : SchemaView} {q : Query} {ir : IRQuery} (h : toIR S q = .ok ir) :
    WF ir = true := by
  simp only [WF, Bool.and_eq_true]
  exact ⟨⟨⟨⟨⟨⟨⟨(toIR_edge_numbering h).1, toIR_ids_unique h⟩, toIR_fold_intervals h⟩,
    (toIR_edge_numbering h).2⟩, toIR_tags_defined_before_use h⟩, toIR_imports_exact h⟩,
    toIR_variables_recorded h⟩, toIR_imports_distinct h⟩

/-- `IndexedQuery::try_from` (model `indexedOk`, compared with the real one on every real IR)
accepts every well-formed query whose outputs are in order (`outputsOk`: each output is read at a
vertex of its own component and no output name occurs twice — conditions `try_from` checks that
are not among the clauses of C11). -/
theorem wf_indexed_ok {ir : IRQuery} (hwf : WF ir = true) (ho : outputsOk ir = true) :
    indexedOk ir = true :=
  indexed_ok_of_wf hwf ho

/-- The outputs of a compiled query are in order. -/
theorem toIR_outputs {S : SchemaView} {q : Query} {ir : IRQuery} (h : toIR S q = .ok ir) :
    outputsOk ir = true :=
  toIR_outputs_ok h

/-- The `unwrap()` of `IndexedQuery::try_from` in `frontend::parse` is safe: every compiled query
is accepted. -/
theorem toIR_indexed_ok {S : SchemaView} {q : Query} {ir : IRQuery} (h : toIR S q = .ok ir) :
    indexedOk ir = true :=
  indexed_ok_of_wf (toIR_wf h) (toIR_outputs_ok h)

/-! ### non-vacuity -/

/-- one type `T` with a property `s : String` and an edge `e : [T]`; root `R : [T]` -/
def exSchema : SchemaView :=
  ⟨[⟨"T", false, [], [("s", ⟨"String", [true]⟩)], [⟨"e", "T", ⟨"T", [true, true]⟩, []⟩]⟩],
   [⟨"R", "T", ⟨"T", [true, true]⟩, []⟩]⟩

/-- `{ R { s @tag(name: "a") @output(name: "o")
          e @fold { s @filter(op: "=", value: ["%a"]) @output(name: "p")
                    e @fold { s @filter(op: "=", value: ["%a"]) @output(name: "q") } } } }` -/
def exQuery : Query :=
  ⟨"R", [], .mk none [
    .prop "s" [.tag "a", .output "o"],
    .edge "e" [] (.fold []) (.mk none [
      .prop "s" [.filter (.bin .equals) (.tag "a"), .output "p"],
      .edge "e" [] (.fold []) (.mk none [
        .prop "s" [.filter (.bin .equals) (.tag "a"), .output "q"]])])]⟩

def accepted : M IRQuery → Bool
  | .ok _ => true
  | .error _ => false

example : accepted (toIR exSchema exQuery) = true := by decide +kernel

/-- the inner fold does not list the tag it only inherits: imports of the outer fold `[ctx 1 s]`
(once, although the tag is used twice inside it — regression example for F-10, formerly `[1, 1]`),
of the inner fold `[]` -/
def importsOf : M IRQuery → List (List Nat)
  | .ok ir =>
    ir.rootComponent.folds.flatMap fun f =>
      [f.imports.map definedAt] ++ f.component.folds.map fun g => g.imports.map definedAt
  | .error _ => []

example : importsOf (toIR exSchema exQuery) = [[1], []] := by decide +kernel

/-- `WF` rejects an import list with a repetition (the shape the frontend produced before the repair
of F-10). -/
example : wfImportsDistinctC (.mk 1 [⟨1, "T", none, []⟩] []
    [.mk 1 1 2 "e" [] (.mk 2 [⟨2, "T", none, []⟩] [] [] [])
      [.ctx 1 "s" ⟨"String", [true]⟩, .ctx 1 "s" ⟨"String", [true]⟩] [] []] []) = false := by
  decide +kernel

/-- `WF` is not vacuous: an edge `1` leading to vertex `3` is rejected. -/
example : WF ⟨"R", [], [], .mk 1 [⟨1, "T", none, []⟩, ⟨3, "T", none, []⟩]
    [⟨1, 1, 3, "e", [], false, none⟩] [] []⟩ = false := by decide +kernel

end TF.C11

#print axioms TF.C11.toIR_edge_numbering
#print axioms TF.C11.toIR_ids_unique
#print axioms TF.C11.toIR_fold_intervals
#print axioms TF.C11.toIR_variables_recorded
#print axioms TF.C11.toIR_tags_defined_before_use
#print axioms TF.C11.toIR_imports_exact
#print axioms TF.C11.toIR_imports_distinct
#print axioms TF.C11.toIR_wf
#print axioms TF.C11.wf_indexed_ok
#print axioms TF.C11.toIR_outputs
#print axioms TF.C11.toIR_indexed_ok
