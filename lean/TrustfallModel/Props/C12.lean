/-
C12 — Argument validation accepts exactly the well-typed, complete argument maps.

Statements are about `TF.Args.validate` (`Model/ArgCheck.lean`), the model of
`InterpretedQuery::from_query_and_arguments` + `validate_argument_type`
(trustfall_core/src/interpreter/mod.rs) over the mask-based `Ty.isValidValue` of `Model/Ty.lean`.
`vars` is `ir_query.variables` and `args` the argument map, both as association lists in the maps'
iteration order; `N` is any type of names with decidable equality; values are arbitrary (`Value`,
any nesting).  Variable types are arbitrary *well-formed* types (any base name, ≤ 30 list levels:
every `Type` value is well-formed, C17 `wf_*`).

"Well-typed" is stated against an independent, declarative relation `Args.Conforms base shape v`
(`Proofs/Args.lean`): `null` iff the level is nullable; integers (either representation) for a
non-list `Int`; floats / strings / booleans for non-list `Float` / `String` / `Boolean`; a list for
a list type when every element conforms to the element type; an enum value conforms to nothing.

History (F-14, repaired): `is_valid_value` used to hit `unimplemented!("enum values are not currently
supported")` on a `FieldValue::Enum` reached by its traversal, so the call panicked instead of
refusing with an `ArgumentTypeError`; the refusal half was proved only as `validate_refused_partial`
(guard: no supplied value reaches an enum leaf), with `validate_panics_iff` / `valid_panics_iff` the
exact panic condition, `validate_total_partial` (enum-free arguments never panic) and the witness
`validate_enum_panics`.  The enum arm is `false` now; the statements below are the full ones:
`validate_refused`, `validate_total`, `validate_accepts_or_refuses` carry no guard, the former panic
condition `Reaches` is shown to be refused (`valid_reaches_refused`), and the old witnesses are
regression `example`s that evaluate to the `ArgumentTypeError`.
-/
import TrustfallModel.Proofs.Args

namespace TF.C12
open TF Ty Shape Args

section
variable {N : Type} [DecidableEq N]

/-- Accepted exactly when every variable has a value that `is_valid_value` accepts and every
supplied name is a variable. -/
theorem validate_iff (vars : List (N × Ty)) (args : List (N × Value)) :
    validate vars args = .ok (.ok ()) ↔
      (∀ nt, nt ∈ vars → ∃ x, getArg args nt.1 = some x ∧ isValidValue nt.2 x = true) ∧
      (∀ kv, kv ∈ args → ∃ t, (kv.1, t) ∈ vars) :=
  validate_ok_iff vars args

/-- `is_valid_value` decides the declarative well-typedness relation (all depths ≤ 30, all base
names, all values incl. enums — which conform to nothing and are never accepted). -/
theorem valid_iff_welltyped {t : Ty} (ht : WF t) (v : Value) :
    isValidValue t v = true ↔ Conforms t.base t.shape v := by
  obtain ⟨s, hd, he⟩ := ht.exists_shape
  rw [he, isValidValue_ofShape, shape_ofShape]
  exact valid_iff_conforms _ s v

/-- The property's acceptance half against the independent specification: accepted exactly for the
complete, extra-free, well-typed argument maps. -/
theorem validate_iff_welltyped (vars : List (N × Ty)) (args : List (N × Value))
    (hw : ∀ nt, nt ∈ vars → WF nt.2) :
    validate vars args = .ok (.ok ()) ↔
      (∀ nt, nt ∈ vars → ∃ x, getArg args nt.1 = some x ∧ Conforms nt.2.base nt.2.shape x) ∧
      (∀ kv, kv ∈ args → ∃ t, (kv.1, t) ∈ vars) := by
  rw [validate_iff]
  constructor
  · intro ⟨h1, h2⟩
    refine ⟨fun nt hm => ?_, h2⟩
    obtain ⟨x, hx, hv⟩ := h1 nt hm
    exact ⟨x, hx, (valid_iff_welltyped (hw nt hm) x).mp hv⟩
  · intro ⟨h1, h2⟩
    refine ⟨fun nt hm => ?_, h2⟩
    obtain ⟨x, hx, hv⟩ := h1 nt hm
    exact ⟨x, hx, (valid_iff_welltyped (hw nt hm) x).mpr hv⟩

/-- The call never panics — for all variable types and all argument values, enum leaves included
(the `assert!` of `errors.into()` is never reached either).  Full statement; it was
`validate_total_partial` under the guard "every supplied value is enum-free" before the repair of
F-14. -/
theorem validate_total (vars : List (N × Ty)) (args : List (N × Value)) :
    validate vars args ≠ .panic := by
  intro h
  have spec := validate_spec vars args
  by_cases h0 : errorsOf vars args = []
  · rw [spec.1 h0] at h; cases h
  · obtain ⟨e, he, _⟩ := spec.2 h0
    rw [he] at h; cases h

/-- The values on which `is_valid_value` used to panic — its traversal reaches an enum leaf: the
value is an enum, or it is a list checked against a list type whose first not-well-typed element
reaches one (the former `valid_panics_iff : isValidValue t v = .panic ↔ Reaches t.base t.shape v`) —
are now refused: the check answers `false`. -/
theorem valid_reaches_refused {t : Ty} (ht : WF t) (v : Value) (h : Reaches t.base t.shape v) :
    isValidValue t v = false := by
  obtain ⟨s, hd, he⟩ := ht.exists_shape
  rw [he, shape_ofShape] at h
  rw [he, isValidValue_ofShape]
  exact reaches_not_valid h

/-- Refusal, with the error naming exactly the offending variables — the full statement, no side
condition (it was `validate_refused_partial`, guarded by "no supplied value of a variable makes the
check panic", before the repair of F-14).  `errorsOf` is: one `ArgumentTypeError(name, type, value)`
per variable whose value is not valid, in variable order; then one `MissingArguments(names)` if any
variable has no value, names in variable order; then one `UnusedArguments(names)` if any supplied
name is not a variable, names in argument order (`mem_illTyped`, `mem_missing`, `mem_unused` below
say exactly which names these are).  A single error is returned as itself, several as
`MultipleErrors` (`ArgsError.errors` flattens both). -/
theorem validate_refused (vars : List (N × Ty)) (args : List (N × Value))
    (hne : errorsOf vars args ≠ []) :
    ∃ e, validate vars args = .ok (.error e) ∧ e.errors = errorsOf vars args :=
  (validate_spec vars args).2 hne

/-- The complete behaviour: the call accepts when the `errors` vector is empty and refuses with
exactly that vector otherwise; there is no third outcome (was: `validate_panics_iff`, the third
outcome's exact condition). -/
theorem validate_accepts_or_refuses (vars : List (N × Ty)) (args : List (N × Value)) :
    (errorsOf vars args = [] ∧ validate vars args = .ok (.ok ())) ∨
    (errorsOf vars args ≠ [] ∧
      ∃ e, validate vars args = .ok (.error e) ∧ e.errors = errorsOf vars args) := by
  by_cases h0 : errorsOf vars args = []
  · exact Or.inl ⟨h0, (validate_spec vars args).1 h0⟩
  · exact Or.inr ⟨h0, (validate_spec vars args).2 h0⟩

/-- Conversely every refusal carries exactly `errorsOf` (and it is non-empty). -/
theorem validate_names (vars : List (N × Ty)) (args : List (N × Value)) {e : ArgsError N}
    (h : validate vars args = .ok (.error e)) :
    e.errors = errorsOf vars args ∧ errorsOf vars args ≠ [] := by
  have spec := validate_spec vars args
  by_cases h0 : errorsOf vars args = []
  · rw [spec.1 h0] at h; cases h
  · obtain ⟨e', he', hee⟩ := spec.2 h0
    rw [he'] at h
    cases h
    exact ⟨hee, h0⟩

/-- Which variables get an `ArgumentTypeError`: those with a supplied value that is checked to be
not valid; the error carries the name, the type and the value. -/
theorem names_illTyped {vars : List (N × Ty)} {args : List (N × Value)} {e : ArgErr N} :
    e ∈ illTyped vars args ↔ ∃ nt, nt ∈ vars ∧ ∃ v, getArg args nt.1 = some v ∧
      isValidValue nt.2 v = false ∧ e = .argumentTypeError nt.1 nt.2 v := mem_illTyped

/-- Which names `MissingArguments` lists: the variables without a supplied value. -/
theorem names_missing {vars : List (N × Ty)} {args : List (N × Value)} {n : N} :
    n ∈ missing vars args ↔ (∃ t, (n, t) ∈ vars) ∧ getArg args n = none := mem_missing

/-- Which names `UnusedArguments` lists: the supplied names that are not variables. -/
theorem names_unused {vars : List (N × Ty)} {args : List (N × Value)} {k : N} :
    k ∈ unusedArguments vars args ↔ (∃ v, (k, v) ∈ args) ∧ ¬ ∃ t, (k, t) ∈ vars := mem_unused

end

/-- Regression for F-14 (was the witness theorem `validate_enum_panics … = .panic`): variable
`0 : Int`, argument `0 ↦ Enum "a"` — the call refuses with the single `ArgumentTypeError`. -/
example : validate [((0 : Nat), Ty.ofShape INT (.named true))] [(0, .enum [97])]
    = .ok (.error (.single (.argumentTypeError 0 (Ty.ofShape INT (.named true)) (.enum [97])))) := rfl

/-- Regression (was `validate_enum_not_reached`, whose third clause was `= .panic`): an enum under
a name that is not a variable is reported as unused; behind a `null` in a `[Int!]` the list is
ill-typed; and behind a `null` in a `[Int]` — where the traversal reaches it — it is an
`ArgumentTypeError` too. -/
example :
    (∃ e, validate [((0 : Nat), Ty.ofShape INT (.named true))] [(0, .int64 1), (1, .enum [97])]
        = .ok (.error e) ∧ e.errors.length = 1) ∧
    (∃ e, validate [((0 : Nat), Ty.ofShape INT (.list true (.named false)))]
        [(0, .list [.null, .enum [97]])] = .ok (.error e) ∧ e.errors.length = 1) ∧
    validate [((0 : Nat), Ty.ofShape INT (.list true (.named true)))]
        [(0, .list [.null, .enum [97]])] = .ok (.error (.single (.argumentTypeError 0
          (Ty.ofShape INT (.list true (.named true))) (.list [.null, .enum [97]])))) := by
  refine ⟨⟨_, rfl, rfl⟩, ⟨_, rfl, rfl⟩, rfl⟩
example : Reaches INT (.list true (.named true)) (.list ([.null] ++ .enum [97] :: [])) :=
  Reaches.list (by intro p hp; simp at hp; subst hp; exact Conforms.null rfl) Reaches.enum

/-! ### The type the query implies for a variable -/

/-- The inferred type (running `intersect` over the use types, as `fill_in_query_variables` does)
accepts exactly the values every use accepts: it is the greatest lower bound of the use types. -/
theorem inferred_type_glb {uses : List Ty} (hu : ∀ u, u ∈ uses → WF u) {t : Ty}
    (h : inferType uses = .ok (some t)) (x : Value) :
    isValidValue t x = true ↔ ∀ u, u ∈ uses → isValidValue u x = true := by
  cases uses with
  | nil => simp [inferType] at h
  | cons first rest =>
    obtain ⟨t', bad, hl, _, hgood, _⟩ := inferLoop_spec (hu first (by simp)) (first :: rest) hu
    simp only [inferType, hl] at h
    cases bad with
    | true => simp at h
    | false =>
      simp at h
      subst h
      rw [hgood rfl x]
      constructor
      · intro ⟨_, h2⟩; exact h2
      · intro h2; exact ⟨h2 first (by simp), h2⟩

/-- Inference never panics on well-formed use types, its result is well-formed, and it fails (the
frontend then refuses the query with `IncompatibleVariableTypeRequirements`: there is no compiled
query and hence no argument error) exactly when some use differs from the first one in base name
or list depth. -/
theorem inferred_type_none_iff (first : Ty) (rest : List Ty) (hu : ∀ u, u ∈ first :: rest → WF u) :
    (∃ r, inferType (first :: rest) = .ok r ∧ ∀ t, r = some t → WF t) ∧
    (inferType (first :: rest) = .ok none ↔
      ∃ u, u ∈ rest ∧ equalIgnoringNullability first u = false) := by
  have hf := hu first (by simp)
  obtain ⟨t', bad, hl, hwt, _, hbad⟩ := inferLoop_spec hf (first :: rest) hu
  have hb : bad = true ↔ ∃ u, u ∈ rest ∧ equalIgnoringNullability first u = false := by
    rw [hbad]
    constructor
    · intro ⟨u, hm, hf'⟩
      cases List.mem_cons.mp hm with
      | inl h => subst h; rw [C17.eqIgnNull_refl hf] at hf'; cases hf'
      | inr h => exact ⟨u, h, hf'⟩
    · intro ⟨u, hm, hf'⟩; exact ⟨u, by simp [hm], hf'⟩
  simp only [inferType, hl]
  cases bad with
  | true =>
    refine ⟨⟨none, rfl, by simp⟩, ?_⟩
    simp only [true_iff]
    exact hb.mp rfl
  | false =>
    refine ⟨⟨some t', rfl, by intro t ht; cases ht; exact hwt⟩, ?_⟩
    simp only [Outcome.ok.injEq, reduceCtorEq, false_iff]
    intro hcon
    have := hb.mpr hcon
    cases this

/-! Non-vacuity. -/

/-- `$n : Int!`, `$xs : [String]`, arguments `n ↦ 5 (unsigned)`, `xs ↦ ["a", null]`: accepted. -/
example : validate [((0 : Nat), Ty.ofShape INT (.named false)), (1, Ty.ofShape STRING (.list true (.named true)))]
    [(0, .uint64 5), (1, .list [.string [97], .null])] = .ok (.ok ()) := by rfl
/-- All three kinds of error at once, in the order the code pushes them. -/
example : ∃ e, validate [((0 : Nat), Ty.ofShape INT (.named false)), (1, Ty.ofShape STRING (.named true))]
    [(0, .null), (7, .int64 1)] = .ok (.error e) ∧ e.errors.length = 3 := ⟨_, rfl, rfl⟩
example : Conforms INT (.list true (.named true)) (.list [.int64 1, .null, .uint64 2]) :=
  Conforms.list (by
    intro x hx
    simp at hx
    rcases hx with rfl | rfl | rfl
    · exact Conforms.int64 rfl
    · exact Conforms.null rfl
    · exact Conforms.uint64 rfl)

end TF.C12

#print axioms TF.C12.validate_iff
#print axioms TF.C12.valid_iff_welltyped
#print axioms TF.C12.validate_iff_welltyped
#print axioms TF.C12.validate_total
#print axioms TF.C12.valid_reaches_refused
#print axioms TF.C12.validate_refused
#print axioms TF.C12.validate_accepts_or_refuses
#print axioms TF.C12.validate_names
#print axioms TF.C12.names_illTyped
#print axioms TF.C12.names_missing
#print axioms TF.C12.names_unused
#print axioms TF.C12.inferred_type_glb
#print axioms TF.C12.inferred_type_none_iff
