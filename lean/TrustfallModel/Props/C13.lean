/-
C13 — "Result rows carry exactly the declared outputs, typed as declared. Each result row contains
exactly the output names the compiled query declares, and each value is valid for the declared
output type: nullable when produced inside @optional, one list level per enclosing @fold (itself
nullable when the fold is inside @optional), and a non-null integer for fold counts outside optional
scopes."

Statements are about the list-level model `interpret` (Model/Interp.lean, tied to
`interpreter/execution.rs` by the `exec` correspondence) and the model `IRQuery.outputs` of
`IndexedQuery::outputs` / `get_output_type` (Model/Outputs.lean, tied by the `outputs`
correspondence).  Hypotheses (all decidable, evaluated on every generated query by the `hyps` driver
command, `Proofs/InterpInvDefs.lean`): `WFq ir` (structural well-formedness of the IR as the engine
relies on it), `SchemaOK S ir` (the IR is typed by the schema), `ArgsOK ir args` (the engine's own
argument validation accepts), `Conforms S D` (the adapter's data is typed by the schema).

Both theorems hold for the whole IR language of the model: @optional, @fold (nested, inside
optional scopes, count outputs), @recurse (with implicit coercion), tags imported into folds,
coercions, edge parameters.  The declared types follow `get_output_type`: the first component of
`validQ` (`Model/Args.lean`) says `null` iff that level is nullable, lists element-wise.
-/
import TrustfallModel.Proofs.InterpInvMain
import TrustfallModel.Proofs.InterpInvWitness
import TrustfallModel.Proofs.FrontendBridge

namespace TF.C13
open TF TF.Engine
open TF.Frontend (SchemaView)

/-- Each result row contains exactly the output names the compiled query declares (in the order
of `IndexedQuery::outputs`, a `BTreeMap`). -/
theorem rows_keys (S : SchemaView) (D : Data) (ir : IRQuery) (args : List (Name × Value))
    (hwf : WFq ir = true) (hso : SchemaOK S ir = true) (hargs : ArgsOK ir args = true)
    (hconf : Conforms S D = true) {rows : List Row}
    (h : interpret (Env.ofData D args) ir = .ok rows) :
    ∀ r ∈ rows, r.map (·.1) = ir.outputs.map (·.name) := by
  have hs := (Engine.exec_safe S D ir args False hwf hso hargs hconf (fun g => g.elim)).2
  rw [h] at hs
  intro r hr
  rw [(hs r hr).1, IRQuery.outputs, map_name_foldr_insertOutSorted]

/-- Each value of a result row is valid for the declared type of its output. -/
theorem rows_typed (S : SchemaView) (D : Data) (ir : IRQuery) (args : List (Name × Value))
    (hwf : WFq ir = true) (hso : SchemaOK S ir = true) (hargs : ArgsOK ir args = true)
    (hconf : Conforms S D = true) {rows : List Row}
    (h : interpret (Env.ofData D args) ir = .ok rows) :
    ∀ r ∈ rows, ∀ p ∈ r, ∃ o ∈ ir.outputs, o.name = p.1 ∧ validQ o.ty p.2 = true := by
  have hs := (Engine.exec_safe S D ir args False hwf hso hargs hconf (fun g => g.elim)).2
  rw [h] at hs
  intro r hr p hp
  obtain ⟨d, hd, hdn, hdv⟩ := (hs r hr).2 p hp
  exact ⟨d, mem_foldr_insertOutSorted.mpr hd, hdn, hdv⟩

/-! ### what the declared types say (the clauses of the property, on `get_output_type`) -/

/-- an output at a vertex that is optional in its component is declared nullable (below the fold
levels); otherwise it keeps the property's own nullability -/
theorem declared_nullable_in_optional (vid : Vid) (base : Name) (b : Bool) (rest : List Bool)
    (opt : List Vid) (folds : List Bool) (h : opt.contains vid = true) :
    outputType vid ⟨base, b :: rest⟩ opt folds = ⟨base, folds ++ true :: rest⟩ := by
  unfold outputType
  rw [if_pos h]

/-- one list level per enclosing fold, outermost first, each nullable iff that fold hangs off an
optional vertex -/
theorem declared_fold_levels (vid : Vid) (ty : QTy) (opt : List Vid) (folds : List Bool) :
    (outputType vid ty opt folds).nulls = folds ++ (outputType vid ty opt []).nulls := by
  simp [outputType]

/-- a fold count outside optional scopes is declared `Int!` below its enclosing fold levels; the only
valid values of `Int!` are integers -/
theorem declared_count (fromVid : Vid) (opt : List Vid) (folds : List Bool)
    (h : opt.contains fromVid = false) :
    outputType fromVid intNonNull opt folds = ⟨"Int", folds ++ [false]⟩ := by
  unfold outputType
  rw [if_neg (by rw [h]; simp)]
  rfl

theorem count_value_is_integer {v : Value} (h : validQ ⟨"Int", [false]⟩ v = true) :
    (∃ i, v = .int64 i) ∨ (∃ u, v = .uint64 u) := by
  cases v <;> simp [validQ, validNulls] at h
  · exact Or.inl ⟨_, rfl⟩
  · exact Or.inr ⟨_, rfl⟩

/-! ### non-vacuity: a concrete world meets all four hypotheses and yields a row

`Witness.F9` (Proofs/InterpInvWitness.lean): a root vertex with an `@optional` edge that is missing for
the only starting vertex, a `@fold` with a count filter hanging off the optional vertex, one output. -/
example : WFq Witness.F9.ir = true ∧ SchemaOK Witness.F9.S Witness.F9.ir = true ∧
    ArgsOK Witness.F9.ir Witness.F9.args = true ∧ Conforms Witness.F9.S Witness.F9.D = true :=
  ⟨Witness.F9.hyps.1, Witness.F9.hyps.2.1, Witness.F9.hyps.2.2.1, Witness.F9.hyps.2.2.2.1⟩

/-- … and on it the two theorems say what the run shows: the row's keys are the declared names, and
its value is valid for the declared type. -/
example : ∀ r ∈ Witness.F9.rows, r.map (·.1) = Witness.F9.ir.outputs.map (·.name) :=
  rows_keys Witness.F9.S Witness.F9.D Witness.F9.ir Witness.F9.args Witness.F9.hyps.1
    Witness.F9.hyps.2.1 Witness.F9.hyps.2.2.1 Witness.F9.hyps.2.2.2.1 Witness.F9.runs

example : ∀ r ∈ Witness.F9.rows, ∀ p ∈ r,
    ∃ o ∈ Witness.F9.ir.outputs, o.name = p.1 ∧ validQ o.ty p.2 = true :=
  rows_typed Witness.F9.S Witness.F9.D Witness.F9.ir Witness.F9.args Witness.F9.hyps.1
    Witness.F9.hyps.2.1 Witness.F9.hyps.2.2.1 Witness.F9.hyps.2.2.2.1 Witness.F9.runs

end TF.C13

/-! ### compiled queries

For the IR of a query the (modelled) frontend accepts, the structural hypothesis `WFq` is a theorem
(`Bridge.toIR_WFq`, Proofs/FrontendBridgeWFq.lean), and `SchemaOK` follows from `ValidSchemaCore S` (a
decidable predicate on the schema view alone: what the real `Schema::parse` guarantees, plus pairwise
distinct parameter names per edge) up to the two sub-clauses about the type a `@recurse` edge
continues on (`Bridge.RecClausesOK`, Proofs/FrontendBridge.lean: finding F-C21-1 and the clause that
needs `InheritedParamsSame`; both vacuous for a query without `@recurse`,
`Bridge.recClausesOK_of_noRecurse`). -/
namespace TF.C13.Compiled
open TF TF.Engine TF.Frontend
open TF.SchemaBridge (ValidSchemaCore)

/-- Each result row of an accepted query contains exactly the output names the compiled query
declares. -/
theorem rows_keys_compiled {S : SchemaView} {q : Spec.Query} {ir : IRQuery}
    (h : toIR S q = .ok ir) (D : Data) (args : List (Name × Value))
    (hV : ValidSchemaCore S = true) (hrec : Bridge.RecClausesOK S ir = true)
    (hargs : ArgsOK ir args = true)
    (hconf : Conforms S D = true) {rows : List Row}
    (hrun : interpret (Env.ofData D args) ir = .ok rows) :
    ∀ r ∈ rows, r.map (·.1) = ir.outputs.map (·.name) :=
  rows_keys S D ir args (Bridge.toIR_WFq h)
    (Bridge.toIR_SchemaOK_core hV h hrec) hargs hconf hrun

/-- Each value of a result row of an accepted query is valid for the declared type of its output. -/
theorem rows_typed_compiled {S : SchemaView} {q : Spec.Query} {ir : IRQuery}
    (h : toIR S q = .ok ir) (D : Data) (args : List (Name × Value))
    (hV : ValidSchemaCore S = true) (hrec : Bridge.RecClausesOK S ir = true)
    (hargs : ArgsOK ir args = true)
    (hconf : Conforms S D = true) {rows : List Row}
    (hrun : interpret (Env.ofData D args) ir = .ok rows) :
    ∀ r ∈ rows, ∀ p ∈ r, ∃ o ∈ ir.outputs, o.name = p.1 ∧ validQ o.ty p.2 = true :=
  rows_typed S D ir args (Bridge.toIR_WFq h)
    (Bridge.toIR_SchemaOK_core hV h hrec) hargs hconf hrun

/-- `{ R0 { s @output(name: "o0")
          e0 @optional { e0 @fold @transform(op: "count") @filter(op: "=", value: ["$v1"]) } } }`
— the query of the F-9 regression world (`Witness.F9`). -/
def exQuery : Spec.Query :=
  ⟨"R0", [], .mk none [
    .prop "s" [.output "o0"],
    .edge "e0" [] .optional (.mk none [
      .edge "e0" [] (.fold [.countFilter (.bin .equals) (.var "v1")]) (.mk none [])])]⟩

def accepted : M IRQuery → Bool
  | .ok _ => true
  | .error _ => false

def getIR : M IRQuery → IRQuery
  | .ok ir => ir
  | .error _ => default

theorem ok_getIR {r : M IRQuery} (h : accepted r = true) : r = .ok (getIR r) := by
  cases r with
  | ok ir => rfl
  | error e => simp [accepted] at h

/-- the IR the frontend model compiles the example query to, over the schema of `Witness.F9` -/
def exIR : IRQuery := getIR (toIR Witness.F9.S exQuery)

theorem ex_compiles : toIR Witness.F9.S exQuery = .ok exIR := ok_getIR (by decide +kernel)

/-- Non-vacuity: the example query is accepted and its IR meets all remaining hypotheses, so the two
theorems apply to every run of it on the dataset of `Witness.F9`. -/
example (rows : List Row)
    (hrun : interpret (Env.ofData Witness.F9.D Witness.F9.args) exIR = .ok rows) :
    (∀ r ∈ rows, r.map (·.1) = exIR.outputs.map (·.name)) ∧
    ∀ r ∈ rows, ∀ p ∈ r, ∃ o ∈ exIR.outputs, o.name = p.1 ∧ validQ o.ty p.2 = true :=
  ⟨rows_keys_compiled ex_compiles _ _ (by decide +kernel)
     (Bridge.recClausesOK_of_noRecurse _ (by decide +kernel))
     (by decide +kernel) (by decide +kernel) hrun,
   rows_typed_compiled ex_compiles _ _ (by decide +kernel)
     (Bridge.recClausesOK_of_noRecurse _ (by decide +kernel))
     (by decide +kernel) (by decide +kernel) hrun⟩

end TF.C13.Compiled

#print axioms TF.C13.rows_keys
#print axioms TF.C13.rows_typed
#print axioms TF.C13.declared_nullable_in_optional
#print axioms TF.C13.declared_fold_levels
#print axioms TF.C13.declared_count
#print axioms TF.C13.count_value_is_integer
#print axioms TF.C13.Compiled.rows_keys_compiled
#print axioms TF.C13.Compiled.rows_typed_compiled
