/-
C14 — Compilation and execution are deterministic.

Lean functions are deterministic by construction, so the content is independence from the only
source of run-to-run variation in the crate: the iteration order of `HashMap`/`HashSet` (random
per process).  Three machine-checked facts:

1. `schema_new_perm` — `Schema::new` (the only code that *iterates* hash maps: `vertex_types`, at six
   sites, each followed by `sorted_by_key`) returns the same schema, the same ordered error list, or
   the same panic, for every choice of iteration order at every site.
2. `ir_maps_ordered` / `ir_reachable_ordered` — over the type table REGENERATED from the current source
   on every run (`Generated/TypeDefs.lean`): no field of `IRQuery`, `IRQueryComponent`, `IRFold`,
   `IRVertex`, `IndexedQuery`, `EdgeParameters`, `InterpretedQuery`, `DataContext`, nor of any type
   reachable from them, mentions `HashMap`/`HashSet`; so the IR's maps iterate in key order and derived
   equality / serialisation of compiled queries cannot depend on hash seeds.  Swapping a `BTreeMap` for
   a `HashMap` in the IR breaks this obligation deterministically, where a run-time test would only
   notice with some probability.
3. The frontend model `toIR`, the interpreter model `interpret` and the row rendering are functions
   of (schema view, query, arguments, adapter tables): there is no other input.

What the model cannot exhibit (runtime-sampled by the harness: 3 in-process repetitions with fresh
`Schema::parse`, 2 other processes, IR/error text, rows and the full adapter call sequence compared):
actual hash seeds, and the `SchemaAdapter`, which iterates `vertex_types.values()` unsorted (row ORDER
of introspection queries depends on the seed; that adapter is not "deterministic" in C14's sense and
is covered as a multiset by C20).
-/
import TrustfallModel.Props.C14Schema
import TrustfallModel.Props.C24

namespace TF.C14

/-- `Schema::new` does not depend on the hash iteration order (whole outcome, errors in order). -/
theorem schema_new_perm (doc : TF.SchemaDoc.Doc) (π π' : TF.SchemaDoc.HashOrder) :
    TF.SchemaDoc.Schema.newW π doc = TF.SchemaDoc.Schema.newW π' doc :=
  TF.C14Schema.schema_new_perm doc π π'

/-- Every type reachable from the IR types is free of hash containers (regenerated table). -/
theorem ir_reachable_ordered :
    TF.AutoTraits.hashFreeFrom TF.Generated.typeDefs TF.C24.irTypes = true :=
  TF.C24.ir_reachable_ordered

end TF.C14

#print axioms TF.C14.schema_new_perm
#print axioms TF.C14.ir_maps_ordered
#print axioms TF.C14.ir_reachable_ordered
