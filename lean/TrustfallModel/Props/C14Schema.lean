/-
C14 (schema part) — `Schema::new` is deterministic across hash seeds.

The only hash-order-sensitive data of `Schema::new` are the `HashMap`s `vertex_types`, `fields`,
`directives`, `scalars`; only `vertex_types` is ever iterated (six sites in `Schema::new`, one in
`Schema::subtypes`), every time through `sorted_by_key(name)`.  The model
(`Model/SchemaDoc.lean`, `Schema.newW`) takes the order in which the map hands out its entries as
an explicit parameter `π : HashOrder`: an arbitrary permutation of the entries, chosen
independently at every iteration site.  The theorems say that the whole result — `Ok(schema)`,
or the error list *in the order reported*, or the panic site — does not depend on `π`, for every
document (no guard, malformed documents included).  Reason: keys of a `HashMap` are distinct, and a
sort by distinct keys forgets the input order (`sortByName_congr`); everything else iterates
`Vec`s, `BTreeMap`s and `BTreeSet`s.  No hash-order-dependent loop was found in `Schema::new`
(in particular the errors of one `check_*` about one type come from `Vec`/`BTree` iterations).
The schema-introspection adapter's `vertex_type_iter` does iterate `vertex_types.values()`
unsorted: its *row order* depends on the hash seed (rows are compared as multisets in C20).
-/
import TrustfallModel.Proofs.SchemaHashOrder

namespace TF.C14Schema
open TF TF.SchemaDoc

/-- Result and error list (in order) of `Schema::new` are the same for any two iteration orders. -/
theorem schema_new_perm (doc : Doc) (π π' : HashOrder) : Schema.newW π doc = Schema.newW π' doc := by
  rw [newW_eq π doc, newW_eq π' doc]

/-- … namely those of the order-free model used by C19/C20 (`Schema.new` = insertion order). -/
theorem schema_new_order_free (doc : Doc) (π : HashOrder) : Schema.newW π doc = Schema.new doc :=
  newW_eq π doc

/-- Each check separately (on the distinct-named `vertex_types` the first loop produces). -/
theorem checks_perm {vts : List TypeDef} (hnd : (vts.map (·.name)).Nodup) (q : TypeDef) (π π' : HashOrder) :
    checkTransitiveW π vts = checkTransitiveW π' vts ∧
    checkNarrowingW π vts = checkNarrowingW π' vts ∧
    checkRequiredFieldsW π vts = checkRequiredFieldsW π' vts ∧
    checkInvariantsW π vts q.name = checkInvariantsW π' vts q.name ∧
    getFieldOriginsW π vts = getFieldOriginsW π' vts := by
  simp [checkTransitiveW_eq _ hnd, checkNarrowingW_eq _ hnd, checkRequiredFieldsW_eq _ hnd,
    checkInvariantsW_eq _ hnd, getFieldOriginsW_eq _ hnd]

/-- `Schema::subtypes` (sorted as well) of a schema with distinct type names. -/
theorem subtypes_perm (s : Schema) (hnd : (s.vertexTypes.map (·.name)).Nodup) (n : Name) (π π' : HashOrder) :
    Schema.subtypesW π s n = Schema.subtypesW π' s n := by
  rw [subtypesW_eq π s hnd, subtypesW_eq π' s hnd]

/-- The sort is what makes it so: sorting any rearrangement of distinct-named definitions gives the
same list. -/
theorem sorted_iteration_perm {l l' : List TypeDef} (hnd : (l.map (·.name)).Nodup) (hp : l'.Perm l) :
    sortByName l' = sortByName l :=
  sortByName_congr hnd hp

/-! Non-vacuity: a genuinely different order (reversal) is a `HashOrder`, and without the sort the
iteration would differ. -/
def reversed : HashOrder := ⟨fun _ l => l.reverse, fun _ l => List.reverse_perm l⟩

example : reversed.perm 519 [⟨"B", false, [], []⟩, ⟨"A", false, [], []⟩] ≠
    HashOrder.insertion.perm 519 [⟨"B", false, [], []⟩, ⟨"A", false, [], []⟩] := by
  simp [reversed, HashOrder.insertion]

end TF.C14Schema

#print axioms TF.C14Schema.schema_new_perm
#print axioms TF.C14Schema.schema_new_order_free
#print axioms TF.C14Schema.checks_perm
#print axioms TF.C14Schema.subtypes_perm
#print axioms TF.C14Schema.sorted_iteration_perm
