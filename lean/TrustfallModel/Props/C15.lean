/-
C15 — Recorded traces replay to the same results.

Three layers (see `Model/Replay.lean`, `Proofs/Replay.lean`, `Proofs/ReplayInterp.lean`):

(a) The principle, for *every* deterministic engine `σ` (its next observable action is a function
of the interaction so far) and *every* adapter `E` (a state machine answering those actions) over
*any* alphabet: the tapped adapter answers as the adapter does and its log is the interaction; an
adapter that answers from that log — and fails on the first action that is not the recorded one —
reproduces the interaction, hence the rows, never reaches a mismatch, uses the log up exactly, and
does not mention the original adapter.  (De)serialisation enters only through the round-trip
identity on the trace datatype, which is an explicit hypothesis (serde's derives for
`Trace<Vertex>` are sampled by the harness, not modelled).

(b) On the model of `trace.rs` / `replay.rs` (`tapEnv`, `readerEnv`: `TraceOp`s with opids and
`parent_opid`, the five reader iterators with their assertions): the tap is transparent, and
concrete recorded op sequences replay through the reader (checked examples).

(c) On the list-level interpreter `Engine.interpret` (the model the correspondence ties to the real
engine): a memoising replay adapter built from a table of recorded answers yields exactly the rows
of the direct run or stops at a call that is not in the table — `replay_interp`; `Engine.record`
builds the table of the answers a run asked for.
-/
import TrustfallModel.Proofs.Replay
import TrustfallModel.Proofs.ReplayInterp

namespace TF.C15
open TF.Replay

variable {A R ρ : Type}

/-! ### (a) the principle -/

/-- Executing through the tapping adapter produces the same interaction (hence the same rows) and
ends the same way as executing directly; and what the tap recorded is that interaction. -/
theorem tap_transparent (σ : Strategy A R) (E : Env A R) (fuel : Nat) (row? : A → Option ρ) :
    rowsOf row? (play σ (tap E) fuel).hist = rowsOf row? (play σ E fuel).hist ∧
      (play σ (tap E) fuel).hist = (play σ E fuel).hist ∧
      (play σ (tap E) fuel).status = (play σ E fuel).status ∧
      (play σ (tap E) fuel).envState.2 = transcript σ E fuel := by
  obtain ⟨h1, h2, _, h4⟩ := tap_run σ E fuel [] E.init []
  refine ⟨by simp only [play]; rw [h1], h1, h2, ?_⟩
  have := h4 (run σ E fuel [] E.init).hist (by simp)
  simpa [play, transcript] using this

/-- Replaying the recorded interaction reproduces it: same interaction, hence the same rows in the
same order; the replay ends the way the recorded run ended — in particular it never reaches a
mismatch unless the original adapter itself failed at that very point — and the recording is used
up exactly. -/
theorem replay_sound [DecidableEq A] (σ : Strategy A R) (E : Env A R) (fuel : Nat)
    (row? : A → Option ρ) :
    let t := transcript σ E fuel
    rowsOf row? (play σ (replayEnv t) fuel).hist = rowsOf row? (play σ E fuel).hist ∧
      (play σ (replayEnv t) fuel).hist = t ∧
      (play σ (replayEnv t) fuel).status = (play σ E fuel).status ∧
      (play σ (replayEnv t) fuel).envState = ([] : History A R) := by
  intro t
  obtain ⟨h1, h2, h3⟩ :=
    replay_run σ E t fuel [] E.init t (by simp [t, transcript, play])
  have h1' : (play σ (replayEnv t) fuel).hist = t := by simpa [play] using h1
  exact ⟨by rw [h1']; rfl, h1', h2, h3⟩

/-- The replay never reaches a mismatch: if the recorded run did not end in a failure of the
adapter, neither does the replay. -/
theorem replay_never_mismatches [DecidableEq A] (σ : Strategy A R) (E : Env A R) (fuel : Nat)
    (hE : (play σ E fuel).status ≠ .envFailed) :
    (play σ (replayEnv (transcript σ E fuel)) fuel).status ≠ .envFailed := by
  have := (replay_sound σ E fuel (fun _ => (none : Option Unit))).2.2.1
  rw [this]; exact hE

/-- A run that finished replays to the same result under any larger step budget. -/
theorem replay_sound_any_fuel [DecidableEq A] (σ : Strategy A R) (E : Env A R) (fuel : Nat)
    (hdone : (play σ E fuel).status = .stopped) (m : Nat) (hm : fuel ≤ m) :
    (play σ (replayEnv (transcript σ E fuel)) m).hist = transcript σ E fuel ∧
      (play σ (replayEnv (transcript σ E fuel)) m).status = .stopped := by
  obtain ⟨_, h2, h3, _⟩ := replay_sound σ E fuel (fun _ => (none : Option Unit))
  have hne : (run σ (replayEnv (transcript σ E fuel)) fuel [] (transcript σ E fuel)).status
      ≠ .outOfFuel := by
    have : (play σ (replayEnv (transcript σ E fuel)) fuel).status = .stopped := by rw [h3, hdone]
    simp only [play] at this; rw [this]; decide
  have hmono := run_fuel_mono σ (replayEnv (transcript σ E fuel)) fuel [] (transcript σ E fuel) hne m hm
  simp only [play] at h2 h3 ⊢
  rw [hmono]
  exact ⟨h2, by rw [h3]; exact hdone⟩

/-- Record through the tap, then replay what the tap recorded: the rows of the direct execution. -/
theorem record_then_replay [DecidableEq A] (σ : Strategy A R) (E : Env A R) (fuel : Nat)
    (row? : A → Option ρ) :
    let recorded := (play σ (tap E) fuel).envState.2
    rowsOf row? (play σ (replayEnv recorded) fuel).hist = rowsOf row? (play σ E fuel).hist := by
  intro recorded
  have : recorded = transcript σ E fuel := (tap_transparent σ E fuel row?).2.2.2
  rw [this]
  exact (replay_sound σ E fuel row?).1

/-- Serialisation is irrelevant: whatever the encoding, as long as decoding an encoded trace gives
the trace back (the round-trip identity of the trace datatype — *assumed* of serde's derives, and
sampled by the harness on every recorded trace), replaying the decoded trace reproduces the rows. -/
theorem serialize_irrelevant [DecidableEq A] {β : Type} (ser : History A R → β)
    (de : β → Option (History A R)) (hrt : ∀ t, de (ser t) = some t)
    (σ : Strategy A R) (E : Env A R) (fuel : Nat) (row? : A → Option ρ) :
    (de (ser (transcript σ E fuel))).map
        (fun t' => rowsOf row? (play σ (replayEnv t') fuel).hist)
      = some (rowsOf row? (play σ E fuel).hist) := by
  rw [hrt]; simp only [Option.map_some]; rw [(replay_sound σ E fuel row?).1]

/-! ### (b) `AdapterTap` / `TraceReaderAdapter` on the Trustfall alphabet -/

section trustfall
variable {V C X : Type}

/-- `AdapterTap` is transparent: unless the engine names an iterator that was never created (the
only way the model's tap can fail on its own), the tapped run is the untapped run. -/
theorem tapEnv_transparent (σ : Strategy (Action V C X ρ) (Response V C X))
    (E : Env (Action V C X ρ) (Response V C X)) (fuel : Nat)
    (hok : (play σ (tapEnv E) fuel).status ≠ .envFailed) :
    (play σ (tapEnv E) fuel).hist = (play σ E fuel).hist ∧
      (play σ (tapEnv E) fuel).status = (play σ E fuel).status := by
  have key : ∀ (n : Nat) (h : History _ _) (st : TapState V C X ρ E.S),
      (run σ (tapEnv E) n h st).status ≠ .envFailed →
      (run σ (tapEnv E) n h st).hist = (run σ E n h st.inner).hist ∧
        (run σ (tapEnv E) n h st).status = (run σ E n h st.inner).status := by
    intro n
    induction n with
    | zero => intro h st _; exact ⟨rfl, rfl⟩
    | succ n ih =>
      intro h st hne
      cases hσ : σ h with
      | none => rw [run_succ_stop _ _ _ _ _ hσ, run_succ_stop _ _ _ _ _ hσ]; exact ⟨rfl, rfl⟩
      | some a =>
        cases hE : E.step st.inner a with
        | none =>
          rw [run_succ_fail _ _ _ _ _ a hσ hE,
            run_succ_fail σ (tapEnv E) _ _ _ a hσ (by simp [tapEnv, hE])]
          exact ⟨rfl, rfl⟩
        | some p =>
          obtain ⟨r, inner'⟩ := p
          cases hrec : recordStep st.trace st.handles st.steps a r with
          | none =>
            rw [run_succ_fail σ (tapEnv E) _ _ _ a hσ (by simp [tapEnv, hE, hrec])] at hne
            exact absurd rfl hne
          | some q =>
            obtain ⟨trace', handles'⟩ := q
            have hstep : (tapEnv E).step st a = some (r,
                { inner := inner', trace := trace', handles := handles', steps := st.steps + 1 }) := by
              simp [tapEnv, hE, hrec]
            rw [run_succ_step σ (tapEnv E) _ _ _ a r _ hσ hstep] at hne ⊢
            rw [run_succ_step σ E _ _ _ a r inner' hσ hE]
            exact ih _ _ hne
  exact key fuel [] _ hok

/-! A recorded run through the model of `trace.rs`, replayed through the model of `replay.rs`
(starting vertices, an edge with its nested neighbour iterator, a property, one row): the ops carry
the opids and `parent_opid`s of the real format, the reader accepts them, reproduces the
interaction and uses the trace up; a tampered trace is refused. -/
private abbrev Act := Action Nat Nat Nat String
private abbrev Rsp := Response Nat Nat Nat

private def script : History Act Rsp := [
  (.call (.resolveStartingVertices 1), .called),
  (.pullOutput 0, .yieldFrom (.resolveStartingVertices 10)),
  (.call (.resolveNeighbors 1 "T" 1), .called),
  (.pullOutput 2, .advanceInput),
  (.yieldInto 2 10, .yieldFrom (.resolveNeighborsOuter 10)),
  (.pullOutput 4, .yieldFrom (.resolveNeighborsInner 0 11)),
  (.call (.resolveProperty 2 "T" "p"), .called),
  (.pullOutput 6, .advanceInput),
  (.yieldInto 6 11, .yieldFrom (.resolveProperty 11 7)),
  (.emitRow "row1", .ack),
  (.pullOutput 6, .advanceInput),
  (.pullOutput 4, .outputExhausted),
  (.pullOutput 2, .advanceInput),
  (.pullOutput 0, .outputExhausted),
  (.inputExhausted 2, .outputExhausted),
  (.inputExhausted 6, .outputExhausted)]

private def scripted : Strategy Act Rsp := fun h => (script.drop h.length).head?.map (·.1)

private def recorded : Trace Nat Nat Nat String := recordTrace scripted (replayEnv script) 100

example : (recorded.ops.map fun o => (o.opid, o.parentOpid)) =
    [(1, none), (2, some 1), (3, none), (4, some 3), (5, some 3), (6, some 3), (7, some 6),
     (8, none), (9, some 8), (10, some 8), (11, some 8), (12, none), (13, some 8), (14, some 6),
     (15, some 3), (16, some 1), (17, some 3), (18, some 3), (19, some 8), (20, some 8)] := by
  decide
example : (play scripted (readerEnv recorded) 100).hist = script := by decide
example : (play scripted (readerEnv recorded) 100).status = .stopped := by decide
example : (play scripted (readerEnv recorded) 100).envState.nextOp = [] := by decide
/-- dropping one op from the trace makes the reader fail (an `expect`/`assert` of `replay.rs`) -/
example : (play scripted (readerEnv { ops := recorded.ops.eraseIdx 4 }) 100).status = .envFailed := by
  decide

end trustfall

/-! ### (c) the list-level interpreter -/

section interp
open TF.Engine

/-- The interpreter is monotone in the adapter: with an adapter `A` each of whose answers is the
answer of `B` or the failure "not in the trace", the run yields what it yields with `B`, or stops at
a call that is not in the trace.  (No function of the interpreter recovers from a panic.) -/
theorem interp_monotone {A B : Adapter} (env : Env) (hAB : Below A B) (ir : IRQuery) :
    Le (interpret (env.withAdapter A) ir) (interpret (env.withAdapter B) ir) :=
  interpret_le env hAB ir

/-- `replay_interp`: interpreting with the memoising replay adapter built from a table of recorded
answers — every entry the real adapter's answer to that call (`Truthful`), and the replay not
stopping at a call outside the table — gives exactly the result of interpreting with the real
adapter: the same rows in the same order, or the same panic. -/
theorem replay_interp (env : Env) (T : Table) (ir : IRQuery) (hT : Truthful T env.adapter)
    (hcomplete : isMissing (replay env T ir) = false) :
    interpret (env.withAdapter (replayAdapter T)) ir = interpret env ir :=
  replay_eq env T hT ir hcomplete

/-- … and without the completeness assumption: the same result, or a stop at a missing call —
never different rows. -/
theorem replay_interp_or_missing (env : Env) (T : Table) (ir : IRQuery)
    (hT : Truthful T env.adapter) :
    replay env T ir = interpret env ir ∨ isMissing (replay env T ir) = true := by
  rcases replay_le env T hT ir with h | h
  · exact Or.inl h
  · exact Or.inr (isMissing_of_miss h)

/-- The table `record` builds (the answers the run asked for, gathered by re-running against the
table so far and asking the real adapter for the one call the run stopped at) is truthful. -/
theorem record_truthful (env : Env) (ir : IRQuery) (fuel : Nat) :
    Truthful (record env ir fuel []).1 env.adapter :=
  (record_spec env ir fuel [] (truthful_nil _)).1

/-- When `record` reports that its table is complete, replaying from that table alone reproduces
the direct run. -/
theorem replay_recorded (env : Env) (ir : IRQuery) (fuel : Nat)
    (h : (record env ir fuel []).2 = true) :
    replay env (record env ir fuel []).1 ir = interpret env ir := by
  obtain ⟨hT, hc⟩ := record_spec env ir fuel [] (truthful_nil _)
  exact replay_eq env _ hT ir (hc h)

/-- The replay does not consult the data source: it is the same whatever adapter the environment
carries. -/
theorem replay_ignores_source (env : Env) (X : Adapter) (T : Table) (ir : IRQuery) :
    replay (env.withAdapter X) T ir = replay env T ir := rfl

end interp

end TF.C15

#print axioms TF.C15.tap_transparent
#print axioms TF.C15.replay_sound
#print axioms TF.C15.replay_never_mismatches
#print axioms TF.C15.replay_sound_any_fuel
#print axioms TF.C15.record_then_replay
#print axioms TF.C15.serialize_irrelevant
#print axioms TF.C15.tapEnv_transparent
#print axioms TF.C15.interp_monotone
#print axioms TF.C15.replay_interp
#print axioms TF.C15.replay_interp_or_missing
#print axioms TF.C15.record_truthful
#print axioms TF.C15.replay_recorded
#print axioms TF.C15.replay_ignores_source
