/-
C16 — IR, values and types survive serialisation round-trips.

What is *proved* here are the hand-written pieces:
* `impl Display for Type` and `Type::parse` (= the dependency's `Type::new`, transcribed, followed by
  `Type::from_type`) are mutually inverse, for every list depth the code supports (≤ 30) and every
  base name for which the text is unambiguous; `impl Serialize/Deserialize for Type` are
  `serialize_str(to_string())` / `visit_str(parse)`, i.e. exactly this pair;
* `From<FieldValue> for TransparentValue` and back are inverse; the untagged (de)serialisation of
  `TransparentValue`, at the level of the serde data model (`Model/Serial.lean`), returns a value
  `==` to the original — for every value without an `Enum` leaf.

What the real code violates (kept visible, proved as witnesses, listed in known_findings.json):
* F-15: `FieldValue::Enum` does not survive the untagged form (`Enum "x" ↦ "x" ↦ String "x"`, and
  `String != Enum`) — `transparent_roundtrip` below is therefore proved in `_partial` form with the
  guard `enumFree`, and the guard is shown to be exact (`transparent_roundtrip_iff`).

What is *not* provable here and is covered by exploration only (harness round trips through the real
serde_json / ron): the derived `Serialize`/`Deserialize` impls of `FieldValue` and of the IR structs,
string escaping, and number printing/parsing by serde_json and ron (where F-28 was found; fixed by
enabling serde_json's `float_roundtrip`, guarded by the harness's exact float streams).
-/
import TrustfallModel.Proofs.Serial

namespace TF.C16
open TF Ty Shape Serial

/-! ### Types: `Display` and `parse` -/

/-- Rendering a type and parsing the text back returns the same type (all depths ≤ 30, all
nullability combinations; base name not starting with `[` and not ending with `!`). -/
theorem display_parse {t : Ty} (h : WF t) (hn : validName t.base = true) :
    parse (display t) = .ok (some t) := by
  obtain ⟨s, hd, he⟩ := h.exists_shape
  rw [he, display_ofShape]
  unfold parse
  rw [gparse_display hn s]
  simp only [fromType_eq, gOf_shape, gOf_name, if_pos hd]

/-- The guard on the name is needed: the nullable named type whose *name* is the five characters
`[Int]` renders as `[Int]`, which parses to a list of `Int`. -/
theorem display_parse_name_guard_needed :
    ∃ t u : Ty, WF t ∧ parse (display t) = .ok (some u) ∧ t ≠ u := by
  refine ⟨ofShape [91, 73, 110, 116, 93] (.named true), ofShape INT (.list true (.named true)),
    wf_ofShape _ _ (by decide), ?_, by decide⟩
  have h2 := display_parse (t := ofShape INT (.list true (.named true))) (wf_ofShape _ _ (by decide)) (by decide)
  have e : display (ofShape [91, 73, 110, 116, 93] (.named true)) =
      display (ofShape INT (.list true (.named true))) := by
    rw [display_ofShape, display_ofShape]; decide
  rw [e]; exact h2

/-- Parsing a text and rendering the result returns the same text: `parse` is injective and accepts
only texts that are already in `Display`'s normal form (no name validation needed). -/
theorem parse_display {s : Bytes} {t : Ty} (h : parse s = .ok (some t)) : display t = s := by
  unfold parse at h
  cases hg : gparse s with
  | none => simp [hg] at h
  | some g =>
    simp only [hg, fromType_eq] at h
    by_cases hd : g.shape.depth ≤ 30
    · simp [hd] at h
      subst h
      rw [display_ofShape]
      exact display_gparse hg
    · simp [hd] at h

/-- `Display` is injective on well-formed types with unambiguous names. -/
theorem display_inj {a b : Ty} (ha : WF a) (hb : WF b) (hna : validName a.base = true)
    (hnb : validName b.base = true) (h : display a = display b) : a = b := by
  have h1 := display_parse ha hna
  have h2 := display_parse hb hnb
  rw [h, h2] at h1
  simp at h1
  exact h1.symm

/-- `from_type` builds the mask that decodes to the parsed shape (no bit of one level collides with
another level below 2^61), keeps the name, and panics exactly beyond 30 list levels. -/
theorem from_type_mask (g : GType) :
    (g.shape.depth ≤ 30 → ∃ t, fromType g = .ok t ∧ t.base = g.name ∧ t.shape = g.shape ∧ WF t) ∧
    (30 < g.shape.depth → fromType g = .panic) := by
  rw [fromType_eq]
  constructor
  · intro h
    rw [if_pos h]
    exact ⟨_, rfl, rfl, shape_ofShape _ _, wf_ofShape _ _ h⟩
  · intro h
    rw [if_neg (by omega)]

/-- `parse` panics exactly on syntactically accepted texts with more than 30 list levels, and fails
(`Err`) exactly on texts the dependency's parser rejects. -/
theorem parse_outcomes (s : Bytes) :
    (parse s = .panic ↔ ∃ g, gparse s = some g ∧ 30 < g.shape.depth) ∧
    (parse s = .ok none ↔ gparse s = none) := by
  unfold parse
  cases hg : gparse s with
  | none => simp
  | some g =>
    simp only [fromType_eq]
    by_cases h : g.shape.depth ≤ 30
    · simp [h] <;> omega
    · simp [h] <;> omega

/-! ### Values: the untagged form -/

/-- `FieldValue → TransparentValue → FieldValue` is the identity (structurally, enums included). -/
theorem transparent_to_from (v : Value) : fromT (toT v) = v := fromT_toT v

/-- The exact effect of `FieldValue → TransparentValue → untagged JSON → TransparentValue →
FieldValue`: it always succeeds and yields `normalize v` (unsigned integers below 2^63 come back
signed, enums come back as strings, nothing else changes). -/
theorem transparent_roundtrip_exact (v : Value) : transparentRoundtrip v = some (normalize v) :=
  roundtrip_exact v

/-
Full statement of the property for values (FALSE for the code as it is — see
`transparent_roundtrip_enum_counterexample`):

  theorem transparent_roundtrip (v : Value) :
      ∃ w, transparentRoundtrip v = some w ∧ (w == v) = true
-/

/-- Converting a value to its untagged JSON form and back returns an equal value — for every value
without an `Enum` leaf (every integer bit pattern in both representations, every float key, every
string, any nesting).  Equality is `FieldValue`'s `==` (C08), under which `Int64 5 == Uint64 5`. -/
theorem transparent_roundtrip_partial (v : Value) (h : v.enumFree = true) :
    ∃ w, transparentRoundtrip v = some w ∧ (w == v) = true :=
  ⟨normalize v, roundtrip_exact v, normalize_beq v h⟩

/-- F-15 witness: `Enum "x"` comes back as `String "x"`, which is not `==` to it. -/
theorem transparent_roundtrip_enum_counterexample :
    transparentRoundtrip (.enum [120]) = some (.string [120]) ∧
      ((Value.string [120] == Value.enum [120]) = false) := by
  refine ⟨roundtrip_exact _, by decide⟩

/-- The guard is exact: the round trip returns an equal value *iff* the value has no enum leaf. -/
theorem transparent_roundtrip_iff (v : Value) :
    (∃ w, transparentRoundtrip v = some w ∧ (w == v) = true) ↔ v.enumFree = true := by
  constructor
  · intro ⟨w, hw, he⟩
    rw [transparent_roundtrip_exact] at hw
    cases hw
    cases hf : v.enumFree with
    | true => rfl
    | false =>
      have := normalize_not_beq v hf
      rw [show (normalize v == v) = Value.beq (normalize v) v from rfl, this] at he
      cases he
  · exact transparent_roundtrip_partial v

/-- The variant order matters and is the declared one: `Uint64 5` comes back as `Int64 5`
(still `==`), while values above `i64::MAX` stay `Uint64`. -/
theorem transparent_uint_examples :
    transparentRoundtrip (.uint64 5) = some (.int64 5) ∧
    transparentRoundtrip (.uint64 9223372036854775808) = some (.uint64 9223372036854775808) ∧
    transparentRoundtrip (.list [.uint64 5, .float64 4607182418800017408, .null]) =
      some (.list [.int64 5, .float64 4607182418800017408, .null]) := by
  refine ⟨?_, ?_, ?_⟩ <;> rw [transparent_roundtrip_exact] <;> simp [normalize, normalizeList] <;> decide

/-! Non-vacuity. -/

/-- `[[Int!]]!` renders to its text and parses back. -/
example : display (ofShape INT (.list false (.list true (.named false)))) =
    [91, 91, 73, 110, 116, 33, 93, 93, 33] := by
  rw [display_ofShape]; decide
example : parse [91, 91, 73, 110, 116, 33, 93, 93, 33] =
    .ok (some (ofShape INT (.list false (.list true (.named false))))) := by
  have := display_parse (t := ofShape INT (.list false (.list true (.named false))))
    (wf_ofShape _ _ (by decide)) (by decide)
  rw [display_ofShape] at this
  exact this
example : validName INT = true ∧ validName [] = true ∧ validName [91] = false ∧ validName [33] = false := by
  decide
example : (Value.list [.uint64 5, .string [], .list [.null]]).enumFree = true := by decide

end TF.C16

#print axioms TF.C16.display_parse
#print axioms TF.C16.display_parse_name_guard_needed
#print axioms TF.C16.parse_display
#print axioms TF.C16.display_inj
#print axioms TF.C16.from_type_mask
#print axioms TF.C16.parse_outcomes
#print axioms TF.C16.transparent_to_from
#print axioms TF.C16.transparent_roundtrip_exact
#print axioms TF.C16.transparent_roundtrip_partial
#print axioms TF.C16.transparent_roundtrip_enum_counterexample
#print axioms TF.C16.transparent_roundtrip_iff
#print axioms TF.C16.transparent_uint_examples
