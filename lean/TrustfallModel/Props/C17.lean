/-
C17 — Type operations obey the subtype lattice laws.

Statements are about the model of `trustfall_core/src/ir/types/base.rs` in `Model/Ty.lean`
(`TF.Ty.intersect`, `isScalarOnlySubtype`, `isValidValue`, `equalIgnoringNullability`: the mask-level
algorithms as written), for *all* well-formed types: every base name (any byte string), every
nullability combination, every list depth the code supports (0 … 30 levels) — nothing is bounded to
the depths the harness enumerates.  `WF t` says that `t`'s mask is the encoding of a shape of at most
30 list levels; the `wf_*` theorems show that every way of obtaining a `Type` (`new_named_type`,
`new_list_type`, `with_nullability`, `as_list`, `intersect`, `parse`/`from_type`) yields a well-formed
type, so `WF` is an invariant of the Rust type, not a restriction.

Orientation: `sub parent child` is `parent.is_scalar_only_subtype(child)` — the *second* argument is
the subtype.  The intersection is the *greatest common subtype*: it is a subtype of both inputs, and
every common subtype of the inputs is a subtype of it.
-/
import TrustfallModel.Proofs.Ty

namespace TF.C17
open TF Ty Shape

/-- `sub parent child` = `parent.is_scalar_only_subtype(child)`. -/
abbrev sub (parent child : Ty) : Bool := isScalarOnlySubtype parent child

/-- Turn a well-formed type into `ofShape base shape`. -/
private theorem shp {t : Ty} (h : WF t) : ∃ s : Shape, s.depth ≤ 30 ∧ t = ofShape t.base s :=
  h.exists_shape

/-! ### Well-formedness is an invariant of every constructor -/

/-- `new_named_type` yields a well-formed type. -/
theorem wf_newNamedType (b : Bytes) (n : Bool) : WF (newNamedType b n) := Ty.wf_newNamedType b n

/-- `new_list_type` on a well-formed type yields a well-formed type (when it does not panic). -/
theorem wf_newListType {t t' : Ty} {n : Bool} (h : WF t) (h' : newListType t n = .ok t') : WF t' :=
  Ty.wf_newListType h h'

/-- `new_list_type` panics exactly when the inner type already has 30 list levels; otherwise the
mask it builds decodes to one more list level of the requested nullability around the inner shape
(mask refinement). -/
theorem newListType_spec {t : Ty} (n : Bool) (h : WF t) :
    (t.listDepth < 30 → ∃ t', newListType t n = .ok t' ∧ t'.base = t.base ∧ t'.shape = .list n t.shape) ∧
    (t.listDepth = 30 → newListType t n = .panic) := by
  obtain ⟨s, hd, he⟩ := shp h
  rw [he, listDepth_ofShape, shape_ofShape]
  constructor
  · intro hlt
    exact ⟨_, newListType_ofShape _ _ _ hlt, rfl, shape_ofShape _ _⟩
  · intro h30
    exact newListType_panic _ _ _ (by omega)

/-- `with_nullability` preserves well-formedness, keeps the base and every inner level, and sets the
outermost nullability. -/
theorem withNullability_spec {t : Ty} (n : Bool) (h : WF t) :
    WF (withNullability t n) ∧ (withNullability t n).base = t.base ∧
      (withNullability t n).shape = t.shape.withNullability n := by
  refine ⟨wf_withNullability n h, ?_⟩
  obtain ⟨s, hd, he⟩ := shp h
  rw [he, withNullability_ofShape _ _ _ hd, shape_ofShape, shape_ofShape]
  exact ⟨rfl, rfl⟩

/-- `as_list` preserves well-formedness and strips exactly the outermost list level. -/
theorem asList_spec {t : Ty} (h : WF t) :
    t.asList = t.shape.asList.map (ofShape t.base) ∧ ∀ t', t.asList = some t' → WF t' := by
  refine ⟨?_, fun t' h' => wf_asList h h'⟩
  obtain ⟨s, hd, he⟩ := shp h
  rw [he, asList_ofShape, shape_ofShape]; rfl

/-- `parse` (= the dependency's `Type::new` + `from_type`) only produces well-formed types. -/
theorem wf_parse {s : Bytes} {t : Ty} (h : parse s = .ok (some t)) : WF t := Ty.wf_parse h

/-! ### Intersection -/

/-- `intersect` never panics on well-formed types, and its result is well-formed. -/
theorem intersect_total {a b : Ty} (ha : WF a) (hb : WF b) :
    ∃ r, intersect a b = .ok r ∧ ∀ c, r = some c → WF c := by
  obtain ⟨r, hr⟩ := Ty.intersect_total ha hb
  exact ⟨r, hr, fun c hc => wf_intersect ha hb (hc ▸ hr)⟩

/-- Intersection is commutative. -/
theorem intersect_comm {a b : Ty} (ha : WF a) (hb : WF b) : intersect a b = intersect b a := by
  obtain ⟨sa, hda, hea⟩ := shp ha
  obtain ⟨sb, hdb, heb⟩ := shp hb
  rw [hea, heb, intersect_ofShape _ _ _ _ hda, intersect_ofShape _ _ _ _ hdb, inter_comm sa sb]
  by_cases h : a.base = b.base
  · rw [h]
  · have h' : ¬ b.base = a.base := fun e => h e.symm
    rw [if_neg h, if_neg h']

/-- Intersection is idempotent. -/
theorem intersect_idem {a : Ty} (ha : WF a) : intersect a a = .ok (some a) := by
  obtain ⟨sa, hda, hea⟩ := shp ha
  rw [hea, intersect_ofShape _ _ _ _ hda, inter_idem]
  simp

/-- Intersection is associative (as a partial operation: "no common subtype" propagates). -/
theorem intersect_assoc {a b c : Ty} (ha : WF a) (hb : WF b) (hc : WF c) :
    (intersect a b).bindOpt (fun x => intersect x c) =
      (intersect b c).bindOpt (fun y => intersect a y) := by
  obtain ⟨sa, hda, hea⟩ := shp ha
  obtain ⟨sb, hdb, heb⟩ := shp hb
  obtain ⟨sc, hdc, hec⟩ := shp hc
  rw [hea, heb, hec, intersect_ofShape _ _ _ _ hda, intersect_ofShape _ _ _ _ hdb]
  have key := inter_assoc sa sb sc
  by_cases h1 : a.base = b.base
  · by_cases h2 : b.base = c.base
    · rw [if_pos h1, if_pos h2]
      cases hab : inter sa sb with
      | none =>
        cases hbc : inter sb sc with
        | none => rfl
        | some v =>
          rw [hab, hbc] at key
          simp only [Option.bind_none, Option.bind_some] at key
          simp only [Option.map_none, Option.map_some, Outcome.bindOpt]
          rw [intersect_ofShape _ _ _ _ hda, ← key]; simp
      | some u =>
        have hdu : u.depth ≤ 30 := by rw [inter_depth hab]; exact hda
        cases hbc : inter sb sc with
        | none =>
          rw [hab, hbc] at key
          simp only [Option.bind_none, Option.bind_some] at key
          simp only [Option.map_none, Option.map_some, Outcome.bindOpt]
          rw [intersect_ofShape _ _ _ _ hdu, key]; simp
        | some v =>
          rw [hab, hbc] at key
          simp only [Option.bind_some] at key
          simp only [Option.map_some, Outcome.bindOpt]
          rw [intersect_ofShape _ _ _ _ hdu, intersect_ofShape _ _ _ _ hda, key, h1, h2]
    · rw [if_pos h1, if_neg h2]
      cases hab : inter sa sb with
      | none => rfl
      | some u =>
        have hdu : u.depth ≤ 30 := by rw [inter_depth hab]; exact hda
        simp only [Option.map_some, Outcome.bindOpt]
        rw [intersect_ofShape _ _ _ _ hdu, if_neg (by rw [h1]; exact h2)]
  · rw [if_neg h1]
    by_cases h2 : b.base = c.base
    · rw [if_pos h2]
      cases hbc : inter sb sc with
      | none => rfl
      | some v =>
        simp only [Option.map_some, Outcome.bindOpt]
        rw [intersect_ofShape _ _ _ _ hda, if_neg h1]
    · rw [if_neg h2]; rfl

/-- The intersection is a subtype of both inputs. -/
theorem intersect_sub {a b c : Ty} (ha : WF a) (hb : WF b) (h : intersect a b = .ok (some c)) :
    sub a c = true ∧ sub b c = true := by
  obtain ⟨sa, hda, hea⟩ := shp ha
  obtain ⟨sb, hdb, heb⟩ := shp hb
  rw [hea, heb, intersect_ofShape _ _ _ _ hda] at h
  by_cases hbase : a.base = b.base
  · rw [if_pos hbase] at h
    cases hr : inter sa sb with
    | none => simp [hr] at h
    | some r =>
      simp [hr] at h
      have := inter_sub hr
      subst h
      rw [hea, heb]
      unfold sub
      rw [isScalarOnlySubtype_ofShape, isScalarOnlySubtype_ofShape]
      simp [this, hbase]
  · simp [if_neg hbase] at h

/-- Left half of `intersect_sub`. -/
theorem intersect_sub_left {a b c : Ty} (ha : WF a) (hb : WF b) (h : intersect a b = .ok (some c)) :
    sub a c = true := (intersect_sub ha hb h).1

/-- Right half of `intersect_sub`. -/
theorem intersect_sub_right {a b c : Ty} (ha : WF a) (hb : WF b) (h : intersect a b = .ok (some c)) :
    sub b c = true := (intersect_sub ha hb h).2

/-- The intersection is the *greatest* common subtype: whenever `d` is a subtype of both `a` and
`b`, the intersection exists and `d` is a subtype of it. -/
theorem intersect_greatest {a b d : Ty} (ha : WF a) (hb : WF b) (hd : WF d)
    (h1 : sub a d = true) (h2 : sub b d = true) :
    ∃ c, intersect a b = .ok (some c) ∧ sub c d = true := by
  obtain ⟨sa, hda, hea⟩ := shp ha
  obtain ⟨sb, hdb, heb⟩ := shp hb
  obtain ⟨sd, hdd, hed⟩ := shp hd
  rw [hea, hed] at h1
  rw [heb, hed] at h2
  unfold sub at h1 h2
  rw [isScalarOnlySubtype_ofShape] at h1 h2
  simp only [Bool.and_eq_true, beq_iff_eq] at h1 h2
  obtain ⟨c, hc, hcd⟩ := inter_greatest h1.2 h2.2
  refine ⟨ofShape a.base c, ?_, ?_⟩
  · rw [hea, heb, intersect_ofShape _ _ _ _ hda, hc]
    simp [h1.1, h2.1]
  · rw [hed]
    unfold sub
    rw [isScalarOnlySubtype_ofShape]
    simp [h1.1, hcd]

/-- There is no intersection exactly when the base names differ or the list depths differ. -/
theorem intersect_none_iff {a b : Ty} (ha : WF a) (hb : WF b) :
    intersect a b = .ok none ↔ (a.base ≠ b.base ∨ a.listDepth ≠ b.listDepth) := by
  obtain ⟨sa, hda, hea⟩ := shp ha
  obtain ⟨sb, hdb, heb⟩ := shp hb
  rw [hea, heb, intersect_ofShape _ _ _ _ hda, listDepth_ofShape, listDepth_ofShape]
  simp only [base_ofShape]
  by_cases hbase : a.base = b.base
  · rw [if_pos hbase]
    have := inter_none_iff sa sb
    cases hr : inter sa sb with
    | none => simp [hr] at this; simp [this]
    | some r => simp [hr] at this; simp [this, hbase]
  · simp [hbase]

/-- When the intersection exists it has the common base name, the common list depth, and at every
level it is nullable exactly when both inputs are. -/
theorem intersect_some_spec {a b c : Ty} (ha : WF a) (hb : WF b) (h : intersect a b = .ok (some c)) :
    c.base = a.base ∧ a.base = b.base ∧ Shape.inter a.shape b.shape = some c.shape := by
  obtain ⟨sa, hda, hea⟩ := shp ha
  obtain ⟨sb, hdb, heb⟩ := shp hb
  rw [hea, heb, intersect_ofShape _ _ _ _ hda] at h
  by_cases hbase : a.base = b.base
  · rw [if_pos hbase] at h
    cases hr : inter sa sb with
    | none => simp [hr] at h
    | some r =>
      simp [hr] at h
      subst h
      rw [hea, heb, shape_ofShape, shape_ofShape, shape_ofShape]
      exact ⟨rfl, hbase, hr⟩
  · simp [if_neg hbase] at h

/-! ### The scalar subtype relation is a partial order -/

/-- Reflexive. -/
theorem sub_refl {a : Ty} (ha : WF a) : sub a a = true := by
  obtain ⟨sa, hda, hea⟩ := shp ha
  rw [hea]; unfold sub; rw [isScalarOnlySubtype_ofShape, Shape.sub_refl]; simp

/-- Antisymmetric. -/
theorem sub_antisymm {a b : Ty} (ha : WF a) (hb : WF b) (h1 : sub a b = true) (h2 : sub b a = true) :
    a = b := by
  obtain ⟨sa, hda, hea⟩ := shp ha
  obtain ⟨sb, hdb, heb⟩ := shp hb
  rw [hea, heb] at h1 h2
  unfold sub at h1 h2
  rw [isScalarOnlySubtype_ofShape] at h1 h2
  simp only [Bool.and_eq_true, beq_iff_eq] at h1 h2
  rw [hea, heb, h1.1, Shape.sub_antisymm h1.2 h2.2]

/-- Transitive. -/
theorem sub_trans {a b c : Ty} (ha : WF a) (hb : WF b) (hc : WF c)
    (h1 : sub a b = true) (h2 : sub b c = true) : sub a c = true := by
  obtain ⟨sa, hda, hea⟩ := shp ha
  obtain ⟨sb, hdb, heb⟩ := shp hb
  obtain ⟨sc, hdc, hec⟩ := shp hc
  rw [hea, heb] at h1
  rw [heb, hec] at h2
  unfold sub at h1 h2
  rw [isScalarOnlySubtype_ofShape] at h1 h2
  simp only [Bool.and_eq_true, beq_iff_eq] at h1 h2
  rw [hea, hec]; unfold sub
  rw [isScalarOnlySubtype_ofShape]
  simp [h1.1, h2.1, Shape.sub_trans h1.2 h2.2]

/-- What the relation is: same base name, same list depth, and at every level a non-null parent
level forces a non-null child level. -/
theorem sub_iff {a b : Ty} (ha : WF a) (hb : WF b) :
    sub a b = true ↔ a.base = b.base ∧ Shape.sub a.shape b.shape = true := by
  obtain ⟨sa, hda, hea⟩ := shp ha
  obtain ⟨sb, hdb, heb⟩ := shp hb
  rw [hea, heb]; unfold sub
  rw [isScalarOnlySubtype_ofShape, shape_ofShape, shape_ofShape]
  simp

/-! ### Validity is monotone -/

/-- A value valid for a type is valid for every supertype: if `b` is a subtype of `a` and `v` is
valid for `b` then `v` is valid for `a`. -/
theorem valid_mono {a b : Ty} (ha : WF a) (hb : WF b) (h : sub a b = true) (v : Value)
    (hv : isValidValue b v = true) : isValidValue a v = true := by
  obtain ⟨sa, hda, hea⟩ := shp ha
  obtain ⟨sb, hdb, heb⟩ := shp hb
  rw [hea, heb] at h
  unfold sub at h
  rw [isScalarOnlySubtype_ofShape] at h
  simp only [Bool.and_eq_true, beq_iff_eq] at h
  rw [heb, isValidValue_ofShape] at hv
  rw [hea, isValidValue_ofShape, h.1]
  exact Shape.valid_mono _ h.2 v hv

/-- The validity check is total: on every type (well-formed or not) and every value, enum leaves
included, it returns `true` or `false` — `is_valid_value` has no panic outcome left (the model's
`isValidValue` is a `Bool` function since the `FieldValue::Enum` arm of base.rs became `false`; the
correspondence run ties that to the code: the driver never answers `panic` for `valid`).

History: until the repair of F-14 / F-C10-2 / F-C19-1 the `Enum` arm was
`unimplemented!("enum values are not currently supported")` and this theorem carried the guards
`WF t` and `v.enumFree = true` ("on values without enum leaves the validity check never panics");
its companion was the witness `valid_enum_panics : isValidValue t (.enum s) = .panic`. -/
theorem valid_total (t : Ty) (v : Value) : isValidValue t v = true ∨ isValidValue t v = false := by
  cases isValidValue t v <;> simp

/-- An enum value is valid for no type (was: `valid_enum_panics`, the panic witness of F-14's site). -/
theorem valid_enum_invalid (t : Ty) (s : Bytes) : isValidValue t (.enum s) = false := by
  simp [isValidValue]

/-- … and nested enum leaves do not help: a value accepted by a type has no enum leaf at any nesting
("schemas cannot define enum types, so no type has enum values"). -/
theorem valid_enumFree {t : Ty} (ht : WF t) (v : Value) (hv : isValidValue t v = true) :
    v.enumFree = true := by
  obtain ⟨s, hd, he⟩ := shp ht
  rw [he, isValidValue_ofShape] at hv
  exact Shape.valid_enumFree _ s v hv

/-- The intersection accepts exactly the values both inputs accept. -/
theorem valid_intersect {a b c : Ty} (ha : WF a) (hb : WF b) (h : intersect a b = .ok (some c))
    (v : Value) :
    isValidValue c v = true ↔ (isValidValue a v = true ∧ isValidValue b v = true) := by
  have hc := wf_intersect ha hb h
  constructor
  · intro hv
    exact ⟨valid_mono ha hc (intersect_sub_left ha hb h) v hv,
      valid_mono hb hc (intersect_sub_right ha hb h) v hv⟩
  · intro ⟨h1, h2⟩
    obtain ⟨hcb, hab, hsh⟩ := intersect_some_spec ha hb h
    obtain ⟨sa, hda, hea⟩ := shp ha
    obtain ⟨sb, hdb, heb⟩ := shp hb
    obtain ⟨sc, hdc, hec⟩ := shp hc
    rw [hea, shape_ofShape] at hsh
    rw [heb, shape_ofShape] at hsh
    rw [hec, shape_ofShape] at hsh
    rw [hea, isValidValue_ofShape] at h1
    rw [heb, isValidValue_ofShape, ← hab] at h2
    rw [hec, isValidValue_ofShape, hcb]
    exact Shape.valid_inter _ hsh v h1 h2

/-! ### Equality ignoring nullability is an equivalence -/

/-- It holds exactly for equal base names and equal list depths. -/
theorem eqIgnNull_iff {a b : Ty} (ha : WF a) (hb : WF b) :
    equalIgnoringNullability a b = true ↔ (a.base = b.base ∧ a.listDepth = b.listDepth) := by
  obtain ⟨sa, hda, hea⟩ := shp ha
  obtain ⟨sb, hdb, heb⟩ := shp hb
  rw [hea, heb, equalIgnoringNullability_ofShape, listDepth_ofShape, listDepth_ofShape]
  simp [sameDepth_iff]

/-- Reflexive. -/
theorem eqIgnNull_refl {a : Ty} (ha : WF a) : equalIgnoringNullability a a = true :=
  (eqIgnNull_iff ha ha).mpr ⟨rfl, rfl⟩

/-- Symmetric. -/
theorem eqIgnNull_symm {a b : Ty} (ha : WF a) (hb : WF b) :
    equalIgnoringNullability a b = equalIgnoringNullability b a := by
  have h1 := eqIgnNull_iff ha hb
  have h2 := eqIgnNull_iff hb ha
  cases h : equalIgnoringNullability a b <;> cases h' : equalIgnoringNullability b a <;> simp_all

/-- Transitive. -/
theorem eqIgnNull_trans {a b c : Ty} (ha : WF a) (hb : WF b) (hc : WF c)
    (h1 : equalIgnoringNullability a b = true) (h2 : equalIgnoringNullability b c = true) :
    equalIgnoringNullability a c = true := by
  have e1 := (eqIgnNull_iff ha hb).mp h1
  have e2 := (eqIgnNull_iff hb hc).mp h2
  exact (eqIgnNull_iff ha hc).mpr ⟨e1.1.trans e2.1, e1.2.trans e2.2⟩

/-- It is the kernel of "forget nullability": an intersection exists exactly between types that are
equal ignoring nullability. -/
theorem intersect_some_iff_eqIgnNull {a b : Ty} (ha : WF a) (hb : WF b) :
    (∃ c, intersect a b = .ok (some c)) ↔ equalIgnoringNullability a b = true := by
  obtain ⟨r, hr, _⟩ := intersect_total ha hb
  have hn := intersect_none_iff ha hb
  rw [eqIgnNull_iff ha hb]
  cases r with
  | none =>
    have := hn.mp hr
    constructor
    · intro ⟨c, hc⟩; rw [hr] at hc; cases hc
    · intro ⟨e1, e2⟩; cases this with
      | inl h => exact absurd e1 h
      | inr h => exact absurd e2 h
  | some c =>
    constructor
    · intro _
      have hne : ¬ (a.base ≠ b.base ∨ a.listDepth ≠ b.listDepth) := by
        intro hcon
        have := hn.mpr hcon
        rw [hr] at this; cases this
      constructor
      · exact Classical.byContradiction fun h => hne (Or.inl h)
      · exact Classical.byContradiction fun h => hne (Or.inr h)
    · intro _; exact ⟨c, hr⟩

/-! ### Non-vacuity: concrete well-formed types, including the deepest supported ones -/

/-- `[String]!` ∩ `[String!]` = `[String!]!` (the documented example of `intersect`). -/
example : intersect (ofShape STRING (.list false (.named true))) (ofShape STRING (.list true (.named false)))
    = .ok (some (ofShape STRING (.list false (.named false)))) := by
  rw [intersect_ofShape _ _ _ _ (by decide)]; decide

/-- The masks of those three types, as the Rust code stores them: 3, 6, 7. -/
example : (ofShape STRING (.list false (.named true))).mask = 3 ∧
    (ofShape STRING (.list true (.named false))).mask = 6 ∧
    (ofShape STRING (.list false (.named false))).mask = 7 := by decide

/-- A 30-level list type is well-formed, and one more level panics. -/
def deep : Nat → Shape
  | 0 => .named false
  | k + 1 => .list true (deep k)

theorem deep_depth (k : Nat) : (deep k).depth = k := by
  induction k with
  | zero => rfl
  | succ k ih => simp [deep, depth, ih]

example : WF (ofShape INT (deep 30)) := wf_ofShape _ _ (by rw [deep_depth]; decide)
example : newListType (ofShape INT (deep 30)) true = .panic :=
  newListType_panic _ _ _ (by rw [deep_depth]; decide)
example : (ofShape INT (deep 30)).mask = 0x1AAAAAAAAAAAAAAA := by decide
example : sub (ofShape INT (.named true)) (ofShape INT (.named false)) = true ∧
    sub (ofShape INT (.named false)) (ofShape INT (.named true)) = false := by
  unfold sub; rw [isScalarOnlySubtype_ofShape, isScalarOnlySubtype_ofShape]; decide
example : isValidValue (ofShape INT (.list true (.named true)))
    (.list [.int64 (-1), .uint64 1, .null]) = true := by
  rw [isValidValue_ofShape]; decide
example : isValidValue (ofShape INT (.list true (.named false)))
    (.list [.int64 (-1), .uint64 1, .null]) = false := by
  rw [isValidValue_ofShape]; decide
/-- Regression (F-14's minimal request `$x: Int`, x = Enum("a"), and `$x: [Int]`, x = [null, Enum("a")]):
both used to be the outcome `panic`; they are plain `false` now. -/
example : isValidValue (ofShape INT (.named true)) (.enum [97]) = false := by
  rw [isValidValue_ofShape]; decide
example : isValidValue (ofShape INT (.list true (.named true))) (.list [.null, .enum [97]]) = false := by
  rw [isValidValue_ofShape]; decide

end TF.C17

#print axioms TF.C17.wf_newNamedType
#print axioms TF.C17.wf_newListType
#print axioms TF.C17.newListType_spec
#print axioms TF.C17.withNullability_spec
#print axioms TF.C17.asList_spec
#print axioms TF.C17.wf_parse
#print axioms TF.C17.intersect_total
#print axioms TF.C17.intersect_comm
#print axioms TF.C17.intersect_idem
#print axioms TF.C17.intersect_assoc
#print axioms TF.C17.intersect_sub
#print axioms TF.C17.intersect_sub_left
#print axioms TF.C17.intersect_sub_right
#print axioms TF.C17.intersect_greatest
#print axioms TF.C17.intersect_none_iff
#print axioms TF.C17.intersect_some_spec
#print axioms TF.C17.sub_refl
#print axioms TF.C17.sub_antisymm
#print axioms TF.C17.sub_trans
#print axioms TF.C17.sub_iff
#print axioms TF.C17.valid_mono
#print axioms TF.C17.valid_total
#print axioms TF.C17.valid_enum_invalid
#print axioms TF.C17.valid_enumFree
#print axioms TF.C17.valid_intersect
#print axioms TF.C17.eqIgnNull_iff
#print axioms TF.C17.eqIgnNull_refl
#print axioms TF.C17.eqIgnNull_symm
#print axioms TF.C17.eqIgnNull_trans
#print axioms TF.C17.intersect_some_iff_eqIgnNull
