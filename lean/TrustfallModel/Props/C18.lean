/-
C18 — Decoding rows into structs is faithful.

"Decoding a result row (or edge parameters) into a struct yields exactly the row's values when each
value is representable in the target field type, and returns an error, never a silently truncated or
wrapped number, when an integer does not fit."  Quantifier: every row over all field-value kinds and
every integer / float / string / bool / option / vec / tuple target type.

Statements are about `TF.Decode.decode` / `TF.Decode.decodeRow` (Model/Decode.lean): the model of
`FieldValueDeserializer`, `QueryResultDeserializer` (trustfall_core/src/serialization/deserializers.rs) and of
the serde visitors they drive (transcribed from serde_core 1.0.229 `src/de/impls.rs`, see the model's header).
They hold for every `Int64` / `UInt64` bit pattern, all twelve integer targets (`i8 … u64`, `isize`,
`usize`, `i128`, `u128`), every nesting of `Option` / `Vec` / tuples, every byte string.

Vocabulary (Proofs/Decode.lean): `fits t n` — `n` lies in the range of `t`; `representable τ v` — `v`
has the kind `τ` describes, integers fit, float conversions are exact, tuple lengths match;
`denotes false x v` — the decoded Rust value `x` is exactly the value `v`; `denotes true x v` — the
same, except that a float produced by one of the three `as` conversions (`integer → f64`,
`integer → f32`, `Float64 → f32`) may be any float.

Outside the claim, stated explicitly: float targets accept every integer and round it (`decode .f64`
of `2^53+1` is `2^53`), and `f32 ← Float64` narrows with rounding and overflow to infinity; the
property speaks of integers that do not *fit* an integer type and of values that are *representable*.
For those conversions `decode_faithful` applies exactly when the conversion is exact, and
`decode_sound` says that nothing else than the conversion happens.

NOT holding on the real code (finding F-28): an `Enum` value anywhere a struct field looks makes the
deserializer panic (`todo!()` in `deserialize_any`) instead of returning a value or an error.
  Full statement:  theorem decode_total : ∀ τ v, decode τ v ≠ .error .panic
is false (`decode_total_false`); proved below under the guard `noEnum v` (`decode_total_partial`).
-/
import TrustfallModel.Proofs.Decode

namespace TF.C18
open TF Value TF.Decode

/-! ### integers: ok iff the number fits; never another number -/

/-- An integer value of either representation decodes into an integer target **iff** its number lies in
the target's range — for `i8/i16/i32/u8/u16/u32` through the crate's `try_into`, for
`i64/u64/isize/usize/i128/u128` through serde's `visit_i64`/`visit_u64` range checks. -/
theorem decode_int_iff (t : IntTy) (v : Value) (hv : isInt v = true) :
    (decode (.int t) v).isOk = true ↔ fits t (numOf v) := by
  rw [decode_int_of_isInt t v hv]
  by_cases hf : fits t (numOf v)
  · rw [if_pos hf]; exact ⟨fun _ => hf, fun _ => rfl⟩
  · rw [if_neg hf]; exact ⟨fun h => by simp [Except.isOk, Except.toBool] at h, fun h => absurd h hf⟩

/-- The eight fixed-width targets, in the property's own terms (`intTarget bits signed`). -/
theorem decode_int_iff_fixed (bits : Nat) (sgn : Bool) (v : Value) (hv : isInt v = true) :
    (decode (.int (intTarget bits sgn)) v).isOk = true ↔ fits (intTarget bits sgn) (numOf v) :=
  decode_int_iff _ v hv

/-- Never a truncated or wrapped number: whatever an integer target accepts is the source number
itself, tagged with the target type, and it lies in the target's range. -/
theorem decode_int_faithful (t : IntTy) (v : Value) (x : Dec) (h : decode (.int t) v = .ok x) :
    ∃ n, x = .int t n ∧ numVal v = some n ∧ fits t n := by
  cases hv : isInt v
  · rw [decode_int_not_isInt t v hv] at h; exact absurd h (reject_not_ok _ _)
  · rw [decode_int_of_isInt t v hv] at h
    split at h
    · rename_i hf
      simp at h; subst h
      exact ⟨numOf v, rfl, numVal_of_isInt hv, hf⟩
    · simp at h

/-- An integer that does not fit is an *error* (`Err(Error::Custom)`), not a panic and not a value. -/
theorem decode_int_misfit_is_error (t : IntTy) (v : Value) (hv : isInt v = true)
    (hf : ¬ fits t (numOf v)) : decode (.int t) v = .error .invalid := by
  rw [decode_int_of_isInt t v hv, if_neg hf]

/-- A value of another kind (null, float, string, boolean, list) is never accepted by an integer
target. -/
theorem decode_int_wrong_kind (t : IntTy) (v : Value) (hv : isInt v = false) (x : Dec) :
    decode (.int t) v ≠ .ok x := by
  rw [decode_int_not_isInt t v hv]; exact reject_not_ok _ _

/-! ### all targets -/

/-- Faithfulness: a representable value is accepted and the result is exactly that value (numbers,
strings, booleans, `None`/`Some`, list and tuple structure, at every depth). -/
theorem decode_faithful (τ : Target) (v : Value) (h : representable τ v = true) :
    ∃ x, decode τ v = .ok x ∧ denotes false x v = true :=
  decode_exact_aux τ v h

/-- Whatever is accepted is the source value, up to the float roundings listed in the header: no
element is dropped, added or reordered; no integer changed; no string or boolean changed; `None` only
for `Null`. -/
theorem decode_sound (τ : Target) (v : Value) (x : Dec) (h : decode τ v = .ok x) :
    denotes true x v = true :=
  decode_sound_aux τ v x h

/-- For targets without a float inside, acceptance is *exactly* representability: an integer out of
range at any depth, a list of the wrong length for a tuple, a value of the wrong kind are all
rejected … -/
theorem decode_ok_iff (τ : Target) (v : Value) (hτ : noFloat τ = true) :
    (decode τ v).isOk = true ↔ representable τ v = true := by
  constructor
  · intro h
    cases hd : decode τ v with
    | ok x => exact decode_ok_repr_aux τ v x hτ hd
    | error e => rw [hd] at h; simp [Except.isOk, Except.toBool] at h
  · intro h
    obtain ⟨x, hx, _⟩ := decode_exact_aux τ v h
    simp [hx, Except.isOk, Except.toBool]

/-- … and then the result is exactly the source value. -/
theorem decode_exact (τ : Target) (v : Value) (x : Dec) (hτ : noFloat τ = true)
    (h : decode τ v = .ok x) : representable τ v = true ∧ denotes false x v = true := by
  have hr := decode_ok_repr_aux τ v x hτ h
  obtain ⟨y, hy, dy⟩ := decode_exact_aux τ v hr
  rw [h] at hy; cases hy
  exact ⟨hr, dy⟩

/-- `f64 ← Float64` is the identity. -/
theorem decode_f64_identity (k : Int) : decode .f64 (.float64 k) = .ok (.f64 (.fin k)) := by
  simp [decode]

/-- Outside the claim, stated so that it is not mistaken for one: float targets accept *every* integer
(serde's `f32`/`f64` visitors take `visit_i64`/`visit_u64` with `v as f32/f64`); whether the result
is the same number is exactly `representable` (`decode_faithful`). -/
theorem decode_float_accepts_every_integer (v : Value) (hv : isInt v = true) :
    (decode .f64 v).isOk = true ∧ (decode .f32 v).isOk = true := by
  cases v <;> simp [isInt] at hv <;> simp [decode, Except.isOk, Except.toBool]

/-- `()` is outside the property's quantifier; the real decoder accepts nothing for it (serde's unit
visitor only has `visit_unit`, which `deserialize_any` never calls). -/
theorem decode_unit_rejects (v : Value) (x : Dec) : decode .unit v ≠ .ok x := by
  simp only [decode]; exact reject_not_ok _ _

/-! ### options -/

/-- `Null` decodes to `None`, for every inner type. -/
theorem decode_option_null (t : Target) : decode (.option t) .null = .ok .none := by
  simp [decode]

/-- Only `Null` decodes to `None` (in particular `Int64(0)`, `""`, `false`, `[]` do not). -/
theorem decode_option_none_iff (t : Target) (v : Value) :
    decode (.option t) v = .ok .none ↔ denotes false .none v = true := by
  cases v <;> simp only [decode, denotes] <;> (try simp) <;> split <;> simp

/-- Anything else decodes as the inner type and is wrapped in `Some`. -/
theorem decode_option_some (t : Target) (v : Value) (x : Dec) (hv : denotes false .none v = false) :
    decode (.option t) v = .ok (.some x) ↔ decode t v = .ok x := by
  cases v <;> simp only [decode, denotes] at hv ⊢ <;> (try simp at hv) <;> split <;> simp_all

/-! ### sequences -/

/-- A tuple target accepts only a list of exactly its length, and produces one component per position. -/
theorem decode_tuple_len (ts : List Target) (vs : List Value) (x : Dec)
    (h : decode (.tuple ts) (.list vs) = .ok x) :
    ∃ xs, x = .tuple xs ∧ xs.length = ts.length ∧ vs.length = ts.length := by
  simp only [decode] at h
  split at h
  · simp at h
  · split at h
    · rename_i ys hys
      simp at h; subst h
      exact ⟨ys, rfl, decodeTuple_length ts vs ys hys, by omega⟩
    · simp at h

/-- A list of any other length is an error (not a truncated or padded tuple). -/
theorem decode_tuple_len_mismatch (ts : List Target) (vs : List Value) (h : vs.length ≠ ts.length) :
    decode (.tuple ts) (.list vs) = .error .invalid := by
  simp only [decode]
  rw [if_pos (by omega)]

/-- A `Vec` target keeps every element: same length (and by `decode_sound` the same elements in the
same order). -/
theorem decode_vec_len (t : Target) (vs : List Value) (x : Dec)
    (h : decode (.vec t) (.list vs) = .ok x) : ∃ xs, x = .list xs ∧ xs.length = vs.length := by
  simp only [decode] at h
  split at h
  · rename_i ys hys
    simp at h; subst h
    exact ⟨ys, rfl, mapE_length _ vs ys hys⟩
  · simp at h

/-! ### panics -/

/-- Without `Enum` values the decoder never panics: every failure is an `Err`. -/
theorem decode_total_partial (τ : Target) (v : Value) (hv : noEnum v = true) :
    decode τ v ≠ .error .panic :=
  decode_no_panic_aux τ v hv

/-- The unguarded statement is false: `String ← Enum("a")` panics (`todo!()`), F-28. -/
theorem decode_total_false : ¬ ∀ (τ : Target) (v : Value), decode τ v ≠ .error .panic :=
  fun h => h .string (.enum [97]) rfl

/-! ### rows (`try_into_struct` on a `BTreeMap` / `&EdgeParameters`) -/

/-- Decoding a row into a struct with fields `fields` (distinct names): the result has exactly the
struct's fields in declaration order, and each field either
* is the decoding of the row's entry of that name by the field's type — hence (`decode_sound`) it is
  that entry's value, and when the field type has no float inside the value was representable and the
  result is exactly it; or
* is `None`, for an `Option` field whose name is absent from the row.
Keys of the row that name no field play no role. -/
theorem decodeRow_faithful (fields : List (Name × Target)) (row : Row) (out : List (Name × Dec))
    (hn : (fields.map (·.1)).Nodup) (h : decodeRow fields row = .ok out) :
    Forall2 (fun f o => o.1 = f.1 ∧
      ((∃ v, (f.1, v) ∈ row ∧ decode f.2 v = .ok o.2 ∧ denotes true o.2 v = true ∧
          (noFloat f.2 = true → representable f.2 v = true ∧ denotes false o.2 v = true)) ∨
       ((∀ v, (f.1, v) ∉ row) ∧ (∃ t, f.2 = .option t) ∧ o.2 = .none))) fields out := by
  refine (decodeRow_spec fields row out hn h).imp_mem ?_
  intro f _ o ⟨h1, h2⟩
  refine ⟨h1, ?_⟩
  rcases h2 with ⟨v, hm, hd⟩ | h2
  · exact .inl ⟨v, hm, hd, decode_sound _ _ _ hd, fun hτ => decode_exact _ _ _ hτ hd⟩
  · exact .inr h2

/-- A field that is absent from the row and is not an `Option` makes the decoding fail. -/
theorem decodeRow_missing_required (fields : List (Name × Target)) (row : Row) (k : Name) (τ : Target)
    (hn : (fields.map (·.1)).Nodup) (hf : (k, τ) ∈ fields) (hτ : ∀ t, τ ≠ .option t)
    (hk : ∀ v, (k, v) ∉ row) (out : List (Name × Dec)) : decodeRow fields row ≠ .ok out := by
  intro h
  have hs := decodeRow_spec fields row out hn h
  clear h hn
  induction hs with
  | nil => simp at hf
  | cons hd _ ih =>
    simp only [List.mem_cons] at hf
    rcases hf with hf | hf
    · subst hf
      rcases hd.2 with ⟨v, hm, _⟩ | ⟨_, ⟨t, ht⟩, _⟩
      · exact hk v hm
      · exact hτ t ht
    · exact ih hf

/-- An entry whose key names no field is ignored, whatever its value (even an `Enum`). -/
theorem decodeRow_ignores_extra (fields : List (Name × Target)) (row : Row) (k : Name) (v : Value)
    (hk : lookupTarget fields k = none) :
    decodeRow fields ((k, v) :: row) = decodeRow fields row := by
  simp only [decodeRow, sortRow, List.foldr_cons]
  rw [decodePresent_insert_unknown fields k v hk]

/-! ### Non-vacuity: the statements bite on the boundary cases -/

example : decode (.int .u64) (.int64 (-1)) = .error .invalid := by rfl
example : decode (.int .i64) (.uint64 18446744073709551615) = .error .invalid := by rfl
example : decode (.int .i8) (.uint64 127) = .ok (.int .i8 127) := by rfl
example : decode (.int .i8) (.int64 128) = .error .invalid := by rfl
example : decode (.int .u8) (.int64 256) = .error .invalid := by rfl
example : decode (.int .u64) (.int64 5) = .ok (.int .u64 5) := by rfl
example : decode (.int .usize) (.int64 (-1)) = .error .invalid := by rfl
example : decode (.int .i128) (.uint64 18446744073709551615) = .ok (.int .i128 18446744073709551615) := by rfl
example : decode (.option (.int .i32)) (.int64 2147483648) = .error .invalid := by rfl
example : decode (.option (.int .i32)) (.int64 0) = .ok (.some (.int .i32 0)) := by rfl
example : decode (.vec (.option (.int .u8))) (.list [.int64 1, .null, .uint64 255])
    = .ok (.list [.some (.int .u8 1), .none, .some (.int .u8 255)]) := by rfl
example : decode (.vec (.int .u8)) (.list [.int64 1, .uint64 256]) = .error .invalid := by rfl
example : decode (.tuple [.int .i8, .string]) (.list [.uint64 5]) = .error .invalid := by rfl
example : representable (.tuple [.int .i8, .string]) (.list [.uint64 5, .string [97]]) = true := by decide
example : ¬ fits .i8 (numOf (.int64 128)) := by decide
example : fits (intTarget 8 true) (numOf (.uint64 127)) := by decide
example : noFloat (.vec (.tuple [.int .u8, .option .string])) = true := by rfl
/-- a row with an extra (even `Enum`) key, a present and a missing `Option` field -/
example : decodeRow [([97], .int .i8), ([98], .option .string)]
    [([122, 122], .enum [97]), ([97], .int64 1)] = .ok [([97], .int .i8 1), ([98], .none)] := by rfl
example : decodeRow [([97], .int .i8)] [] = .error .invalid := by rfl

/-! Observations outside the claim (float targets; pinned so that a change is noticed):
`f64 ← Uint64(2^53+1)` is accepted and is `2^53`; `f32 ← Int64(16777217)` is `16777216`;
`f32 ← Float64(1e300)` is `+inf`. -/
example : decode .f64 (.uint64 9007199254740993) = .ok (.f64 (.fin 4845873199050653696)) := by rfl
example : representable .f64 (.uint64 9007199254740993) = false := by decide
example : representable .f64 (.uint64 9007199254740992) = true := by decide
example : decode .f32 (.int64 16777217) = .ok (.f32 (.fin 4715268809856909312)) := by rfl
example : decode .f32 (.float64 9094988921128908188) = .ok (.f32 .inf) := by rfl

end TF.C18

#print axioms TF.C18.decode_int_iff
#print axioms TF.C18.decode_int_iff_fixed
#print axioms TF.C18.decode_int_faithful
#print axioms TF.C18.decode_int_misfit_is_error
#print axioms TF.C18.decode_int_wrong_kind
#print axioms TF.C18.decode_faithful
#print axioms TF.C18.decode_sound
#print axioms TF.C18.decode_ok_iff
#print axioms TF.C18.decode_exact
#print axioms TF.C18.decode_f64_identity
#print axioms TF.C18.decode_float_accepts_every_integer
#print axioms TF.C18.decode_unit_rejects
#print axioms TF.C18.decode_option_null
#print axioms TF.C18.decode_option_none_iff
#print axioms TF.C18.decode_option_some
#print axioms TF.C18.decode_tuple_len
#print axioms TF.C18.decode_tuple_len_mismatch
#print axioms TF.C18.decode_vec_len
#print axioms TF.C18.decode_total_partial
#print axioms TF.C18.decode_total_false
#print axioms TF.C18.decodeRow_faithful
#print axioms TF.C18.decodeRow_missing_required
#print axioms TF.C18.decodeRow_ignores_extra
