/-
C19 — Schema validation never panics and accepts exactly the valid schemas.

Statements are about `TF.SchemaDoc.Schema.new`, the model of `Schema::new`
(trustfall_core/src/schema/mod.rs) on abstract schema documents (`Model/SchemaDoc.lean`): every list
of `schema` blocks, directive, scalar, object and interface definitions, in any order, with any
names, `implements` lists, fields, field types, parameters and default values — malformed
combinations included.  `ValidSchema` is the declarative conjunction of the documented rules
(`Model/SchemaDoc.lean`, written with plain quantifiers over the document, independent of the
algorithm).

The full property

    theorem schema_total (doc : Doc) : (Schema.new doc).panicSite? = none

is still FALSE for the code as it stands, but only because of ONE remaining defect: a field or
parameter type with more than 30 list levels makes `Type::from_type` panic (F-22, witness
`panics_deep_field_type`); `enum`/`union`/`input` definitions hit `unimplemented!` and are outside the
supported constructs (`panics_unsupported`).  It is proved as `schema_total_partial` under the
decidable, syntactic guard `NoKnownSchemaTrigger` — no `enum`/`union`/`input` definition, no type with
more than 30 list levels — and the acceptance equivalence `schema_accepts_iff` is proved in full for
every document satisfying the guard.

History.  A gap of validation observable only through the frontend (F-C10-5: a field declaring the same
parameter twice was accepted and every query through it panicked in `make_edge_parameters`) is
closed: `DuplicateFieldParameterDefinition`, rule `paramsDistinct`, and `accepted_params_distinct`
below holds of EVERY accepted schema, no guard.  Eight more panic classes have been repaired in /repo and are typed errors now; their
documents are covered by the theorems (the guard lost the corresponding clauses) and the old
witnesses are kernel-checked regression examples below: a second `schema` block (F-16,
`DuplicateSchemaDefinition`), no `schema` block (F-17, `MissingSchemaDefinition`), an undefined query
type (F-18, `UndefinedQueryType`), an interface as query type (F-19, `QueryTypeNotAnObject`), a
definition named like a built-in scalar (F-20, `BuiltinScalarRedefinition`), a directive defined twice
(F-21, `DuplicateDirectiveDefinition`), a custom scalar defined twice (F-21b,
`DuplicateScalarDefinition`), an enum constant in a default value (F-C19-1, an ordinary
`InvalidDefaultValueForFieldParameter`).
-/
import TrustfallModel.Proofs.SchemaOrigins
import TrustfallModel.Proofs.SchemaExamples

namespace TF.C19
open TF TF.SchemaDoc TF.SchemaDoc.Examples

/-- **No panic** (partial): a document built from the supported constructs (no `enum`/`union`/`input`
definition) in which no field or parameter type has more than 30 list levels never makes `Schema::new`
panic — whatever else is wrong with it: any number of `schema` blocks, an undefined or interface
query type, definitions named like built-in scalars, repeated directives / scalars / types / fields,
and every violation of the validation rules.  Not at the first loop, not at the look-ups after it,
and not at any of the internal `unwrap`/index sites of `get_field_origins` (mod.rs:769, 781, 799,
805), `check_ambiguous_field_origins` (mod.rs:494) or the final `expect` (mod.rs:249). -/
theorem schema_total_partial (doc : Doc) (h : NoKnownSchemaTrigger doc = true) :
    (Schema.new doc).panicSite? = none := by
  rcases schemaNew_spec h with ⟨s, hs, _⟩ | ⟨es, hs, _⟩ <;> simp [hs, Outcome.panicSite?]

/-- **Accepts exactly the valid schemas**: for a document without panic triggers, `Schema::new`
returns `Ok(schema)` iff the documented rules hold — one `schema` block naming a defined object
type; type names and, per type, field names defined once; implemented types exist, are interfaces
and are implemented transitively; inherited fields are present and only narrowed (type narrowed,
same parameter names, parameter types only widened); every field type is a built-in scalar or a
defined vertex type; no reserved `__` names; no edge into the root type; properties take no
parameters; default values fit their parameter types; edge types are not lists of lists; the root
type only has edges; no implementation cycle; no ambiguous field origin; no definition named like a
built-in scalar; directives and custom scalars defined once; parameter names declared once per field.
All twenty conjuncts of `ValidSchema` are closed. -/
theorem schema_accepts_iff (doc : Doc) (h : NoKnownSchemaTrigger doc = true) :
    (∃ s, Schema.new doc = .ok (.ok s)) ↔ ValidSchema doc := by
  constructor
  · rintro ⟨s, hs⟩
    rcases schemaNew_spec h with ⟨s', hs', hspec⟩ | ⟨es, hes, _⟩
    · exact hspec.valid
    · rw [hs] at hes; cases hes
  · intro hv
    rcases schemaNew_spec h with ⟨s, hs, _⟩ | ⟨es, _, _, hno⟩
    · exact ⟨s, hs⟩
    · exact absurd hv hno

/-- The same equivalence for the decidable observer used by the driver. -/
theorem accepts_iff (doc : Doc) (h : NoKnownSchemaTrigger doc = true) :
    accepts doc = true ↔ ValidSchema doc := by
  rw [← schema_accepts_iff doc h]
  unfold accepts
  constructor
  · intro ha
    cases hs : Schema.new doc with
    | panic s => simp [hs] at ha
    | ok r => cases r with
      | ok s => exact ⟨s, rfl⟩
      | error e => simp [hs] at ha
  · rintro ⟨s, hs⟩; simp [hs]

/-- **A schema or a typed error**: on every document without panic triggers `Schema::new` returns
`Ok(schema)` or `Err(errors)` with a non-empty error list (`InvalidSchemaError::from(Vec)` asserts
this, error.rs) — and in the second case the document violates a documented rule. -/
theorem rejects_with_errors (doc : Doc) (h : NoKnownSchemaTrigger doc = true) :
    (∃ s, Schema.new doc = .ok (.ok s)) ∨
    (∃ es, Schema.new doc = .ok (.error es) ∧ es ≠ [] ∧ ¬ ValidSchema doc) := by
  rcases schemaNew_spec h with ⟨s, hs, _⟩ | ⟨es, hs, hne, hno⟩
  · exact .inl ⟨s, hs⟩
  · exact .inr ⟨es, hs, hne, hno⟩

/-- The first loop of `Schema::new` and the look-ups right after it (where seven of the repaired
panics were): on documents built from the supported constructs the loop never panics, and it returns
early with an error exactly when the definitions read violate its requirements (`LoopOK`: at most one
`schema` block, no type or scalar named like a built-in scalar, distinct directive, scalar and type
names, distinct field names per type, distinct parameter names per field). -/
theorem first_loop_total (doc : Doc) (h : doc.unsupportedNames = []) :
    (∃ e, runLoop {} doc = .ok (.error e) ∧ ¬ LoopOK doc) ∨
    (∃ st, runLoop {} doc = .ok (.ok st) ∧ StateOf doc st ∧ LoopOK doc) := by
  simpa using runLoop_spec doc [] {} ⟨rfl, rfl, rfl, rfl⟩ LoopOK.nil h

/-- **Every accepted schema has distinct parameter names per field** — for every document, no guard
(the check sits in the first loop, before anything that can panic).  This is the assumption of the
frontend's `make_edge_parameters` (`insert_or_error(..).unwrap()`, "Duplicates should have been caught
at parse time"), which `Schema::new` did not establish before the repair of F-C10-5. -/
theorem accepted_params_distinct (doc : Doc) (s : Schema) (h : Schema.new doc = .ok (.ok s)) :
    ∀ t ∈ s.vertexTypes, ∀ f ∈ t.fields, (f.args.map (·.name)).Nodup :=
  new_ok_paramsNodup h

/-! ## Per-rule equivalences (each check of `Schema::new` against its rule) -/

/-- `check_required_transitive_implementations` reports nothing iff every implemented name is a
defined interface whose own `implements` entries are implemented too (an entry naming the type
itself is left to the cycle check). -/
theorem check_transitive_iff (vts : List TypeDef) : checkTransitive vts = [] ↔ TransitiveRule vts :=
  checkTransitive_nil_iff vts

/-- `check_fields_required_by_interface_implementations` reports nothing iff every field of every
implemented type is present. -/
theorem check_required_fields_iff (vts : List TypeDef) :
    checkRequiredFields vts = [] ↔ RequiredFieldsRule vts :=
  checkRequiredFields_nil_iff vts

/-- `check_field_type_narrowing` does not panic (parameter types ≤ 30 levels) and reports nothing iff
every inherited field narrows its parent's type, has the same parameter names, and only widens the
parameter types. -/
theorem check_narrowing_iff {vts : List TypeDef} (hnd : (vts.map (·.name)).Nodup)
    (hc : ∀ t ∈ vts, ∀ f ∈ t.fields, ArgsShallow f) :
    ∃ es, checkNarrowing vts = .ok es ∧ (es = [] ↔ NarrowingRule vts) :=
  checkNarrowing_spec hnd hc

/-- `check_type_and_property_and_edge_invariants`. -/
theorem check_invariants_iff (vts : List TypeDef) (root : Name) (hc : FieldsClean vts) :
    ∃ es, checkInvariants vts root = .ok es ∧ (es = [] ↔ InvariantsRule vts root) :=
  checkInvariants_spec vts root hc

/-- `check_root_query_type_invariants`. -/
theorem check_root_iff (q : TypeDef) (hc : ∀ f ∈ q.fields, f.clean = true) :
    ∃ es, checkRoot q = .ok es ∧ (es = [] ↔ RootRule q) :=
  checkRoot_spec q hc

/-- `get_field_origins` never panics (none of its `unwrap`/index sites is reachable, the loop ends
within `|types|` iterations) and returns `CircularImplementsRelationships` iff the `implements`
relation between defined types has a cycle. -/
theorem field_origins_cycle_iff {vts : List TypeDef} (hd : Distinct vts) :
    (∃ e, getFieldOrigins vts = .ok (.error e)) ↔ ∃ t, TransGen (ImplStep vts) t t := by
  rcases getFieldOrigins_spec hd with ⟨e, he, hc⟩ | ⟨o, ho, hac, _⟩
  · exact ⟨fun _ => hc, fun _ => ⟨e, he⟩⟩
  · constructor
    · rintro ⟨e, he⟩; rw [ho] at he; cases he
    · rintro ⟨t, ht⟩; exact absurd ht (hac t)

/-! ## Witnesses: the full `schema_total` is false -/

section Witnesses

/-- F-22: a field type with 31 list levels. -/
theorem panics_deep_field_type :
    (Schema.new [.schema "Q", tyQ [edgeA []],
      .type { name := "A", isInterface := false, implements := [], fields := [⟨"x", deep 31, []⟩] }]).panicSite?
      = some .tooManyListLevels := by decide
/-- `enum` / `union` / `input` definitions are outside the supported constructs (`unimplemented!`). -/
theorem panics_unsupported : (Schema.new (small ++ [.unsupported "E"])).panicSite? = some .unsupportedDef := by decide

/-- Hence the unguarded statement is false (through F-22, with supported constructs only). -/
theorem schema_total_false : ¬ ∀ doc : Doc, (Schema.new doc).panicSite? = none := by
  intro h
  have := h [.schema "Q", tyQ [edgeA []],
      .type { name := "A", isInterface := false, implements := [], fields := [⟨"x", deep 31, []⟩] }]
  rw [panics_deep_field_type] at this
  cases this

/-- The witnesses violate the guard … -/
example : NoKnownSchemaTrigger [.schema "Q", tyQ [edgeA []],
    .type { name := "A", isInterface := false, implements := [], fields := [⟨"x", deep 31, []⟩] }] = false := by decide
example : NoKnownSchemaTrigger (small ++ [.unsupported "E"]) = false := by decide
/-- … and 30 list levels are still fine. -/
example : accepts [.schema "Q", tyQ [edgeA []],
    .type { name := "A", isInterface := false, implements := [], fields := [⟨"x", deep 30, []⟩] }] = true := by decide

/- History — F-16, F-17, F-18, F-19, F-20, F-21, F-21b, repaired.  Until the repairs the first loop of
`Schema::new` and the look-ups after it panicked on seven classes of documents; the witnesses were

  theorem panics_dup_schema_block     : (Schema.new (.schema "Q" :: small)).panicSite? = some .dupSchemaBlock
  theorem panics_no_schema_block      : (Schema.new [tyQ [edgeA []], tyA]).panicSite? = some .noSchemaBlock
  theorem panics_query_type_undefined : (Schema.new [.schema "Z", .scalar "Z", …]).panicSite? = some .queryTypeUndefined
  theorem panics_query_type_interface : (Schema.new [.schema "Q", interface Q …]).panicSite? = some .queryTypeNotObject
  theorem panics_builtin_redefined    : (Schema.new (small ++ [.scalar "Int"])).panicSite? = some .builtinRedefined
  theorem panics_dup_directive        : (Schema.new (small ++ [.directive "d", .directive "d"])).panicSite? = some .dupDirective
  theorem panics_dup_scalar           : (Schema.new (small ++ [.scalar "Date", .scalar "Date"])).panicSite? = some .dupScalar

and `NoKnownSchemaTrigger` demanded "exactly one `schema` block whose query type is a defined object
type; no definition named like a built-in scalar; distinct directive names; distinct custom scalar
names".  Each is an early `return Err(..)` with its own `InvalidSchemaError` variant now; the clauses
are gone from the guard (so `schema_total_partial` / `schema_accepts_iff` / `rejects_with_errors` cover
these documents) and the old witnesses are regression examples: -/
example : rejectsWith (.schema "Q" :: small) = some [.duplicateSchemaDefinition] := by decide
example : rejectsWith [tyQ [edgeA []], tyA] = some [.missingSchemaDefinition] := by decide
example : rejectsWith [.schema "Z", .scalar "Z", tyQ [edgeA []], tyA] = some [.undefinedQueryType "Z"] := by decide
example : rejectsWith [.schema "Q", .type { name := "Q", isInterface := true, implements := [], fields := [edgeA []] }, tyA]
    = some [.queryTypeNotAnObject "Q"] := by decide
example : rejectsWith (small ++ [.scalar "Int"]) = some [.builtinScalarRedefinition "Int"] := by decide
example : rejectsWith (small ++ [obj "Float" [] [fx]]) = some [.builtinScalarRedefinition "Float"] := by decide
example : rejectsWith (small ++ [.directive "d", .directive "d"]) = some [.duplicateDirectiveDefinition "d"] := by decide
example : rejectsWith (small ++ [.scalar "Date", .scalar "Date"]) = some [.duplicateScalarDefinition "Date"] := by decide
/-- The guard holds of every one of them … -/
example : NoKnownSchemaTrigger (.schema "Q" :: small) = true := by decide
example : NoKnownSchemaTrigger [tyQ [edgeA []], tyA] = true := by decide
example : NoKnownSchemaTrigger [.schema "Z", .scalar "Z", tyQ [edgeA []], tyA] = true := by decide
example : NoKnownSchemaTrigger (small ++ [.scalar "Int"]) = true := by decide
example : NoKnownSchemaTrigger (small ++ [.directive "d", .directive "d"]) = true := by decide
example : NoKnownSchemaTrigger (small ++ [.scalar "Date", .scalar "Date"]) = true := by decide
/-- … so, by the equivalence, none of them is a `ValidSchema`. -/
example : ¬ ValidSchema (.schema "Q" :: small) := fun h => absurd ((accepts_iff _ (by decide)).mpr h) (by decide)
example : ¬ ValidSchema [tyQ [edgeA []], tyA] := fun h => absurd ((accepts_iff _ (by decide)).mpr h) (by decide)
example : ¬ ValidSchema (small ++ [.scalar "Int"]) := fun h => absurd ((accepts_iff _ (by decide)).mpr h) (by decide)
/-- Early returns keep the order of the code: the first offending definition decides, and an error
of the first loop comes before the look-up of the query type; the built-in-name check comes first for
every type-system definition, also an `enum`/`union`/`input` one. -/
example : rejectsWith (.schema "Z" :: small ++ [.scalar "Date", .scalar "Date"]) = some [.duplicateSchemaDefinition] := by decide
example : rejectsWith ([tyQ [edgeA []], tyA] ++ [.directive "d", .directive "d"])
    = some [.duplicateDirectiveDefinition "d"] := by decide
example : rejectsWith [.schema "Z", tyA, tyA] = some [.duplicateTypeDefinition "A"] := by decide
example : rejectsWith (small ++ [.unsupported "Int"]) = some [.builtinScalarRedefinition "Int"] := by decide
example : rejectsWith (small ++ [.scalar "Date", .scalar "Int", .scalar "Date"])
    = some [.builtinScalarRedefinition "Int"] := by decide

/- History — F-C10-5, repaired.  `type Root { A(x: Int, x: Int): A }` used to be ACCEPTED (the inheritance
checks looked at the last declaration of a repeated parameter name, both showed up in introspection)
and every query through such an edge made the frontend panic (`make_edge_parameters`,
frontend/mod.rs:195).  The first loop rejects it now, per field before the field is inserted: -/
example : rejectsWith [.schema "Q", tyQ [edgeA [⟨"x", intTy, none⟩, ⟨"x", intTy, none⟩]], tyA]
    = some [.duplicateFieldParameterDefinition "Q" "a" "x"] := by decide
example : NoKnownSchemaTrigger [.schema "Q", tyQ [edgeA [⟨"x", intTy, none⟩, ⟨"x", intTy, none⟩]], tyA] = true := by decide
example : ¬ ValidSchema [.schema "Q", tyQ [edgeA [⟨"x", intTy, none⟩, ⟨"x", intTy, none⟩]], tyA] :=
  fun h => absurd ((accepts_iff _ (by decide)).mpr h) (by decide)
/-- the first repeated name is reported; with different types as well; on a property field as well (the
check precedes `PropertyFieldWithParameters`, an accumulated error of a later check) -/
example : rejectsWith [.schema "Q", tyQ [edgeA [⟨"y", intTy, none⟩, ⟨"x", intTy, none⟩, ⟨"x", strTy, none⟩, ⟨"y", intTy, none⟩]], tyA]
    = some [.duplicateFieldParameterDefinition "Q" "a" "x"] := by decide
example : rejectsWith (withB [obj "B" [] [⟨"x", intTy, [⟨"p", intTy, none⟩, ⟨"p", intTy, none⟩]⟩]])
    = some [.duplicateFieldParameterDefinition "B" "x" "p"] := by decide
/-- per field, the parameter check comes before the insertion of the field: a repeated field whose
second declaration repeats a parameter reports the parameter; an earlier repeated field wins -/
example : rejectsWith (withB [obj "B" [] [fx, ⟨"x", intTy, [⟨"p", intTy, none⟩, ⟨"p", intTy, none⟩]⟩]])
    = some [.duplicateFieldParameterDefinition "B" "x" "p"] := by decide
example : rejectsWith (withB [obj "B" [] [fx, fx, ⟨"e", named "B", [⟨"p", intTy, none⟩, ⟨"p", intTy, none⟩]⟩]])
    = some [.duplicateFieldDefinition "B" "x"] := by decide

/- History — F-C19-1 (listed here as "F-28" at the time), repaired: an enum constant as (part of)
the default value of an edge parameter made `Type::is_valid_value` hit
`unimplemented!("enum values are not currently supported")`; the witness was
  theorem panics_enum_default : (Schema.new [… a(p: Int = F) …]).panicSite? = some .enumValue
and `NoKnownSchemaTrigger` had the clause "no enum constant in a default value".  The enum arm is
`false` now: the clause is gone from the guard (so `schema_total_partial` / `schema_accepts_iff`
cover such documents) and the old witness is a regression example: an ordinary invalid default
value, also for an enum constant inside a list default. -/
example : rejectsWith [.schema "Q", tyQ [edgeA [⟨"p", .named "Int" false, some (.val (.enum [70]))⟩]], tyA]
    = some [.invalidDefaultValue "Q" "a" "p" (.named "Int" false)] := by decide
example : rejectsWith [.schema "Q",
      tyQ [edgeA [⟨"p", .list (.named "Int" false) false, some (.val (.list [.null, .enum [70]]))⟩]], tyA]
    = some [.invalidDefaultValue "Q" "a" "p" (.list (.named "Int" false) false)] := by decide
example : NoKnownSchemaTrigger
    [.schema "Q", tyQ [edgeA [⟨"p", .named "Int" false, some (.val (.enum [70]))⟩]], tyA] = true := by decide

end Witnesses

/-! ## Non-vacuity: valid schemas exist, and each rule has a rejected violation -/

section NonVacuity

/-- The guard holds of the small schema and it is accepted; by `accepts_iff` it is a `ValidSchema`. -/
example : NoKnownSchemaTrigger small = true := by decide
example : accepts small = true := by decide
theorem small_valid : ValidSchema small := (accepts_iff small (by decide)).mp (by decide)

example : NoKnownSchemaTrigger rich = true := by decide
theorem rich_valid : ValidSchema rich := (accepts_iff rich (by decide)).mp (by decide)

/-- Each rule has a violating document that is rejected with the expected error variant. -/
example : rejectsWith (withB [obj "B" ["Nope"] [fx]]) = some [.implementingNonExistentType "B" "Nope"] := by decide
example : rejectsWith (withB [obj "C" [] [fx], obj "B" ["C"] [fx]]) = some [.implementingNonInterface "B" "C"] := by decide
example : rejectsWith (withB [iface "J" [] [fx], iface "K" ["J"] [fx], obj "B" ["K"] [fx]])
    = some [.missingTransitive "B" "K" "J"] := by decide
example : rejectsWith (withB [iface "J" [] [fx], obj "B" ["J"] [⟨"y", intTy, []⟩]])
    = some [.missingRequiredField "B" "J" "x" intTy] := by decide
example : rejectsWith (withB [iface "J" [] [⟨"x", .named "Int" true, []⟩], obj "B" ["J"] [fx]])
    = some [.invalidTypeWidening "x" "B" "J" intTy (.named "Int" true)] := by decide
example : rejectsWith (withB [iface "J" [] [⟨"e", named "B", [⟨"p", intTy, none⟩]⟩], obj "B" ["J"] [⟨"e", named "B", []⟩]])
    = some [.inheritedFieldMissingParameters "e" "B" "J" ["p"]] := by decide
example : rejectsWith (withB [iface "J" [] [⟨"e", named "B", []⟩], obj "B" ["J"] [⟨"e", named "B", [⟨"p", intTy, none⟩]⟩]])
    = some [.inheritedFieldUnexpectedParameters "e" "B" "J" ["p"]] := by decide
example : rejectsWith (withB [iface "J" [] [⟨"e", named "B", [⟨"p", intTy, none⟩]⟩],
      obj "B" ["J"] [⟨"e", named "B", [⟨"p", .named "Int" true, none⟩]⟩]])
    = some [.invalidParamNarrowing "e" "B" "J" "p" (.named "Int" true) intTy] := by decide
example : rejectsWith (withB [obj "B" [] [⟨"x", named "Nope", []⟩]]) = some [.unknownPropertyOrEdgeType "x" (named "Nope")] := by decide
example : rejectsWith (withB [.scalar "Date", obj "B" [] [⟨"x", named "Date", []⟩]])
    = some [.unknownPropertyOrEdgeType "x" (named "Date")] := by decide
example : rejectsWith (withB [obj "B" [] [⟨"__x", intTy, []⟩]]) = some [.reservedFieldName "B" "__x"] := by decide
example : rejectsWith (withB [obj "B" [] [fx], obj "__T" [] [fx]]) = some [.reservedTypeName "__T"] := by decide
example : rejectsWith (withB [obj "B" [] [⟨"back", named "Q", []⟩]]) = some [.edgePointsToRoot "B" "back" (named "Q")] := by decide
example : rejectsWith (withB [obj "B" [] [⟨"x", intTy, [⟨"p", intTy, none⟩]⟩]])
    = some [.propertyFieldWithParameters "B" "x" intTy ["p"]] := by decide
example : rejectsWith (withB [obj "B" [] [⟨"e", named "B", [⟨"p", intTy, some (.val (.string [97]))⟩]⟩]])
    = some [.invalidDefaultValue "B" "e" "p" intTy] := by decide
example : rejectsWith (withB [obj "B" [] [⟨"e", named "B", [⟨"p", .named "Int" true, some (.val .null)⟩]⟩]])
    = some [.invalidDefaultValue "B" "e" "p" (.named "Int" true)] := by decide
example : rejectsWith (withB [obj "B" [] [⟨"e", named "B", [⟨"p", intTy, some .bad⟩]⟩]])
    = some [.invalidDefaultValue "B" "e" "p" intTy] := by decide
example : rejectsWith (withB [obj "B" [] [⟨"e", .list (.list (named "B") false) false, []⟩]])
    = some [.invalidEdgeType "B" "e" (.list (.list (named "B") false) false)] := by decide
example : rejectsWith [.schema "Q", obj "Q" [] [⟨"b", named "B", []⟩, ⟨"n", intTy, []⟩], obj "B" [] [fx]]
    = some [.propertyFieldOnRoot "Q" "n" intTy] := by decide
example : rejectsWith (withB [obj "B" [] [fx], iface "J" ["K"] [fx], iface "K" ["J"] [fx]])
    = some [.circularImplements ["J", "K"]] := by decide
example : rejectsWith (withB [iface "J" ["J"] [fx], obj "B" [] [fx]]) = some [.circularImplements ["J"]] := by decide
example : rejectsWith (withB [iface "J" [] [fx], iface "K" [] [fx], obj "B" ["J", "K"] [fx]])
    = some [.ambiguousFieldOrigin "B" "x" intTy ["J", "K"]] := by decide
example : rejectsWith (withB [obj "B" [] [fx], obj "B" [] [fx]]) = some [.duplicateTypeDefinition "B"] := by decide
example : rejectsWith (withB [obj "B" [] [fx, fx]]) = some [.duplicateFieldDefinition "B" "x"] := by decide
/-- A diamond (the same field inherited along two paths from one origin) is *not* ambiguous. -/
example : accepts (withB [iface "I" [] [fx], iface "J" ["I"] [fx], iface "K" ["I"] [fx], obj "B" ["J", "K", "I"] [fx]])
    = true := by decide

/-- The declarative rules really reject: e.g. the cyclic document is not a `ValidSchema`. -/
example : ¬ ValidSchema (withB [iface "J" ["J"] [fx], obj "B" [] [fx]]) := by
  intro h
  exact absurd ((accepts_iff _ (by decide)).mpr h) (by decide)

end NonVacuity

end TF.C19

#print axioms TF.C19.schema_total_partial
#print axioms TF.C19.schema_accepts_iff
#print axioms TF.C19.accepts_iff
#print axioms TF.C19.rejects_with_errors
#print axioms TF.C19.first_loop_total
#print axioms TF.C19.accepted_params_distinct
#print axioms TF.C19.check_transitive_iff
#print axioms TF.C19.check_required_fields_iff
#print axioms TF.C19.check_narrowing_iff
#print axioms TF.C19.check_invariants_iff
#print axioms TF.C19.check_root_iff
#print axioms TF.C19.field_origins_cycle_iff
#print axioms TF.C19.schema_total_false
#print axioms TF.C19.panics_deep_field_type
#print axioms TF.C19.panics_unsupported
#print axioms TF.C19.small_valid
#print axioms TF.C19.rich_valid
