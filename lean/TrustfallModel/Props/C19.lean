/-
C19 — Schema validation never panics and accepts exactly the valid schemas.

Statements are about `TF.SchemaDoc.Schema.new`, the model of `Schema::new`
(trustfall_core/src/schema/mod.rs) on abstract schema documents (`Model/SchemaDoc.lean`): every list
of `schema` blocks, directive, scalar, object and interface definitions, in any order, with any
names, `implements` lists, fields, field types, parameters and default values — malformed
combinations included.  `ValidSchema` is the declarative conjunction of the documented rules
(`Model/SchemaDoc.lean`, written with plain quantifiers over the document, independent of the
algorithm).

The full property

    theorem schema_total (doc : Doc) : (Schema.new doc).panicSite? = none

is FALSE for the code as it stands: nine classes of documents make `Schema::new` panic (F-16 … F-22
in `known_findings.json`; a tenth, an enum constant in a default value — F-C19-1 — has been
repaired and is a regression example now); each has a witness below (`panics_*`, replayed against the real
`Schema::parse` by the harness).  It is proved as `schema_total_partial` under the decidable,
syntactic guard `NoKnownSchemaTrigger`, and the acceptance equivalence `schema_accepts_iff` is
proved in full for every document satisfying the guard.
-/
import TrustfallModel.Proofs.SchemaOrigins
import TrustfallModel.Proofs.SchemaExamples

namespace TF.C19
open TF TF.SchemaDoc TF.SchemaDoc.Examples

/-- **No panic** (partial): a document without any of the known panic triggers — exactly one
`schema` block whose query type is a defined object type, no definition re-using a built-in scalar
name, distinct directive names, distinct custom scalar names, no `enum`/`union`/`input`
definition, no field or parameter type with more than 30 list levels — never makes `Schema::new` panic: not at the sites of the known triggers and not at
any of the internal `unwrap`/index sites of `get_field_origins` (mod.rs:769, 781, 799, 805),
`check_ambiguous_field_origins` (mod.rs:494) or the final `expect` (mod.rs:249). -/
theorem schema_total_partial (doc : Doc) (h : NoKnownSchemaTrigger doc = true) :
    (Schema.new doc).panicSite? = none := by
  obtain ⟨_, _, _, _, _, _, hres⟩ := schemaNew_spec h
  rcases hres with ⟨s, hs, _⟩ | ⟨es, hs, _⟩ <;> simp [hs, Outcome.panicSite?]

/-- **Accepts exactly the valid schemas**: for a document without panic triggers, `Schema::new`
returns `Ok(schema)` iff the documented rules hold — one `schema` block naming a defined object
type; type names and, per type, field names defined once; implemented types exist, are interfaces
and are implemented transitively; inherited fields are present and only narrowed (type narrowed,
same parameter names, parameter types only widened); every field type is a built-in scalar or a
defined vertex type; no reserved `__` names; no edge into the root type; properties take no
parameters; default values fit their parameter types; edge types are not lists of lists; the root
type only has edges; no implementation cycle; no ambiguous field origin.  All sixteen conjuncts of
`ValidSchema` are closed. -/
theorem schema_accepts_iff (doc : Doc) (h : NoKnownSchemaTrigger doc = true) :
    (∃ s, Schema.new doc = .ok (.ok s)) ↔ ValidSchema doc := by
  obtain ⟨q, qd, hblocks, hq, hqi, hqb, hres⟩ := schemaNew_spec h
  constructor
  · rintro ⟨s, hs⟩
    rcases hres with ⟨_, _, _, _, hd, hr⟩ | ⟨es, hes, _⟩
    · exact validSchema_of_rules hblocks hq hqi hqb hd hr
    · rw [hs] at hes; cases hes
  · intro hv
    rcases hres with ⟨s, hs, _⟩ | ⟨es, _, hne⟩
    · exact ⟨s, hs⟩
    · exact absurd (rules_of_validSchema hblocks hq hv) hne

/-- The same equivalence for the decidable observer used by the driver. -/
theorem accepts_iff (doc : Doc) (h : NoKnownSchemaTrigger doc = true) :
    accepts doc = true ↔ ValidSchema doc := by
  rw [← schema_accepts_iff doc h]
  unfold accepts
  constructor
  · intro ha
    cases hs : Schema.new doc with
    | panic s => simp [hs] at ha
    | ok r => cases r with
      | ok s => exact ⟨s, rfl⟩
      | error e => simp [hs] at ha
  · rintro ⟨s, hs⟩; simp [hs]

/-- Either a schema or a typed error: on a rejected document (without panic triggers) the error
list is non-empty (`InvalidSchemaError::from(Vec)` asserts this, error.rs:150). -/
theorem rejects_with_errors (doc : Doc) (h : NoKnownSchemaTrigger doc = true) :
    (∃ s, Schema.new doc = .ok (.ok s)) ∨ (∃ es, Schema.new doc = .ok (.error es) ∧ es ≠ []) := by
  have hp := schema_total_partial doc h
  cases hs : Schema.new doc with
  | panic s => simp [hs, Outcome.panicSite?] at hp
  | ok r =>
    cases r with
    | ok s => exact .inl ⟨s, rfl⟩
    | error es =>
      refine .inr ⟨es, rfl, ?_⟩
      rintro rfl
      -- `Err([])` is impossible: the error branch is only taken when `errors` is non-empty
      unfold Schema.new at hs
      split at hs
      · cases hs
      · cases hs
      · split at hs
        · cases hs
        · split at hs
          · cases hs
          · split at hs
            · cases hs
            · split at hs
              · cases hs
              · split at hs
                · split at hs <;> cases hs
                · rename_i hne
                  cases hs
                  simp at hne

/-! ## Per-rule equivalences (each check of `Schema::new` against its rule) -/

/-- `check_required_transitive_implementations` reports nothing iff every implemented name is a
defined interface whose own `implements` entries are implemented too (an entry naming the type
itself is left to the cycle check). -/
theorem check_transitive_iff (vts : List TypeDef) : checkTransitive vts = [] ↔ TransitiveRule vts :=
  checkTransitive_nil_iff vts

/-- `check_fields_required_by_interface_implementations` reports nothing iff every field of every
implemented type is present. -/
theorem check_required_fields_iff (vts : List TypeDef) :
    checkRequiredFields vts = [] ↔ RequiredFieldsRule vts :=
  checkRequiredFields_nil_iff vts

/-- `check_field_type_narrowing` does not panic (parameter types ≤ 30 levels) and reports nothing iff
every inherited field narrows its parent's type, has the same parameter names, and only widens the
parameter types. -/
theorem check_narrowing_iff {vts : List TypeDef} (hnd : (vts.map (·.name)).Nodup)
    (hc : ∀ t ∈ vts, ∀ f ∈ t.fields, ArgsShallow f) :
    ∃ es, checkNarrowing vts = .ok es ∧ (es = [] ↔ NarrowingRule vts) :=
  checkNarrowing_spec hnd hc

/-- `check_type_and_property_and_edge_invariants`. -/
theorem check_invariants_iff (vts : List TypeDef) (root : Name) (hc : FieldsClean vts) :
    ∃ es, checkInvariants vts root = .ok es ∧ (es = [] ↔ InvariantsRule vts root) :=
  checkInvariants_spec vts root hc

/-- `check_root_query_type_invariants`. -/
theorem check_root_iff (q : TypeDef) (hc : ∀ f ∈ q.fields, f.clean = true) :
    ∃ es, checkRoot q = .ok es ∧ (es = [] ↔ RootRule q) :=
  checkRoot_spec q hc

/-- `get_field_origins` never panics (none of its `unwrap`/index sites is reachable, the loop ends
within `|types|` iterations) and returns `CircularImplementsRelationships` iff the `implements`
relation between defined types has a cycle. -/
theorem field_origins_cycle_iff {vts : List TypeDef} (hd : Distinct vts) :
    (∃ e, getFieldOrigins vts = .ok (.error e)) ↔ ∃ t, TransGen (ImplStep vts) t t := by
  rcases getFieldOrigins_spec hd with ⟨e, he, hc⟩ | ⟨o, ho, hac, _⟩
  · exact ⟨fun _ => hc, fun _ => ⟨e, he⟩⟩
  · constructor
    · rintro ⟨e, he⟩; rw [ho] at he; cases he
    · rintro ⟨t, ht⟩; exact absurd ht (hac t)

/-! ## Witnesses: the full `schema_total` is false (one per panic class) -/

section Witnesses

/-- F-16: a second `schema` block. -/
theorem panics_dup_schema_block : (Schema.new (.schema "Q" :: small)).panicSite? = some .dupSchemaBlock := by decide
/-- F-17: no `schema` block. -/
theorem panics_no_schema_block : (Schema.new [tyQ [edgeA []], tyA]).panicSite? = some .noSchemaBlock := by decide
/-- F-18: the query type is not defined (also when only a scalar has that name). -/
theorem panics_query_type_undefined :
    (Schema.new [.schema "Z", .scalar "Z", tyQ [edgeA []], tyA]).panicSite? = some .queryTypeUndefined := by decide
/-- F-19: the query type is an interface. -/
theorem panics_query_type_interface :
    (Schema.new [.schema "Q", .type { name := "Q", isInterface := true, implements := [], fields := [edgeA []] }, tyA]).panicSite?
      = some .queryTypeNotObject := by decide
/-- F-20: a definition re-uses a built-in scalar name (`scalar Int`, `type Float {…}`). -/
theorem panics_builtin_redefined : (Schema.new (small ++ [.scalar "Int"])).panicSite? = some .builtinRedefined := by decide
/-- F-21: a directive defined twice. -/
theorem panics_dup_directive :
    (Schema.new (small ++ [.directive "d", .directive "d"])).panicSite? = some .dupDirective := by decide
/-- F-21: a custom scalar defined twice. -/
theorem panics_dup_scalar :
    (Schema.new (small ++ [.scalar "Date", .scalar "Date"])).panicSite? = some .dupScalar := by decide
/-- F-22: a field type with 31 list levels. -/
theorem panics_deep_field_type :
    (Schema.new [.schema "Q", tyQ [edgeA []],
      .type { name := "A", isInterface := false, implements := [], fields := [⟨"x", deep 31, []⟩] }]).panicSite?
      = some .tooManyListLevels := by decide
/- History — F-C19-1 (listed here as "F-28" at the time), repaired: an enum constant as (part of)
the default value of an edge parameter made `Type::is_valid_value` hit
`unimplemented!("enum values are not currently supported")`; the witness was
  theorem panics_enum_default : (Schema.new [… a(p: Int = F) …]).panicSite? = some .enumValue
and `NoKnownSchemaTrigger` had the clause "no enum constant in a default value".  The enum arm is
`false` now: the clause is gone from the guard (so `schema_total_partial` / `schema_accepts_iff`
cover such documents) and the old witness is a regression example: an ordinary invalid default
value, also for an enum constant inside a list default. -/
example : rejectsWith [.schema "Q", tyQ [edgeA [⟨"p", .named "Int" false, some (.val (.enum [70]))⟩]], tyA]
    = some [.invalidDefaultValue "Q" "a" "p" (.named "Int" false)] := by decide
example : rejectsWith [.schema "Q",
      tyQ [edgeA [⟨"p", .list (.named "Int" false) false, some (.val (.list [.null, .enum [70]]))⟩]], tyA]
    = some [.invalidDefaultValue "Q" "a" "p" (.list (.named "Int" false) false)] := by decide
example : NoKnownSchemaTrigger
    [.schema "Q", tyQ [edgeA [⟨"p", .named "Int" false, some (.val (.enum [70]))⟩]], tyA] = true := by decide
/-- `enum` / `union` / `input` definitions are outside the supported constructs (`unimplemented!`). -/
theorem panics_unsupported : (Schema.new (small ++ [.unsupported "E"])).panicSite? = some .unsupportedDef := by decide

/-- Hence the unguarded statement is false. -/
theorem schema_total_false : ¬ ∀ doc : Doc, (Schema.new doc).panicSite? = none := by
  intro h
  have := h (.schema "Q" :: small)
  rw [panics_dup_schema_block] at this
  cases this

/-- Every witness violates the guard (the guard excludes them all) … -/
example : NoKnownSchemaTrigger (.schema "Q" :: small) = false := by decide
example : NoKnownSchemaTrigger [tyQ [edgeA []], tyA] = false := by decide
example : NoKnownSchemaTrigger (small ++ [.scalar "Int"]) = false := by decide
example : NoKnownSchemaTrigger (small ++ [.directive "d", .directive "d"]) = false := by decide
example : NoKnownSchemaTrigger (small ++ [.scalar "Date", .scalar "Date"]) = false := by decide
/-- … and 30 list levels are still fine. -/
example : accepts [.schema "Q", tyQ [edgeA []],
    .type { name := "A", isInterface := false, implements := [], fields := [⟨"x", deep 30, []⟩] }] = true := by decide

end Witnesses

/-! ## Non-vacuity: valid schemas exist, and each rule has a rejected violation -/

section NonVacuity

/-- The guard holds of the small schema and it is accepted; by `accepts_iff` it is a `ValidSchema`. -/
example : NoKnownSchemaTrigger small = true := by decide
example : accepts small = true := by decide
theorem small_valid : ValidSchema small := (accepts_iff small (by decide)).mp (by decide)

example : NoKnownSchemaTrigger rich = true := by decide
theorem rich_valid : ValidSchema rich := (accepts_iff rich (by decide)).mp (by decide)

/-- Each rule has a violating document that is rejected with the expected error variant. -/
example : rejectsWith (withB [obj "B" ["Nope"] [fx]]) = some [.implementingNonExistentType "B" "Nope"] := by decide
example : rejectsWith (withB [obj "C" [] [fx], obj "B" ["C"] [fx]]) = some [.implementingNonInterface "B" "C"] := by decide
example : rejectsWith (withB [iface "J" [] [fx], iface "K" ["J"] [fx], obj "B" ["K"] [fx]])
    = some [.missingTransitive "B" "K" "J"] := by decide
example : rejectsWith (withB [iface "J" [] [fx], obj "B" ["J"] [⟨"y", intTy, []⟩]])
    = some [.missingRequiredField "B" "J" "x" intTy] := by decide
example : rejectsWith (withB [iface "J" [] [⟨"x", .named "Int" true, []⟩], obj "B" ["J"] [fx]])
    = some [.invalidTypeWidening "x" "B" "J" intTy (.named "Int" true)] := by decide
example : rejectsWith (withB [iface "J" [] [⟨"e", named "B", [⟨"p", intTy, none⟩]⟩], obj "B" ["J"] [⟨"e", named "B", []⟩]])
    = some [.inheritedFieldMissingParameters "e" "B" "J" ["p"]] := by decide
example : rejectsWith (withB [iface "J" [] [⟨"e", named "B", []⟩], obj "B" ["J"] [⟨"e", named "B", [⟨"p", intTy, none⟩]⟩]])
    = some [.inheritedFieldUnexpectedParameters "e" "B" "J" ["p"]] := by decide
example : rejectsWith (withB [iface "J" [] [⟨"e", named "B", [⟨"p", intTy, none⟩]⟩],
      obj "B" ["J"] [⟨"e", named "B", [⟨"p", .named "Int" true, none⟩]⟩]])
    = some [.invalidParamNarrowing "e" "B" "J" "p" (.named "Int" true) intTy] := by decide
example : rejectsWith (withB [obj "B" [] [⟨"x", named "Nope", []⟩]]) = some [.unknownPropertyOrEdgeType "x" (named "Nope")] := by decide
example : rejectsWith (withB [.scalar "Date", obj "B" [] [⟨"x", named "Date", []⟩]])
    = some [.unknownPropertyOrEdgeType "x" (named "Date")] := by decide
example : rejectsWith (withB [obj "B" [] [⟨"__x", intTy, []⟩]]) = some [.reservedFieldName "B" "__x"] := by decide
example : rejectsWith (withB [obj "B" [] [fx], obj "__T" [] [fx]]) = some [.reservedTypeName "__T"] := by decide
example : rejectsWith (withB [obj "B" [] [⟨"back", named "Q", []⟩]]) = some [.edgePointsToRoot "B" "back" (named "Q")] := by decide
example : rejectsWith (withB [obj "B" [] [⟨"x", intTy, [⟨"p", intTy, none⟩]⟩]])
    = some [.propertyFieldWithParameters "B" "x" intTy ["p"]] := by decide
example : rejectsWith (withB [obj "B" [] [⟨"e", named "B", [⟨"p", intTy, some (.val (.string [97]))⟩]⟩]])
    = some [.invalidDefaultValue "B" "e" "p" intTy] := by decide
example : rejectsWith (withB [obj "B" [] [⟨"e", named "B", [⟨"p", .named "Int" true, some (.val .null)⟩]⟩]])
    = some [.invalidDefaultValue "B" "e" "p" (.named "Int" true)] := by decide
example : rejectsWith (withB [obj "B" [] [⟨"e", named "B", [⟨"p", intTy, some .bad⟩]⟩]])
    = some [.invalidDefaultValue "B" "e" "p" intTy] := by decide
example : rejectsWith (withB [obj "B" [] [⟨"e", .list (.list (named "B") false) false, []⟩]])
    = some [.invalidEdgeType "B" "e" (.list (.list (named "B") false) false)] := by decide
example : rejectsWith [.schema "Q", obj "Q" [] [⟨"b", named "B", []⟩, ⟨"n", intTy, []⟩], obj "B" [] [fx]]
    = some [.propertyFieldOnRoot "Q" "n" intTy] := by decide
example : rejectsWith (withB [obj "B" [] [fx], iface "J" ["K"] [fx], iface "K" ["J"] [fx]])
    = some [.circularImplements ["J", "K"]] := by decide
example : rejectsWith (withB [iface "J" ["J"] [fx], obj "B" [] [fx]]) = some [.circularImplements ["J"]] := by decide
example : rejectsWith (withB [iface "J" [] [fx], iface "K" [] [fx], obj "B" ["J", "K"] [fx]])
    = some [.ambiguousFieldOrigin "B" "x" intTy ["J", "K"]] := by decide
example : rejectsWith (withB [obj "B" [] [fx], obj "B" [] [fx]]) = some [.duplicateTypeDefinition "B"] := by decide
example : rejectsWith (withB [obj "B" [] [fx, fx]]) = some [.duplicateFieldDefinition "B" "x"] := by decide
/-- A diamond (the same field inherited along two paths from one origin) is *not* ambiguous. -/
example : accepts (withB [iface "I" [] [fx], iface "J" ["I"] [fx], iface "K" ["I"] [fx], obj "B" ["J", "K", "I"] [fx]])
    = true := by decide

/-- The declarative rules really reject: e.g. the cyclic document is not a `ValidSchema`. -/
example : ¬ ValidSchema (withB [iface "J" ["J"] [fx], obj "B" [] [fx]]) := by
  intro h
  exact absurd ((accepts_iff _ (by decide)).mpr h) (by decide)

end NonVacuity

end TF.C19

#print axioms TF.C19.schema_total_partial
#print axioms TF.C19.schema_accepts_iff
#print axioms TF.C19.accepts_iff
#print axioms TF.C19.rejects_with_errors
#print axioms TF.C19.check_transitive_iff
#print axioms TF.C19.check_required_fields_iff
#print axioms TF.C19.check_narrowing_iff
#print axioms TF.C19.check_invariants_iff
#print axioms TF.C19.check_root_iff
#print axioms TF.C19.field_origins_cycle_iff
#print axioms TF.C19.schema_total_false
#print axioms TF.C19.panics_dup_schema_block
#print axioms TF.C19.panics_no_schema_block
#print axioms TF.C19.panics_query_type_undefined
#print axioms TF.C19.panics_query_type_interface
#print axioms TF.C19.panics_builtin_redefined
#print axioms TF.C19.panics_dup_directive
#print axioms TF.C19.panics_dup_scalar
#print axioms TF.C19.panics_deep_field_type
#print axioms TF.C19.panics_unsupported
#print axioms TF.C19.small_valid
#print axioms TF.C19.rich_valid
