/-
C20 — Schema introspection reports exactly the schema's contents.

Statements are about `TF.SchemaDoc.introspect`, the model of the schema-introspection adapter
(trustfall_core/src/schema/adapter/mod.rs, `Model/SchemaAdapter.lean`) evaluated on the fixed
introspection queries of the check, for EVERY valid schema: every document `doc` without a panic
trigger that `Schema::new` accepts with schema `s` (`Accepted doc s`; by C19 these are exactly the
documents satisfying `ValidSchema`).  Right-hand sides are plain descriptions of the document:
`listed doc root` are the object/interface definitions other than the root query type; a field is a
property iff its base type is a built-in scalar and an edge otherwise.  The adapter iterates a
`HashMap`, so rows come in no fixed order: the model uses document order, the statements are
equalities in that order (hence also permutation / multiset equalities), the driver sorts.

History — F-27 (fixed by a one-line repair in `resolve_vertex_type_implementer_edge`): the
`implementer` edge used to be resolved through `Schema::subtypes` unfiltered, which includes the type
itself, so every vertex type was its own implementer although `adapter/schema.graphql` documents
"Subtypes of this vertex type.  If this is not an interface type, this edge is guaranteed to be
empty."  This file then carried `introspect_implementer_partial` (documented pairs plus the
reflexive ones) and the witnesses `implementer_reports_self`,
`introspect_implementer_documented_false`, `object_type_is_its_own_implementer`; they are no longer
true of the model, which mirrors the repaired code.  The full documented statement is now
`introspect_implementer` / `implementer_empty_of_object`; the old behaviour is listed as `fixed` in
`known_findings.json`, so its return is a VIOLATION.

History — F-C20-1 (fixed by de-duplicating the `Multiple` candidate in `vertex_type_iter`): a name
listed twice in a `one_of` argument used to make its vertex type and all rows under it appear twice;
this file then carried `introspect_one_of` as "one block of rows per list element",
`introspect_one_of_partial` under `ns.Nodup` and the witness `one_of_duplicates_rows`.  Now
`introspect_one_of` is the full statement for every list.
-/
import TrustfallModel.Proofs.SchemaAdapter
import TrustfallModel.Proofs.SchemaExamples

namespace TF.C20
open TF TF.SchemaDoc

/-- Vertex types with their interface flag (and no documentation): one row per listed definition. -/
theorem introspect_types {doc : Doc} {s : Schema} (h : Accepted doc s) :
    introspect s .types = .ok ((listed doc s.queryType.name).map typeRow) :=
  introspect_types_eq h.facts

/-- The `implements` relation: one row per (type, implemented interface) pair of the document. -/
theorem introspect_implements {doc : Doc} {s : Schema} (h : Accepted doc s) :
    introspect s .implements = .ok ((listed doc s.queryType.name).flatMap implementsRows) :=
  introspect_implements_eq h.facts

/-- Properties with their displayed types: per listed type, its fields of built-in scalar base type. -/
theorem introspect_properties {doc : Doc} {s : Schema} (h : Accepted doc s) :
    introspect s .properties = .ok ((listed doc s.queryType.name).flatMap propertyRows) :=
  introspect_properties_eq h.facts

/-- Edges with target, `to_many` (the field type is a list) and `at_least_one` (it is non-null):
per listed type, its fields whose base type is not a built-in scalar; the target is that base type. -/
theorem introspect_edges {doc : Doc} {s : Schema} (h : Accepted doc s) :
    introspect s .edges = .ok ((listed doc s.queryType.name).flatMap edgeRows) :=
  introspect_edges_eq h.facts

/-- Edge parameters with name, displayed type and default: the declared constant, else `null` for a
nullable parameter, else no value. -/
theorem introspect_params {doc : Doc} {s : Schema} (h : Accepted doc s) :
    introspect s .params = .ok ((listed doc s.queryType.name).flatMap paramRows) :=
  introspect_params_eq h.facts

/-- Entry points: the fields of the root query type, all edges, with target and cardinalities. -/
theorem introspect_entrypoints {doc : Doc} {s : Schema} (h : Accepted doc s) :
    introspect s .entrypoints =
      .ok (s.queryType.fields.map fun f => edgeCells f ++ [("target", .str f.ty.base)]) :=
  introspect_entrypoints_eq h.facts

/-- Entry point parameters. -/
theorem introspect_entrypoint_params {doc : Doc} {s : Schema} (h : Accepted doc s) :
    introspect s .entryParams =
      .ok (s.queryType.fields.flatMap fun f => f.args.map fun a => [("edge", Cell.str f.name)] ++ paramCells a) :=
  introspect_entryParams_eq h.facts

/-- The `name`-candidate shortcut of `vertex_type_iter` is sound: the rows of the name-filtered query
are those of the listed types of that name (none for the root type or an undefined name). -/
theorem introspect_by_name {doc : Doc} {s : Schema} (h : Accepted doc s) (n : Name) :
    introspect s (.byName n) =
      .ok (((listed doc s.queryType.name).filter (fun t => t.name == n)).flatMap propertyRowsNoDocs) :=
  introspect_byName_eq h.facts n

/-- **`one_of` on `name`**: for every argument list — repeated names included — the rows are, up to
order, those of the listed types whose name is in the list: what the `one_of` filter over all vertex
types selects (the `Multiple`-candidate shortcut of `vertex_type_iter` is sound). -/
theorem introspect_one_of {doc : Doc} {s : Schema} (h : Accepted doc s) (ns : List Name) :
    ∃ rows, introspect s (.oneOf ns) = .ok rows ∧
      rows.Perm (((listed doc s.queryType.name).filter (fun t => ns.contains t.name)).flatMap
        propertyRowsNoDocs) :=
  introspect_oneOf_perm h.facts ns

/-- **`implementer`** (the documented relation, in full): the rows are, up to order, one per pair
`(t, x)` where `x` lists `t` in its `implements` — the subtypes of `t`, the `implements` lists of a
valid schema being transitively closed; no reflexive pairs. -/
theorem introspect_implementer {doc : Doc} {s : Schema} (h : Accepted doc s) :
    ∃ rows, introspect s .implementer = .ok rows ∧
      rows.Perm ((listed doc s.queryType.name).flatMap fun t =>
        (doc.types.filter (isImplementer t)).map (implementerRow t)) ∧
      ∀ t x, isImplementer t x = true ↔ t.name ∈ x.implements := by
  obtain ⟨rows, h1, h2⟩ := introspect_implementer_perm h.facts
  exact ⟨rows, h1, h2, fun t x => by simp [isImplementer]⟩

/-- "If this is not an interface type, this edge is guaranteed to be empty" (adapter/schema.graphql). -/
theorem implementer_empty_of_object {doc : Doc} {s : Schema} (h : Accepted doc s) {t : TypeDef}
    (ht : t ∈ doc.types) (hobj : t.isInterface = false) :
    resolveNeighbors s (.vertexType t) "VertexType" "implementer" .other = .ok [] :=
  SchemaDoc.implementer_empty_of_object h.facts ht hobj

section Witness
open TF.SchemaDoc.Examples

/-- Does some row carry the two given string cells? -/
def hasStrRow (o : Outcome (List Row)) (k1 v1 k2 v2 : String) : Bool :=
  match o with
  | .ok rows => rows.any fun r => r.any (fun c => c.1 == k1 && match c.2 with | .str x => x == v1 | _ => false) &&
      r.any (fun c => c.1 == k2 && match c.2 with | .str x => x == v2 | _ => false)
  | .panic _ => false

def introspectDoc (doc : Doc) (q : QueryId) : Outcome (List Row) :=
  match Schema.new doc with
  | .ok (.ok s) => introspect s q
  | .ok (.error _) => .ok []
  | .panic p => .panic p

/-- After the repair of F-27 the object type `A` is no longer reported as its own implementer. -/
theorem object_type_has_no_implementer :
    hasStrRow (introspectDoc small .implementer) "name" "A" "implementer" "A" = false := by decide

/-- Number of rows carrying the two given string cells. -/
def countStrRows (o : Outcome (List Row)) (k1 v1 k2 v2 : String) : Nat :=
  match o with
  | .ok rows => (rows.filter fun r => r.any (fun c => c.1 == k1 && match c.2 with | .str x => x == v1 | _ => false) &&
      r.any (fun c => c.1 == k2 && match c.2 with | .str x => x == v2 | _ => false)).length
  | .panic _ => 0

/-- After the repair of F-C20-1, `one_of ["A", "A"]` reports property `x` of `A` once, like `["A"]`. -/
theorem one_of_repeated_name_once :
    countStrRows (introspectDoc small (.oneOf ["A", "A"])) "name" "A" "property" "x" = 1 ∧
    countStrRows (introspectDoc small (.oneOf ["A"])) "name" "A" "property" "x" = 1 := by decide

end Witness

/-- **The adapter contract** on the model of the helpers through which every resolver of the adapter
runs (`resolve_property_with`, `resolve_neighbors_with`): one output per input context, in the same
order, carrying the same context; a context whose active vertex is `None` gets `Null` / no
neighbours.  (`resolve_coercion` is never requested: the meta-schema has no interfaces.) -/
theorem schema_adapter_honest {κ : Type} (ctxs : List (κ × Option Vertex)) :
    (∀ (typeName prop : String) out,
        resolvePropertyWith (fun v => resolveProperty v typeName prop) ctxs = .ok out →
        out.map (·.1) = ctxs ∧ ∀ e ∈ out, e.1.2 = none → e.2 = Cell.null) ∧
    (∀ (s : Schema) (typeName edge : String) (cand : NameCandidate) out,
        resolveNeighborsWith (fun v => resolveNeighbors s v typeName edge cand) ctxs = .ok out →
        out.map (·.1) = ctxs ∧ ∀ e ∈ out, e.1.2 = none → e.2 = []) :=
  ⟨fun _ _ out h => resolvePropertyWith_spec _ ctxs out h,
   fun _ _ _ _ out h => resolveNeighborsWith_spec _ ctxs out h⟩

/-! ## Non-vacuity -/

section NonVacuity
open TF.SchemaDoc.Examples

/-- Accepted documents exist (`rich`: interface chain, narrowed fields, parameters with defaults), … -/
example : NoKnownSchemaTrigger rich = true ∧ accepts rich = true := by decide
/-- … their introspection is non-trivial: `B` has properties, edges, parameters, implements `K`, and
`J` has implementers. -/
example : hasStrRow (introspectDoc rich .properties) "name" "B" "type" "[String!]!" = true := by decide
example : hasStrRow (introspectDoc rich .edges) "name" "K" "target" "J" = true := by decide
example : hasStrRow (introspectDoc rich .params) "edge" "next" "type" "Int" = true := by decide
example : hasStrRow (introspectDoc rich .implements) "name" "B" "implements" "K" = true := by decide
example : hasStrRow (introspectDoc rich .implementer) "name" "J" "implementer" "B" = true := by decide
example : hasStrRow (introspectDoc rich .entrypoints) "edge" "b" "target" "B" = true := by decide
/-- The root query type is not listed. -/
example : hasStrRow (introspectDoc rich .types) "name" "Q" "name" "Q" = false := by decide
example : hasStrRow (introspectDoc rich .types) "name" "K" "name" "K" = true := by decide

end NonVacuity

end TF.C20

#print axioms TF.C20.introspect_types
#print axioms TF.C20.introspect_implements
#print axioms TF.C20.introspect_properties
#print axioms TF.C20.introspect_edges
#print axioms TF.C20.introspect_params
#print axioms TF.C20.introspect_entrypoints
#print axioms TF.C20.introspect_entrypoint_params
#print axioms TF.C20.introspect_by_name
#print axioms TF.C20.introspect_one_of
#print axioms TF.C20.one_of_repeated_name_once
#print axioms TF.C20.introspect_implementer
#print axioms TF.C20.implementer_empty_of_object
#print axioms TF.C20.object_type_has_no_implementer
#print axioms TF.C20.schema_adapter_honest
