/-
C21 — "Adapters are only called with arguments the adapter contract promises. Every call the engine
makes to an adapter names a type defined in the schema, a property or edge defined on that type (or
the type-name meta property), a coercion target that is a subtype of the named type, and edge
parameters containing every parameter the schema declares with a value of the declared type
(explicit, default, or null) and no others; every non-null active vertex it passes is an instance of
the named type."

`checkedAdapter S D` (`Proofs/InterpInvDefs.lean`) is the table adapter that fails with
`contract:<clause>` on a call that breaks one of these clauses (the caller guarantees of
`trait Adapter` in `interpreter/mod.rs`; for `resolve_coercion`: `type_name` is an interface defined
in the schema and `coerce_to_type` a defined type that implements it).  `calls_ok`: under the
hypotheses, running under the checking adapter is *the same computation* as running under the plain
adapter — the engine never makes a call the checking adapter rejects.  This covers every call site
of the model: starting vertices, coercions at vertices, local-field and tag property fetches
(same vertex, earlier vertex, imported-tag fetches at fold entry), edge expansion, recursion with
implicit coercion (`recursingFrom`, `endpointType`), fold expansion (also inside optional scopes,
where the active vertex is `None`), output fetches (rows and folded element contexts).

`SchemaOK S ir` contains, for a `@recurse` edge with an implicit coercion, the clause "the coercion
target implements the edge's endpoint type".  The real frontend does NOT guarantee it:
`get_recurse_implicit_coercion` (case 4c) returns the edge's origin type without checking that it is
a subtype of the destination type.  `calls_ok_full_false` is the witness: a query the frontend
accepts (WFq / ArgsOK / Conforms / NoKnownTrigger hold) on which the engine calls
`resolve_coercion("I0", "I1")` with `I1` not implementing `I0` (finding F-C21-1, confirmed on the
real engine: corpus/C21.cases).

`SchemaOK S ir` also contains, for a `@recurse` edge, the clause "the type the recursion continues on
(`coerce_to`, else the edge's endpoint type) declares the edge with parameters that accept the edge's
parameter tuple" (`edgeDeclOK` on `coerceTo.getD preType`; `recDeclOKAll` in the bridge's
`RecClausesOK`).  The real frontend does NOT guarantee it either: `Schema::parse` lets an
implementing type WIDEN the type of an inherited edge parameter (`interface A { e(x: Int!): [A] }`,
`type B implements A { e(x: Int): [A] }`), the frontend completes an omitted `x` as `null` from `B`'s
declaration, and from recursion depth 2 on (no coercion, case 4a) the engine resolves `e` on type `A`
with `x = null` although `A` declares `x: Int!`.  `calls_ok_full_false_params` is the witness
(finding F-C21-2, confirmed on the real engine: `resolve_neighbors("A", "e", {x: Null})`,
corpus/C21.cases, oracle key `contract:param-value-not-of-declared-type`).
-/
import TrustfallModel.Proofs.InterpInvMain
import TrustfallModel.Proofs.InterpInvWitness
import TrustfallModel.Proofs.FrontendBridge

namespace TF.C21
open TF TF.Engine
open TF.Frontend (SchemaView)

/-- The engine never makes a call the contract-checking adapter rejects. -/
theorem calls_ok (S : SchemaView) (D : Data) (ir : IRQuery) (args : List (Name × Value))
    (hwf : WFq ir = true) (hso : SchemaOK S ir = true) (hargs : ArgsOK ir args = true)
    (hconf : Conforms S D = true) :
    interpret { Env.ofData D args with adapter := checkedAdapter S D } ir =
      interpret (Env.ofData D args) ir :=
  (Engine.exec_safe S D ir args False hwf hso hargs hconf (fun g => g.elim)).1

/-- … in particular no `contract:` failure, whatever else happens. -/
theorem no_contract_failure (S : SchemaView) (D : Data) (ir : IRQuery) (args : List (Name × Value))
    (hwf : WFq ir = true) (hso : SchemaOK S ir = true) (hargs : ArgsOK ir args = true)
    (hconf : Conforms S D = true) (s : String)
    (h : interpret { Env.ofData D args with adapter := checkedAdapter S D } ir = .panic s) :
    isContractSite s = false := by
  have hs := interpret_safe (worldOf S D ir args False hconf hargs) ir rfl hwf hso
    (fun g => g.elim)
  have hs' : Safe False _ (interpret (Env.checked S D args) ir) := hs
  have h' : interpret (Env.checked S D args) ir = .panic s := h
  rw [h'] at hs'
  exact knownSite_not_contract hs'.1

/-- The statement for every query the frontend accepts (i.e. without the coercion clause of
`SchemaOK`) is false: the implicit coercion of `@recurse` may target a type that does not implement
the edge's endpoint type. -/
theorem calls_ok_full_false :
    ¬ (∀ (S : SchemaView) (D : Data) (ir : IRQuery) (args : List (Name × Value)),
        WFq ir = true → ArgsOK ir args = true → Conforms S D = true →
        NoKnownTrigger D ir args = true →
        interpret { Env.ofData D args with adapter := checkedAdapter S D } ir =
          interpret (Env.ofData D args) ir) := by
  intro h
  open Witness.C21a in
  have := h S D ir args hyps.1 hyps.2.1 hyps.2.2.1 hyps.2.2.2
  have hb : interpret { Env.ofData Witness.C21a.D Witness.C21a.args with
      adapter := checkedAdapter Witness.C21a.S Witness.C21a.D } Witness.C21a.ir =
      .panic "contract:coercion-target-not-subtype" := Witness.C21a.contract_broken
  obtain ⟨rows, hrows⟩ := Witness.C21a.plain_ok
  rw [hb, hrows] at this
  cases this

/-- Second refutation of the statement for every accepted query (finding F-C21-2): the parameter
tuple of a `@recurse` edge is completed from the source type's declaration, but the recursion
continues on the edge's endpoint type, whose declaration of the same parameter may be narrower. -/
theorem calls_ok_full_false_params :
    ¬ (∀ (S : SchemaView) (D : Data) (ir : IRQuery) (args : List (Name × Value)),
        WFq ir = true → ArgsOK ir args = true → Conforms S D = true →
        NoKnownTrigger D ir args = true →
        interpret { Env.ofData D args with adapter := checkedAdapter S D } ir =
          interpret (Env.ofData D args) ir) := by
  intro h
  have := h Witness.C21b.S Witness.C21b.D Witness.C21b.ir Witness.C21b.args
    Witness.C21b.hyps.1 Witness.C21b.hyps.2.1 Witness.C21b.hyps.2.2.1 Witness.C21b.hyps.2.2.2
  have hb : interpret { Env.ofData Witness.C21b.D Witness.C21b.args with
      adapter := checkedAdapter Witness.C21b.S Witness.C21b.D } Witness.C21b.ir =
      .panic "contract:params" := Witness.C21b.contract_broken
  rw [hb, Witness.C21b.plain_rows] at this
  cases this

/-- non-vacuity: the hypotheses hold on a concrete world (schema with an edge, a tag imported into
a fold — the IR the frontend produces since the fix of F-10: the tag is imported once) -/
example : WFq Witness.F10.irFixed = true ∧ SchemaOK Witness.F10.S Witness.F10.irFixed = true ∧
    ArgsOK Witness.F10.irFixed Witness.F10.args = true ∧
    Conforms Witness.F10.S Witness.F10.D = true :=
  ⟨Witness.F10.hyps.1, Witness.F10.hyps.2.1, Witness.F10.hyps.2.2.1, Witness.F10.hyps.2.2.2.1⟩

/-- … and on a world where a fold with a count filter sits below a missing `@optional` vertex (the
fold expansion and the filter stage run with no active vertex; F-9 regression world) -/
example : WFq Witness.F9.ir = true ∧ SchemaOK Witness.F9.S Witness.F9.ir = true ∧
    ArgsOK Witness.F9.ir Witness.F9.args = true ∧ Conforms Witness.F9.S Witness.F9.D = true :=
  ⟨Witness.F9.hyps.1, Witness.F9.hyps.2.1, Witness.F9.hyps.2.2.1, Witness.F9.hyps.2.2.2.1⟩

end TF.C21

/-! ### compiled queries

For the IR of a query the (modelled) frontend accepts, the structural hypothesis `WFq` is a theorem
(`Bridge.toIR_WFq`, Proofs/FrontendBridgeWFq.lean), and `SchemaOK` follows from `ValidSchemaCore S` (a
decidable predicate on the schema view alone: what the real `Schema::parse` guarantees, plus pairwise
distinct parameter names per edge) up to the two sub-clauses about the type a `@recurse` edge
continues on (`Bridge.RecClausesOK`, Proofs/FrontendBridge.lean: finding F-C21-1 and the clause that
needs `InheritedParamsSame`; both vacuous for a query without `@recurse`,
`Bridge.recClausesOK_of_noRecurse`). -/
namespace TF.C21.Compiled
open TF TF.Engine TF.Frontend
open TF.SchemaBridge (ValidSchemaCore)

/-- On an accepted query the engine never makes a call the contract-checking adapter rejects. -/
theorem calls_ok_compiled {S : SchemaView} {q : Spec.Query} {ir : IRQuery}
    (h : toIR S q = .ok ir) (D : Data) (args : List (Name × Value))
    (hV : ValidSchemaCore S = true) (hrec : Bridge.RecClausesOK S ir = true)
    (hargs : ArgsOK ir args = true) (hconf : Conforms S D = true) :
    interpret { Env.ofData D args with adapter := checkedAdapter S D } ir =
      interpret (Env.ofData D args) ir :=
  calls_ok S D ir args (Bridge.toIR_WFq h)
    (Bridge.toIR_SchemaOK_core hV h hrec) hargs hconf

/-- … in particular no `contract:` failure. -/
theorem no_contract_failure_compiled {S : SchemaView} {q : Spec.Query} {ir : IRQuery}
    (h : toIR S q = .ok ir) (D : Data) (args : List (Name × Value))
    (hV : ValidSchemaCore S = true) (hrec : Bridge.RecClausesOK S ir = true)
    (hargs : ArgsOK ir args = true) (hconf : Conforms S D = true)
    (s : String)
    (hp : interpret { Env.ofData D args with adapter := checkedAdapter S D } ir = .panic s) :
    isContractSite s = false :=
  no_contract_failure S D ir args (Bridge.toIR_WFq h)
    (Bridge.toIR_SchemaOK_core hV h hrec) hargs hconf s hp

/-- `{ R0 { s @output(name: "o0")
          e0 @optional { e0 @fold @transform(op: "count") @filter(op: "=", value: ["$v1"]) } } }`
— the query of the F-9 regression world (`Witness.F9`). -/
def exQuery : Spec.Query :=
  ⟨"R0", [], .mk none [
    .prop "s" [.output "o0"],
    .edge "e0" [] .optional (.mk none [
      .edge "e0" [] (.fold [.countFilter (.bin .equals) (.var "v1")]) (.mk none [])])]⟩

def accepted : M IRQuery → Bool
  | .ok _ => true
  | .error _ => false

def getIR : M IRQuery → IRQuery
  | .ok ir => ir
  | .error _ => default

theorem ok_getIR {r : M IRQuery} (h : accepted r = true) : r = .ok (getIR r) := by
  cases r with
  | ok ir => rfl
  | error e => simp [accepted] at h

/-- the IR the frontend model compiles the example query to, over the schema of `Witness.F9` -/
def exIR : IRQuery := getIR (toIR Witness.F9.S exQuery)

theorem ex_compiles : toIR Witness.F9.S exQuery = .ok exIR := ok_getIR (by decide +kernel)

/-- Non-vacuity: the example query is accepted and its IR meets all remaining hypotheses. -/
example : interpret { Env.ofData Witness.F9.D Witness.F9.args with
      adapter := checkedAdapter Witness.F9.S Witness.F9.D } exIR =
    interpret (Env.ofData Witness.F9.D Witness.F9.args) exIR :=
  calls_ok_compiled ex_compiles _ _ (by decide +kernel)
    (Bridge.recClausesOK_of_noRecurse _ (by decide +kernel)) (by decide +kernel) (by decide +kernel)

end TF.C21.Compiled

#print axioms TF.C21.calls_ok
#print axioms TF.C21.no_contract_failure
#print axioms TF.C21.calls_ok_full_false
#print axioms TF.C21.calls_ok_full_false_params
#print axioms TF.C21.Compiled.calls_ok_compiled
#print axioms TF.C21.Compiled.no_contract_failure_compiled
