/-
C22 — Fold-count early termination is invisible in results.

"The results of a query with filters on a fold's count are the same as if every fold were fully
materialized before filtering: observing the count (as an output or tag) or anything nested inside
the fold never changes the other outputs or the set of rows."

Statements are about `TF.Engine.interpret` (`Model/Interp.lean`, the list-level mirror of
`interpreter/execution.rs`): `Env.useLimits = true` is the engine as it is (`compute_fold` calls
`get_max_fold_count_limit` / `get_min_fold_count_limit` and `collect_fold_elements` stops early),
`useLimits := false` is the reference semantics (every fold fully materialised, then filtered).

  theorem limits_invisible (env : Env) (ir : IRQuery) … :
      interpret { env with useLimits := false } ir = .ok rows → interpret env ir = .ok rows

holds for EVERY query shape: there is no guard on what the query observes.  The hypotheses left are
 * `CountRefsWF ir` — structural consistency of the IR, not a restriction on queries: a reference to
   a fold's count carries the `fold_root_vid` of the fold with that `fold_eid`, and the folds of a
   component have distinct Eids.  Every compiled query satisfies it (`compiled_refs_consistent`,
   from the clauses of C11 proved for the frontend model `toIR`; `limits_invisible_compiled` is the
   theorem without this hypothesis); for IR values in general it is needed because the engine's
   eligibility test compares Eid and root Vid while the count is looked up by Eid alone
   (`limits_need_consistent_refs`: an IR violating it on which the runs differ);
 * `FoldsOK env ir` — the limit computations do not panic (implied by typed count-filter arguments,
   `limits_of_typed_args`) and no fold has 2^64 or more elements (`elements.len() as u64`);
 * the reference run succeeds (a panicking reference run has no rows to compare).

History.  Until the repairs of F-23 and F-29 (`compute_fold`: `component_has_outputs` looks into
nested folds; `has_tag_on_fold_count` also scans the imports and post-filters of the folds of the
parent component) the statement was FALSE of the code and was proved only under the shape guard
`CountUnobserved` (no use of a min-eligible fold's count in a sibling fold's post-filter or inside a
sibling fold; no outputs nested inside a min-eligible fold), with the witnesses
`limits_visible_witness` (F-23: 0 rows instead of 1) and `limits_visible_witness_nested` (F-29:
`[[]]` instead of `[[], [4, 6]]`).  The model mirrors the repaired test; the guard is gone; the two
witness queries are regression examples below, on which both runs now agree.

Also proved: (a) `max_limit_sound`, (b) `min_limit_sound`, `min_limit_sound_all` — the two limit
computations anticipate the post-filters exactly, for every sign / magnitude / representation of the
arguments; `nonexistent_fold_passes` (a fold in a missing `@optional` scope is not filtered by its
count); the single-fold theorem `foldFinish_limits_equiv`.
-/
import TrustfallModel.Proofs.FoldLimitsEval
import TrustfallModel.Proofs.FoldLimitsWF

namespace TF.C22
open TF TF.Engine Filter

/-! ### (a) the max limit anticipates the post-filters -/

/-- **(a)** `get_max_fold_count_limit` is sound.  If the fold's post-filters impose the limit `m`,
the fold exists for the context `c` (`c.active`, the fold's source vertex, is present), `n > m`
elements were computed (`c`'s slot for the fold holds `n`; `n < 2^64`: `elements.len() as u64` is
exact on 64-bit targets) and the post-filters do not panic on `c`, then the post-filters reject
`c`: dropping the context early in `collect_fold_elements` is exactly what they would have done.
Covers `=`, `<=`, `<` (`saturating_sub(1)`) and `one_of` (maximum of the list) with `Int64` and
`Uint64` arguments of any sign and magnitude; a negative argument clamps to the limit 0, and the
filter (`count = -3`, `count <= -1`, …) is then indeed false for every count. -/
theorem max_limit_sound (env : Env) (parent : Component) (fold : Fold) (c : Ctx) (n m : Nat)
    (hmax : maxFoldLimit env fold.post none = .ok (some m))
    (hslot : c.foldCount? fold.eid = some (some n)) (hexists : c.active.isSome = true)
    (hgt : m < n) (hn : n < 2 ^ 64)
    (hnp : ∃ r, applyPostFilters env parent fold fold.post c = .ok r) :
    applyPostFilters env parent fold fold.post c = .ok none :=
  max_limit_sound_list env parent fold fold.post c n m hmax hslot hexists hgt hn hnp

/-! ### (b) truncating to the min limit preserves every verdict -/

/-- **(b)** `get_min_fold_count_limit` is sound.  If it yields `k` (every post-filter is `>=` / `>`
against a variable), then on every context each single post-filter gives the same verdict for the
truncated count `min n k` as for the real count `n`: the filter's verdict is "count ≥ t" for a
threshold `t ≤ k` (`t = 0` for `count > negative`). -/
theorem min_limit_sound (env : Env) (parent : Component) (fold : Fold) (k : Nat)
    (hmin : minFoldLimit env fold.post none = .ok (some k)) (f : IRFilter) (hf : f ∈ fold.post)
    (c c' : Ctx) (n : Nat) (hn : n < 2 ^ 64)
    (hslot : c.foldCount? fold.eid = some (some n))
    (hslot' : c'.foldCount? fold.eid = some (some (min n k)))
    (hact : c'.active = c.active) :
    (applyPostFilter env parent fold f c').map Option.isSome =
      (applyPostFilter env parent fold f c).map Option.isSome := by
  obtain ⟨kf, hkf, hfk⟩ := (minFoldLimit_mem hmin).2 f hf
  obtain ⟨t, ht, hv⟩ := minFilter_verdict env parent fold f kf hfk
  rw [hv c n hslot hn, hv c' (min n k) hslot' (by omega), hact]
  have : decide (t ≤ min n k) = decide (t ≤ n) := decide_eq_decide.mpr (by omega)
  rw [this]
  cases c.active.isNone || decide (t ≤ n) <;> rfl

/-- … and so does the whole chain of post-filters: the truncated context survives iff the full one
does, and a surviving context is returned as it is. -/
theorem min_limit_sound_all (env : Env) (parent : Component) (fold : Fold) (k : Nat)
    (hmin : minFoldLimit env fold.post none = .ok (some k))
    (c c' : Ctx) (n : Nat) (hn : n < 2 ^ 64)
    (hslot : c.foldCount? fold.eid = some (some n))
    (hslot' : c'.foldCount? fold.eid = some (some (min n k)))
    (hact : c'.active = c.active) :
    ∃ b : Bool, applyPostFilters env parent fold fold.post c = .ok (if b then some c else none) ∧
      applyPostFilters env parent fold fold.post c' = .ok (if b then some c' else none) := by
  obtain ⟨t, ht, hv⟩ := minFoldLimit_verdict env parent fold fold.post k hmin
  refine ⟨c.active.isNone || decide (t ≤ n), hv c n hslot hn, ?_⟩
  rw [hv c' (min n k) hslot' (by omega), hact]
  have : decide (t ≤ min n k) = decide (t ≤ n) := decide_eq_decide.mpr (by omega)
  rw [this]

/-- A fold that does not exist for a context (it sits inside an `@optional` scope that is missing:
the slot holds `None`, the context has no active vertex) is not filtered by its count: post-filters
from which a min limit is computed let the context pass unchanged (before the repair of F-9 this was
an `unreachable!`). -/
theorem nonexistent_fold_passes (env : Env) (parent : Component) (fold : Fold) (k : Nat)
    (hmin : minFoldLimit env fold.post none = .ok (some k)) (c : Ctx)
    (hslot : c.foldCount? fold.eid = some none) (hact : c.active = none) :
    applyPostFilters env parent fold fold.post c = .ok (some c) :=
  minFoldLimit_pass_nonexistent env parent fold fold.post k hmin c hslot hact

/-! ### the single-fold theorem -/

/-- **One context through one fold.**  In a component with consistent count references, for a
context `c` whose active vertex is the fold's source and elements `computed` (fewer than 2^64): if
the reference semantics (`(none, none)`: no limits) makes `r` of it, the engine with the limits `lim`
it computes for this fold makes `r'` of it, where `r` and `r'` are both absent or both present and
equal up to the fold-count slots of the truncated folds (`Ctx.norm (truncEids parent)`, which nothing
but those folds' own post-filters reads — that is what the engine's eligibility test
`Fold.minEligible` establishes): the same verdict of the post-filters, the same outputs. -/
theorem foldFinish_limits_equiv (env : Env) (hu : env.useLimits = true) (parent : Component)
    (g : Fold) (hguard : compGuard parent = true) (hg : g ∈ parent.folds)
    (lim : Option Nat × Option Nat) (hlim : foldLimits env parent g = .ok lim)
    (c : Ctx) (hact : c.vertexAt? g.fromVid = some c.active) (computed : List Ctx)
    (hclear : g.minEligible parent = true → ∀ e ∈ computed, e.foldedValues = [])
    (hsmall : computed.length < 2 ^ 64) (r : Option Ctx)
    (h0 : foldFinish env.noLimits parent g (none, none) c computed = .ok r) :
    ∃ r', foldFinish env parent g lim c computed = .ok r' ∧
      r.map (Ctx.norm (truncEids parent) false) = r'.map (Ctx.norm (truncEids parent) false) :=
  foldFinish_sim hu (compGuard_facts hguard) hg hlim rfl hact [] rfl hclear hsmall h0

/-! ### the global theorem -/

/-- Structural consistency of the fold-count references of a query: in every component (at every
fold-nesting depth) `compGuard` holds — every reference `FoldSpecificField { fold_eid, fold_root_vid }`
occurring in a vertex filter, a post-filter or an import list of the component whose `fold_eid` is
that of a fold of the component carries that fold's root Vid, and the folds of the component have
distinct Eids.  Decidable; true of every query the frontend compiles; says nothing about which counts
a query observes. -/
def CountRefsWF (ir : IRQuery) : Prop := countRefsWFC ir.rootComponent = true

instance (ir : IRQuery) : Decidable (CountRefsWF ir) := by unfold CountRefsWF; infer_instance

/-- Side conditions on every fold of the query (with its parent component): the limit computations
do not panic (`FoldOK.limits`, implied by typed arguments: `limits_of_typed_args`) and the fold
never has 2^64 or more elements (`FoldOK.small`). -/
def FoldsOK (env : Env) (ir : IRQuery) : Prop := AllFoldsC (FoldOK env) ir.rootComponent

/-- Typed count-filter arguments (`Int` variables hold `Int64`/`Uint64` values, `[Int]` variables
lists of them — what argument validation enforces) make `get_max_fold_count_limit` and
`get_min_fold_count_limit` total. -/
theorem limits_of_typed_args (env : Env) (parent : Component) (g : Fold)
    (h : ∀ f ∈ g.post, countArgTyped env f) : ∃ lim, foldLimits env parent g = .ok lim :=
  foldLimits_total env parent g h

/-- **`limits_invisible`.**  For every query (no restriction on its shape: the count of a fold may be
output, tagged, used in filters of the parent component, in post-filters of sibling folds, inside
sibling folds; anything may be nested inside the fold): if the limits are computable and the folds
small (`FoldsOK`), every successful run of the reference semantics — all folds fully materialised
before filtering — is reproduced by the engine with its early termination: the same rows in the same
order. -/
theorem limits_invisible (env : Env) (ir : IRQuery) (hwf : CountRefsWF ir)
    (hfolds : FoldsOK env ir) (rows : List Row)
    (href : interpret { env with useLimits := false } ir = .ok rows) :
    interpret env ir = .ok rows :=
  interpret_sim env ir hwf hfolds href

/-- … in the form of an equation between the two runs. -/
theorem limits_invisible_eq (env : Env) (ir : IRQuery) (hwf : CountRefsWF ir)
    (hfolds : FoldsOK env ir)
    (href : ∃ rows, interpret { env with useLimits := false } ir = .ok rows) :
    interpret { env with useLimits := false } ir = interpret env ir := by
  obtain ⟨rows, h⟩ := href
  rw [h, limits_invisible env ir hwf hfolds rows h]

/-- Every query the frontend compiles (`toIR`, the model of the frontend of C11) satisfies the
structural hypothesis: it follows from clauses 1, 2 and 5 of the well-formedness of compiled queries
(a fold with Eid `e` enters vertex `e + 1`; Eids are unique; every tag operand and every import is
defined by a vertex or fold of an enclosing component). -/
theorem compiled_refs_consistent {S : Frontend.SchemaView} {q : Spec.Query} {ir : IRQuery}
    (h : Frontend.toIR S q = .ok ir) : CountRefsWF ir :=
  toIR_countRefsWF h

/-- **`limits_invisible` for compiled queries**: no hypothesis about the query is left. -/
theorem limits_invisible_compiled {S : Frontend.SchemaView} {q : Spec.Query} {ir : IRQuery}
    (h : Frontend.toIR S q = .ok ir) (env : Env) (hfolds : FoldsOK env ir) (rows : List Row)
    (href : interpret { env with useLimits := false } ir = .ok rows) :
    interpret env ir = .ok rows :=
  limits_invisible env ir (compiled_refs_consistent h) hfolds rows href

/-! ### history: the former witnesses of F-23 and F-29 are regression examples -/

/-- **Former F-23 witness.**  `{ Four { value @output divisor @fold @transform(op:"count")
@filter(op:">=", value:["$one"]) @tag(name:"c") multiple @fold @transform(op:"count")
@output(name:"m") @filter(op:"=", value:["%c"]) } }` with `one = 1` on a vertex with 2 divisors and
2 multiples.  Before the repair the engine truncated the first fold to 1 element because
`has_tag_on_fold_count` did not look at the sibling fold's post-filter, and yielded no row; now both
runs yield the row `{m: 2, value: 4}`. -/
example : interpret { wEnv true with useLimits := false } wIR = .ok [[("m", .uint64 2), ("value", .int64 4)]] ∧
    interpret (wEnv true) wIR = .ok [[("m", .uint64 2), ("value", .int64 4)]] :=
  ⟨wRun false, wRun true⟩

/-- **Former F-29 witness.**  `{ Four { value @output divisor @fold @transform(op:"count")
@filter(op:">=", value:["$one"]) { multiple @fold { value @output(name:"inner") } } } }`: the outer
fold has no outputs of its own, but the nested output `inner` has one list per element of the outer
fold.  Before the repair the outer fold was truncated to 1 element and `inner` was `[[]]`; now both
runs yield `[[], [4, 6]]`. -/
example : interpret { wEnv true with useLimits := false } nIR =
        .ok [[("inner", .list [.list [], .list [.int64 4, .int64 6]]), ("value", .int64 4)]] ∧
      interpret (wEnv true) nIR =
        .ok [[("inner", .list [.list [], .list [.int64 4, .int64 6]]), ("value", .int64 4)]] :=
  ⟨nRun false, nRun true⟩

/-- the engine's eligibility test now rejects both folds -/
example : foldLimits (wEnv true) wRoot wF1 = .ok (none, none) ∧
    foldLimits (wEnv true) nRoot nF1 = .ok (none, none) := ⟨wLimits, nLimits⟩

/-- both are instances of the theorem: their count references are consistent -/
example : CountRefsWF wIR ∧ CountRefsWF nIR := ⟨wGuard.1, wGuard.2.1⟩

/-! ### the hypothesis on the references is needed -/

/-- The F-23 query with an INCONSISTENT reference — the second fold's post-filter names the first
fold's count as `(fold_eid 1, fold_root_vid 99)` although fold 1's root is 2; the frontend never
builds this — is evaluated differently by the two runs: the eligibility test compares Eid and root
and does not recognise the reference, the filter looks the count up by Eid and reads the truncated
slot. -/
theorem limits_need_consistent_refs :
    ¬ CountRefsWF xIR ∧
    interpret { wEnv true with useLimits := false } xIR = .ok [[("m", .uint64 2), ("value", .int64 4)]] ∧
      interpret (wEnv true) xIR = .ok [] :=
  ⟨by decide, xRun_nolim, xRun_lim⟩

/-- Hence the statement cannot be made for arbitrary IR values without any hypothesis. -/
theorem limits_invisible_unrestricted_false :
    ¬ ∀ (env : Env) (ir : IRQuery), interpret { env with useLimits := false } ir = interpret env ir := by
  intro h
  have := h (wEnv true) xIR
  rw [limits_need_consistent_refs.2.1, limits_need_consistent_refs.2.2] at this
  simp at this

/-! ### non-vacuity -/

/-- a query in which both shortcuts are active (`divisor` truncated by the min limit 1, `multiple`
dropped early by the max limit 1), for which all hypotheses of `limits_invisible` hold -/
example : CountRefsWF gIR ∧ FoldsOK (wEnv true) gIR ∧
    foldLimits (wEnv true) gRoot gF1 = .ok (none, some 1) ∧
    foldLimits (wEnv true) gRoot gF2 = .ok (some 1, none) :=
  ⟨gGuard, gFoldsOK, gTruncated.1, gTruncated.2⟩

/-- (a) on boundary arguments: `count = -3` imposes the limit 0 and is false for every count;
`count < 0` likewise; `one_of [2^63 as Uint64, -1]` imposes 2^63. -/
example : maxFoldLimit { wEnv true with args := [("x", .int64 (-3))] }
    [⟨.bin .equals, .count, some (.var "x" wInt)⟩] none = .ok (some 0) := by rfl
example : Filter.equals (.uint64 0) (.int64 (-3)) = false := by decide
example : maxFoldLimit { wEnv true with args := [("x", .int64 0)] }
    [⟨.bin .lessThan, .count, some (.var "x" wInt)⟩] none = .ok (some 0) := by rfl
example : maxFoldLimit { wEnv true with args := [("x", .list [.uint64 9223372036854775808, .int64 (-1)])] }
    [⟨.bin .oneOf, .count, some (.var "x" wInt)⟩] none = .ok (some 9223372036854775808) := by rfl
/-- (b): `count > -1` contributes the min limit 1 although it holds for every count. -/
example : minFoldLimit { wEnv true with args := [("x", .int64 (-1))] }
    [⟨.bin .greaterThan, .count, some (.var "x" wInt)⟩] none = .ok (some 1) := by rfl
example : Filter.greaterThan (.uint64 0) (.int64 (-1)) = .ok true := by decide

end TF.C22

#print axioms TF.C22.max_limit_sound
#print axioms TF.C22.min_limit_sound
#print axioms TF.C22.min_limit_sound_all
#print axioms TF.C22.nonexistent_fold_passes
#print axioms TF.C22.foldFinish_limits_equiv
#print axioms TF.C22.limits_of_typed_args
#print axioms TF.C22.limits_invisible
#print axioms TF.C22.limits_invisible_eq
#print axioms TF.C22.compiled_refs_consistent
#print axioms TF.C22.limits_invisible_compiled
#print axioms TF.C22.limits_need_consistent_refs
#print axioms TF.C22.limits_invisible_unrestricted_false
