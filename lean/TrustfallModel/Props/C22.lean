/-
C22 — Fold-count early termination is invisible in results.

"The results of a query with filters on a fold's count are the same as if every fold were fully
materialized before filtering: observing the count (as an output or tag) or anything nested inside
the fold never changes the other outputs or the set of rows."

Statements are about `TF.Engine.interpret` (`Model/Interp.lean`, the list-level mirror of
`interpreter/execution.rs`): `Env.useLimits = true` is the engine as it is (`compute_fold` calls
`get_max_fold_count_limit` / `get_min_fold_count_limit` and `collect_fold_elements` stops early),
`useLimits := false` is the reference semantics (every fold fully materialised, then filtered).

  Full statement — FALSE of the code today (findings F-23 and F-29; `limits_invisible_false`,
  witnesses `limits_visible_witness`, `limits_visible_witness_nested`):

    theorem limits_invisible (env : Env) (ir : IRQuery) :
        interpret { env with useLimits := false } ir = interpret env ir

Proved instead: (a) `max_limit_sound`, (b) `min_limit_sound` — the two limit computations anticipate
the post-filters exactly, for every sign / magnitude / representation of the arguments; the
single-fold theorem `foldFinish_limits_equiv`; and the global theorem `limits_invisible_partial`
under the decidable guard `CountUnobserved ir` (no filter anywhere in the parent component and no
import of a sibling fold uses the count tag of a fold that is eligible for the min shortcut — F-23;
such a fold contains no fold with outputs — F-29; fold Eids distinct), for runs of the reference
semantics that succeed, with typed count-filter arguments and folds of fewer than 2^64 elements.
-/
import TrustfallModel.Proofs.FoldLimitsEval

namespace TF.C22
open TF TF.Engine Filter

/-! ### (a) the max limit anticipates the post-filters -/

/-- **(a)** `get_max_fold_count_limit` is sound.  If the fold's post-filters impose the limit `m`,
the fold exists for the context `c` (`c.active`, the fold's source vertex, is present), `n > m`
elements were computed (`c`'s slot for the fold holds `n`; `n < 2^64`: `elements.len() as u64` is
exact on 64-bit targets) and the post-filters do not panic on `c`, then the post-filters reject
`c`: dropping the context early in `collect_fold_elements` is exactly what they would have done.
Covers `=`, `<=`, `<` (`saturating_sub(1)`) and `one_of` (maximum of the list) with `Int64` and
`Uint64` arguments of any sign and magnitude; a negative argument clamps to the limit 0, and the
filter (`count = -3`, `count <= -1`, …) is then indeed false for every count. -/
theorem max_limit_sound (env : Env) (parent : Component) (fold : Fold) (c : Ctx) (n m : Nat)
    (hmax : maxFoldLimit env fold.post none = .ok (some m))
    (hslot : c.foldCount? fold.eid = some (some n)) (hexists : c.active.isSome = true)
    (hgt : m < n) (hn : n < 2 ^ 64)
    (hnp : ∃ r, applyPostFilters env parent fold fold.post c = .ok r) :
    applyPostFilters env parent fold fold.post c = .ok none :=
  max_limit_sound_list env parent fold fold.post c n m hmax hslot hexists hgt hn hnp

/-! ### (b) truncating to the min limit preserves every verdict -/

/-- **(b)** `get_min_fold_count_limit` is sound.  If it yields `k` (every post-filter is `>=` / `>`
against a variable), then on every context each single post-filter gives the same verdict for the
truncated count `min n k` as for the real count `n`: the filter's verdict is "count ≥ t" for a
threshold `t ≤ k` (`t = 0` for `count > negative`). -/
theorem min_limit_sound (env : Env) (parent : Component) (fold : Fold) (k : Nat)
    (hmin : minFoldLimit env fold.post none = .ok (some k)) (f : IRFilter) (hf : f ∈ fold.post)
    (c c' : Ctx) (n : Nat) (hn : n < 2 ^ 64)
    (hslot : c.foldCount? fold.eid = some (some n))
    (hslot' : c'.foldCount? fold.eid = some (some (min n k)))
    (hact : c'.active = c.active) :
    (applyPostFilter env parent fold f c').map Option.isSome =
      (applyPostFilter env parent fold f c).map Option.isSome := by
  obtain ⟨kf, hkf, hfk⟩ := (minFoldLimit_mem hmin).2 f hf
  obtain ⟨t, ht, hv⟩ := minFilter_verdict env parent fold f kf hfk
  rw [hv c n hslot hn, hv c' (min n k) hslot' (by omega), hact]
  have : decide (t ≤ min n k) = decide (t ≤ n) := decide_eq_decide.mpr (by omega)
  rw [this]
  cases c.active.isNone || decide (t ≤ n) <;> rfl

/-- … and so does the whole chain of post-filters: the truncated context survives iff the full one
does, and a surviving context is returned as it is. -/
theorem min_limit_sound_all (env : Env) (parent : Component) (fold : Fold) (k : Nat)
    (hmin : minFoldLimit env fold.post none = .ok (some k))
    (c c' : Ctx) (n : Nat) (hn : n < 2 ^ 64)
    (hslot : c.foldCount? fold.eid = some (some n))
    (hslot' : c'.foldCount? fold.eid = some (some (min n k)))
    (hact : c'.active = c.active) :
    ∃ b : Bool, applyPostFilters env parent fold fold.post c = .ok (if b then some c else none) ∧
      applyPostFilters env parent fold fold.post c' = .ok (if b then some c' else none) := by
  obtain ⟨t, ht, hv⟩ := minFoldLimit_verdict env parent fold fold.post k hmin
  refine ⟨c.active.isNone || decide (t ≤ n), hv c n hslot hn, ?_⟩
  rw [hv c' (min n k) hslot' (by omega), hact]
  have : decide (t ≤ min n k) = decide (t ≤ n) := decide_eq_decide.mpr (by omega)
  rw [this]

/-! ### the single-fold theorem -/

/-- **One context through one fold.**  In a component satisfying the guard, for a context `c` whose
active vertex is the fold's source and elements `computed` (fewer than 2^64): if the reference
semantics (`(none, none)`: no limits) makes `r` of it, the engine with the limits `lim` it computes
for this fold makes `r'` of it, where `r` and `r'` are both absent or both present and equal up to
the fold-count slots of the truncated folds (`Ctx.norm (truncEids parent)`, which nothing but those
folds' own post-filters reads): the same verdict of the post-filters, the same outputs. -/
theorem foldFinish_limits_equiv (env : Env) (hu : env.useLimits = true) (parent : Component)
    (g : Fold) (hguard : compGuard parent = true) (hg : g ∈ parent.folds)
    (lim : Option Nat × Option Nat) (hlim : foldLimits env parent g = .ok lim)
    (c : Ctx) (hact : c.vertexAt? g.fromVid = some c.active) (computed : List Ctx)
    (hclear : g.minEligible = true → ∀ e ∈ computed, e.foldedValues = [])
    (hsmall : computed.length < 2 ^ 64) (r : Option Ctx)
    (h0 : foldFinish env.noLimits parent g (none, none) c computed = .ok r) :
    ∃ r', foldFinish env parent g lim c computed = .ok r' ∧
      r.map (Ctx.norm (truncEids parent) false) = r'.map (Ctx.norm (truncEids parent) false) :=
  foldFinish_sim hu (compGuard_facts hguard) hg hlim rfl hact [] rfl hclear hsmall h0

/-! ### the global theorem -/

/-- The guard: for every component of the query (at every fold-nesting depth) `compGuard` holds —
no vertex filter, no post-filter of a fold and no import of a fold of the component refers to the
count of a fold of that component that is eligible for the min shortcut (post-filters non-empty and
all `>=`/`>` against variables, no outputs in its own component, no count output); such a fold has
no outputs nested inside it; the folds of the component have distinct Eids.  Decidable. -/
def CountUnobserved (ir : IRQuery) : Prop := countUnobservedC ir.rootComponent = true

instance (ir : IRQuery) : Decidable (CountUnobserved ir) := by unfold CountUnobserved; infer_instance

/-- Side conditions on every fold of the query (with its parent component): the limit computations
do not panic (`FoldOK.limits`, implied by typed arguments: `limits_of_typed_args`) and the fold
never has 2^64 or more elements (`FoldOK.small`). -/
def FoldsOK (env : Env) (ir : IRQuery) : Prop := AllFoldsC (FoldOK env) ir.rootComponent

/-- Typed count-filter arguments (`Int` variables hold `Int64`/`Uint64` values, `[Int]` variables
lists of them — what argument validation enforces) make `get_max_fold_count_limit` and
`get_min_fold_count_limit` total. -/
theorem limits_of_typed_args (env : Env) (parent : Component) (g : Fold)
    (h : ∀ f ∈ g.post, countArgTyped env f) : ∃ lim, foldLimits env parent g = .ok lim :=
  foldLimits_total env parent g h

/-- **`limits_invisible`, guarded.**  If no count of a min-eligible fold is observed
(`CountUnobserved`), the limits are computable and the folds small (`FoldsOK`), then every
successful run of the reference semantics — all folds fully materialised before filtering — is
reproduced by the engine with its early termination: the same rows in the same order. -/
theorem limits_invisible_partial (env : Env) (ir : IRQuery) (hguard : CountUnobserved ir)
    (hfolds : FoldsOK env ir) (rows : List Row)
    (href : interpret { env with useLimits := false } ir = .ok rows) :
    interpret env ir = .ok rows :=
  interpret_sim env ir hguard hfolds href

/-- … in the form of the full statement. -/
theorem limits_invisible_partial_eq (env : Env) (ir : IRQuery) (hguard : CountUnobserved ir)
    (hfolds : FoldsOK env ir)
    (href : ∃ rows, interpret { env with useLimits := false } ir = .ok rows) :
    interpret { env with useLimits := false } ir = interpret env ir := by
  obtain ⟨rows, h⟩ := href
  rw [h, limits_invisible_partial env ir hguard hfolds rows h]

/-! ### the full statement is false: F-23 and F-29 on the model -/

/-- **F-23.**  `{ Four { value @output divisor @fold @transform(op:"count") @filter(op:">=",
value:["$one"]) @tag(name:"c") multiple @fold @transform(op:"count") @output(name:"m")
@filter(op:"=", value:["%c"]) } }` with `one = 1` on a vertex with 2 divisors and 2 multiples:
the reference semantics yields the row `{m: 2, value: 4}`, the engine — which truncates the first
fold to 1 element because `has_tag_on_fold_count` does not look at the sibling fold's post-filter —
yields no row. -/
theorem limits_visible_witness :
    interpret { wEnv true with useLimits := false } wIR = .ok [[("m", .uint64 2), ("value", .int64 4)]] ∧
      interpret (wEnv true) wIR = .ok [] :=
  ⟨wRun_nolim, wRun_lim⟩

/-- **F-29.**  `{ Four { value @output divisor @fold @transform(op:"count") @filter(op:">=",
value:["$one"]) { multiple @fold { value @output(name:"inner") } } } }`: the outer fold has no
outputs of its own and is truncated to 1 element, so the nested output `inner` — one list per
element of the outer fold — is `[[]]` instead of `[[], [4, 6]]`. -/
theorem limits_visible_witness_nested :
    interpret { wEnv true with useLimits := false } nIR =
        .ok [[("inner", .list [.list [], .list [.int64 4, .int64 6]]), ("value", .int64 4)]] ∧
      interpret (wEnv true) nIR = .ok [[("inner", .list [.list []]), ("value", .int64 4)]] :=
  ⟨nRun false, nRun true⟩

/-- The unguarded statement does not hold. -/
theorem limits_invisible_false :
    ¬ ∀ (env : Env) (ir : IRQuery), interpret { env with useLimits := false } ir = interpret env ir := by
  intro h
  have := h (wEnv true) wIR
  rw [limits_visible_witness.1, limits_visible_witness.2] at this
  simp at this

/-! ### non-vacuity -/

/-- the guard rejects exactly the two witnesses … -/
example : ¬ CountUnobserved wIR := by decide
example : ¬ CountUnobserved nIR := by decide

/-- … and admits a query in which both shortcuts are active (`divisor` truncated by the min limit 1,
`multiple` dropped early by the max limit 1), for which all hypotheses of `limits_invisible_partial`
hold. -/
example : CountUnobserved gIR ∧ FoldsOK (wEnv true) gIR ∧
    foldLimits (wEnv true) gRoot gF1 = .ok (none, some 1) ∧
    foldLimits (wEnv true) gRoot gF2 = .ok (some 1, none) :=
  ⟨gGuard, gFoldsOK, gTruncated.1, gTruncated.2⟩

/-- (a) on boundary arguments: `count = -3` imposes the limit 0 and is false for every count;
`count < 0` likewise; `one_of [2^63 as Uint64, -1]` imposes 2^63. -/
example : maxFoldLimit { wEnv true with args := [("x", .int64 (-3))] }
    [⟨.bin .equals, .count, some (.var "x" wInt)⟩] none = .ok (some 0) := by rfl
example : Filter.equals (.uint64 0) (.int64 (-3)) = false := by decide
example : maxFoldLimit { wEnv true with args := [("x", .int64 0)] }
    [⟨.bin .lessThan, .count, some (.var "x" wInt)⟩] none = .ok (some 0) := by rfl
example : maxFoldLimit { wEnv true with args := [("x", .list [.uint64 9223372036854775808, .int64 (-1)])] }
    [⟨.bin .oneOf, .count, some (.var "x" wInt)⟩] none = .ok (some 9223372036854775808) := by rfl
/-- (b): `count > -1` contributes the min limit 1 although it holds for every count. -/
example : minFoldLimit { wEnv true with args := [("x", .int64 (-1))] }
    [⟨.bin .greaterThan, .count, some (.var "x" wInt)⟩] none = .ok (some 1) := by rfl
example : Filter.greaterThan (.uint64 0) (.int64 (-1)) = .ok true := by decide

end TF.C22

#print axioms TF.C22.max_limit_sound
#print axioms TF.C22.min_limit_sound
#print axioms TF.C22.min_limit_sound_all
#print axioms TF.C22.foldFinish_limits_equiv
#print axioms TF.C22.limits_of_typed_args
#print axioms TF.C22.limits_invisible_partial
#print axioms TF.C22.limits_invisible_partial_eq
#print axioms TF.C22.limits_visible_witness
#print axioms TF.C22.limits_visible_witness_nested
#print axioms TF.C22.limits_invisible_false
