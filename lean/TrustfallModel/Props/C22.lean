/-
C22 — Fold-count early termination is invisible in results.

"The results of a query with filters on a fold's count are the same as if every fold were fully
materialized before filtering: observing the count (as an output or tag) or anything nested inside
the fold never changes the other outputs or the set of rows."

Statements are about `TF.Engine.interpret` (`Model/Interp.lean`, the list-level mirror of
`interpreter/execution.rs`): `Env.useLimits = true` is the engine as it is (`compute_fold` calls
`get_max_fold_count_limit` / `get_min_fold_count_limit` and `collect_fold_elements` stops early),
`useLimits := false` is the reference semantics (every fold fully materialised, then filtered).

  Full statement (FALSE of the code today, findings F-23 and F-29, witnesses below):

    theorem limits_invisible (env : Env) (ir : IRQuery) :
        interpret { env with useLimits := false } ir = interpret env ir
-/
import TrustfallModel.Proofs.FoldLimits

namespace TF.C22
open TF TF.Engine Filter

/-! ### (a) the max limit anticipates the post-filters -/

/-- **(a)** `get_max_fold_count_limit` is sound.  If the fold's post-filters impose the limit `m`,
the fold exists for the context `c` (`c.active`, the fold's source vertex, is present), `n > m`
elements were computed (`c`'s slot for the fold holds `n`; `n < 2^64`: `elements.len() as u64` is
exact on 64-bit targets) and the post-filters do not panic on `c`, then the post-filters reject
`c`: dropping the context early in `collect_fold_elements` is exactly what they would have done.
Covers `=`, `<=`, `<` (`saturating_sub(1)`) and `one_of` (maximum of the list) with `Int64` and
`Uint64` arguments of any sign and magnitude; a negative argument clamps to the limit 0, and the
filter (`count = -3`, `count <= -1`, …) is then indeed false for every count. -/
theorem max_limit_sound (env : Env) (parent : Component) (fold : Fold) (c : Ctx) (n m : Nat)
    (hmax : maxFoldLimit env fold.post none = .ok (some m))
    (hslot : c.foldCount? fold.eid = some (some n)) (hexists : c.active.isSome = true)
    (hgt : m < n) (hn : n < 2 ^ 64)
    (hnp : ∃ r, applyPostFilters env parent fold fold.post c = .ok r) :
    applyPostFilters env parent fold fold.post c = .ok none :=
  max_limit_sound_list env parent fold fold.post c n m hmax hslot hexists hgt hn hnp

/-! ### (b) truncating to the min limit preserves every verdict -/

/-- **(b)** `get_min_fold_count_limit` is sound.  If it yields `k` (every post-filter is `>=` / `>`
against a variable), then on every context each single post-filter gives the same verdict for the
truncated count `min n k` as for the real count `n`: the filter's verdict is "count ≥ t" for a
threshold `t ≤ k` (`t = 0` for `count > negative`). -/
theorem min_limit_sound (env : Env) (parent : Component) (fold : Fold) (k : Nat)
    (hmin : minFoldLimit env fold.post none = .ok (some k)) (f : IRFilter) (hf : f ∈ fold.post)
    (c c' : Ctx) (n : Nat) (hn : n < 2 ^ 64)
    (hslot : c.foldCount? fold.eid = some (some n))
    (hslot' : c'.foldCount? fold.eid = some (some (min n k)))
    (hact : c'.active = c.active) :
    (applyPostFilter env parent fold f c').map Option.isSome =
      (applyPostFilter env parent fold f c).map Option.isSome := by
  obtain ⟨kf, hkf, hfk⟩ := (minFoldLimit_mem hmin).2 f hf
  obtain ⟨t, ht, hv⟩ := minFilter_verdict env parent fold f kf hfk
  rw [hv c n hslot hn, hv c' (min n k) hslot' (by omega), hact]
  have : decide (t ≤ min n k) = decide (t ≤ n) := decide_eq_decide.mpr (by omega)
  rw [this]
  cases c.active.isNone || decide (t ≤ n) <;> rfl

/-- … and so does the whole chain of post-filters: the truncated context survives iff the full one
does, and a surviving context is returned as it is. -/
theorem min_limit_sound_all (env : Env) (parent : Component) (fold : Fold) (k : Nat)
    (hmin : minFoldLimit env fold.post none = .ok (some k))
    (c c' : Ctx) (n : Nat) (hn : n < 2 ^ 64)
    (hslot : c.foldCount? fold.eid = some (some n))
    (hslot' : c'.foldCount? fold.eid = some (some (min n k)))
    (hact : c'.active = c.active) :
    ∃ b : Bool, applyPostFilters env parent fold fold.post c = .ok (if b then some c else none) ∧
      applyPostFilters env parent fold fold.post c' = .ok (if b then some c' else none) := by
  obtain ⟨t, ht, hv⟩ := minFoldLimit_verdict env parent fold fold.post k hmin
  refine ⟨c.active.isNone || decide (t ≤ n), hv c n hslot hn, ?_⟩
  rw [hv c' (min n k) hslot' (by omega), hact]
  have : decide (t ≤ min n k) = decide (t ≤ n) := decide_eq_decide.mpr (by omega)
  rw [this]

end TF.C22

#print axioms TF.C22.max_limit_sound
#print axioms TF.C22.min_limit_sound
#print axioms TF.C22.min_limit_sound_all
