/-
C23 — Query transformations with known effects change results exactly as predicted.

  "Adding a filter never adds rows; raising a recursion depth never removes rows; making an edge
   @optional keeps all previous rows; a parameterized edge without @optional/@recurse behaves like
   the equivalent filter; '=' and one_of with a single-element list agree; a filter and its negation
   partition rows outside missing optional scopes; renaming outputs or tags and reordering sibling
   selections changes no row contents."

The statements are about the declarative semantics `Spec.rows` (Model/Spec.lean) — the formal
meaning of a query, which the engine is compared with on every generated query by C01 and, for the
transformed queries, by this check's own `spec-exec` requests — and about the syntactic
transformations of `Model/Transform.lean`.  They hold for *every* query tree, every dataset, every
schema table and every argument list: no well-typedness is assumed.  Because `Spec.rows` can fail
(an operator applied outside its domain, an unbound variable, …) and a transformation may add or
remove the failing evaluation, the order statements are made where both queries evaluate
(`= .ok rs`); the equalities are equalities of results, failures included, unless said otherwise.

"Rows" are lists in the nested pre-order of the semantics; `l₁ <+ l₂` is `List.Sublist` (a
sub-multiset that also keeps the order), `Interleave l r m` says that `m` is a merge of `l` and `r`.

Side conditions (each shown necessary by a counterexample below):
* `add_filter_sub`, `recurse_mono`, `optional_keeps`, `filter_partition`, `param_edge_as_filter`:
  the position is not inside a `@fold` (`NoFoldPath`) — inside a fold the sub-query's rows are the
  *elements* of the folded lists, so the lists and the count change instead of the rows;
* `filter_partition`: moreover not inside an `@optional` scope (`StrictPath`: in a missing scope
  both `f` and `¬f` pass), the operand is not a tag (a tag from a missing scope makes both pass), and
  the operator has a complement (`negOp`: the `not_…` forms, `!=`, `is_null`; `<` and `>=` are both
  false on null);
* renaming: the renaming function is injective;
* `reorder_siblings_props` / `reorder_siblings_edges`: the swapped selections define different tag
  and output names (true of every valid query), two swapped edges have no tag dependency, and the
  position is not inside a fold (there the order of the folded elements is observable).
-/
import TrustfallModel.Proofs.SpecMeta
import TrustfallModel.Proofs.SpecMetaCount

namespace TF.C23
open TF TF.Engine TF.Spec TF.Transform TF.SpecMeta

/-! ### adding a filter never adds rows -/

/-- The rows of the query with an extra `@filter(op, arg)` on property `j` of the node at `p`
(inserted at any position `k` among the property's directives; `arg` a variable, a tag or nothing)
are a sublist of the rows of the query — provided the node is not inside a fold. -/
theorem add_filter_sub (env : SpecEnv) (q : Query) (p : Path) (j k : Nat) (op : FOp) (arg : QArg)
    (hp : NoFoldPath p q.root) (rs rs' : List Row)
    (h : rows env q = .ok rs) (h' : rows env (addFilter p j k op arg q) = .ok rs') :
    rs'.Sublist rs :=
  rows_sublist_of_asgs (fun as as' => asgs_addFilter_sub env q p j k op arg hp as as') h h'

/-- The rows of the query with an extra count filter `@filter(op, arg)` on the `@fold` edge `j` of
the node at `p` (inserted at any position `k` among the fold's count directives; `arg` a variable, a
tag or nothing) are a sublist of the rows of the query — provided the node that carries the fold
edge is not itself inside a fold.  (Where field `j` is not a `@fold` edge the query is unchanged.)
No further hypothesis is needed: the extra filter changes neither the folded elements, nor the
count, nor the count tags/outputs, so the fold edge yields its old assignment or none. -/
theorem add_count_filter_sub (env : SpecEnv) (q : Query) (p : Path) (j k : Nat) (op : FOp) (arg : QArg)
    (hp : NoFoldPath p q.root) (rs rs' : List Row)
    (h : rows env q = .ok rs) (h' : rows env (addCountFilter p j k op arg q) = .ok rs') :
    rs'.Sublist rs :=
  rows_sublist_of_asgs (fun as as' => asgs_addCountFilter_sub env q p j k op arg hp as as') h h'

/-! ### raising a recursion depth never removes rows -/

/-- `d ≤ d'`: the rows with depth `d` on the `@recurse` edge `j` of the node at `p` are a sublist of
the rows with depth `d'` — provided the node is not inside a fold. -/
theorem recurse_mono (env : SpecEnv) (q : Query) (p : Path) (j : Nat) (d d' : Nat) (hd : d ≤ d')
    (hp : NoFoldPath p q.root) (rs rs' : List Row)
    (h : rows env (setRecurseDepth p j d q) = .ok rs)
    (h' : rows env (setRecurseDepth p j d' q) = .ok rs') : rs.Sublist rs' :=
  rows_sublist_of_asgs (q := setRecurseDepth p j d' q) (q' := setRecurseDepth p j d q)
    (fun as as' h1 h2 => asgs_recurse_mono env q p j hd hp as' as h2 h1) h' h

/-- The same, starting from the query as written: its edge has depth `d`. -/
theorem recurse_mono_at (env : SpecEnv) (q : Query) (p : Path) (j : Nat) (d d' : Nat) (hd : d ≤ d')
    (hk : kindAt p j q.root = some (.recurse d)) (hp : NoFoldPath p q.root) (rs rs' : List Row)
    (h : rows env q = .ok rs) (h' : rows env (setRecurseDepth p j d' q) = .ok rs') :
    rs.Sublist rs' := by
  rw [← setRecurseDepth_self p j d q hk] at h
  exact recurse_mono env q p j d d' hd hp rs rs' h h'

/-- The fact about the data the law rests on: the vertices within `d` hops are, in place, among the
vertices within `d'` hops. -/
theorem reach_sublist (D : Data) (e : Name) (ps : Params) (d d' : Nat) (hd : d ≤ d') (v : VertexId) :
    (reach D e ps d v).Sublist (reach D e ps d' v) := reach_mono D e ps hd v

/-! ### making an edge `@optional` keeps all previous rows -/

/-- Every row of the query is a row of the query in which the plain edge `j` of the node at `p` is
`@optional` (sublist) — provided the node is not inside a fold. -/
theorem optional_keeps (env : SpecEnv) (q : Query) (p : Path) (j : Nat)
    (hp : NoFoldPath p q.root) (rs rs' : List Row)
    (h : rows env q = .ok rs) (h' : rows env (makeOptional p j q) = .ok rs') : rs.Sublist rs' :=
  rows_sublist_of_asgs (q := makeOptional p j q) (q' := q)
    (fun as' as h1 h2 => asgs_optional_keeps env q p j hp as as' h2 h1) h' h

/-! ### `=` and `one_of` with a single-element list agree -/

/-- Replacing `@filter(op: "=", value: ["$x"])` by `@filter(op: "one_of", value: ["$w"])`, where the
argument `w` is the one-element list of the argument `x`, leaves the result unchanged — anywhere in
the query, folds and optional scopes included, failures included. -/
theorem eq_oneof_singleton (env : SpecEnv) (q : Query) (p : Path) (j k : Nat) (x w : Name)
    (val : Value)
    (hd : dirAt p j k q.root = some (.filter (.bin .equals) (.var x)))
    (hx : (env.args.find? (·.1 == x)).map (·.2) = some val)
    (hw : (env.args.find? (·.1 == w)).map (·.2) = some (.list [val])) :
    rows env (replaceEqByOneOf p j k w q) = rows env q :=
  rows_of_asgs_eq (asgs_eqToOneOf env q p j k x w val hd hx hw)

/-- The operator fact behind it (C07): on every pair of values. -/
theorem eq_oneof_operator (rx : Filter.RegexEngine) (l r : Value) :
    Filter.applyStatic rx .oneOf l (.list [r]) = Filter.applyStatic rx .equals l r := by
  simp only [Filter.applyStatic, Filter.equalsOp, Filter.oneOf, Filter.oneOfLoop,
    Filter.equals_eq_beq]
  congr 1
  show (if Value.beq l r = true then true else false) = Value.beq l r
  cases Value.beq l r <;> rfl

/-! ### a filter and its negation partition the rows -/

/-- Outside folds and optional scopes (`StrictPath`), for an operator `op` with complement `nop`
(`negOp`) and an operand that is not a tag: the rows of `q` are a merge of the rows of `q + f` and the
rows of `q + ¬f` — every row of `q` goes to exactly one side, orders kept. -/
theorem filter_partition (env : SpecEnv) (q : Query) (p : Path) (j k : Nat) (op nop : FOp)
    (arg : QArg) (hneg : negOp op = some nop) (harg : QArg.isTag arg = false)
    (hp : StrictPath p q.root) (nm : Name) (dirs : List Dir)
    (hf : fieldAt p j q.root = some (.prop nm dirs)) (rs rsPos rsNeg : List Row)
    (h : rows env q = .ok rs)
    (hpos : rows env (addFilter p j k op arg q) = .ok rsPos)
    (hnegq : rows env (addFilter p j k nop arg q) = .ok rsNeg) :
    Interleave rsPos rsNeg rs := by
  obtain ⟨as, has, rfl⟩ := rows_ok.mp h
  obtain ⟨asp, hasp, rfl⟩ := rows_ok.mp hpos
  obtain ⟨asn, hasn, rfl⟩ := rows_ok.mp hnegq
  exact (asgs_partition env q p j k op nop arg hneg harg hp nm dirs hf as asp asn has hasp hasn).map _

/-- As multisets: `rows(q + f) ⊎ rows(q + ¬f) = rows(q)`. -/
theorem filter_partition_perm (env : SpecEnv) (q : Query) (p : Path) (j k : Nat) (op nop : FOp)
    (arg : QArg) (hneg : negOp op = some nop) (harg : QArg.isTag arg = false)
    (hp : StrictPath p q.root) (nm : Name) (dirs : List Dir)
    (hf : fieldAt p j q.root = some (.prop nm dirs)) (rs rsPos rsNeg : List Row)
    (h : rows env q = .ok rs)
    (hpos : rows env (addFilter p j k op arg q) = .ok rsPos)
    (hnegq : rows env (addFilter p j k nop arg q) = .ok rsNeg) :
    (rsPos ++ rsNeg).Perm rs ∧ rs.length = rsPos.length + rsNeg.length :=
  have hi := filter_partition env q p j k op nop arg hneg harg hp nm dirs hf rs rsPos rsNeg h hpos hnegq
  ⟨hi.perm, hi.length_eq⟩

/-- The same law in terms of `negateFilter`: with `q⁺ = q + f` (the filter inserted at a position `k`
within the property's directives), the rows of `q` are a merge of the rows of `q⁺` and of
`negateFilter q⁺`. -/
theorem filter_partition_negate (env : SpecEnv) (q : Query) (p : Path) (j k : Nat) (op nop : FOp)
    (arg : QArg) (hneg : negOp op = some nop) (harg : QArg.isTag arg = false)
    (hp : StrictPath p q.root) (nm : Name) (dirs : List Dir)
    (hf : fieldAt p j q.root = some (.prop nm dirs)) (hk : k ≤ dirs.length)
    (rs rsPos rsNeg : List Row) (h : rows env q = .ok rs)
    (hpos : rows env (addFilter p j k op arg q) = .ok rsPos)
    (hnegq : rows env (negateFilter p j k (addFilter p j k op arg q)) = .ok rsNeg) :
    Interleave rsPos rsNeg rs := by
  rw [negateFilter_addFilter p j k op nop arg q hneg
    (fun nm' dirs' h' => by rw [hf] at h'; cases h'; exact hk)] at hnegq
  exact filter_partition env q p j k op nop arg hneg harg hp nm dirs hf rs rsPos rsNeg h hpos hnegq

/-- `negOp` is an involution where defined. -/
theorem negOp_involutive (op nop : FOp) (h : negOp op = some nop) : negOp nop = some op := by
  cases op with
  | un o => cases o <;> simp [negOp] at h <;> subst h <;> rfl
  | bin o => cases o <;> simp [negOp] at h <;> subst h <;> rfl

/-- Why the ordering operators have no complement: on a null left operand `<` and `>=` (and `<=`,
`>`) are all false. -/
theorem ordering_not_complementary (rx : Filter.RegexEngine) (r : Value) :
    Filter.applyStatic rx .lessThan .null r = .ok false ∧
      Filter.applyStatic rx .greaterThanOrEqual .null r = .ok false := by
  constructor <;> cases r <;> rfl

/-! ### a parameterised edge behaves like the equivalent filter -/

/-- Dataset hypothesis (`hdata`): at every vertex, the neighbours along `nm(ps)` are the neighbours
along `nm'(ps')` that pass `keep`; (`hfilter`): `keep n` is what the filter `prop op arg` decides at
`n` (so `arg` is a variable or absent).  Then the query with the plain — or folded — edge `nm(ps)` at
field `j` of the node at `p` and the query with `nm'(ps') { prop @filter(op, arg) … }` there have the
same rows.  Not for `@optional` (the filter would remove the row that the empty parameterised edge
keeps with nulls) nor `@recurse` (the filter would apply to the starting vertex and not prune the
traversal): `paramEdgeToFilter` leaves such edges alone.  The node is not inside a fold. -/
theorem param_edge_as_filter (env : SpecEnv) (q : Query) (p : Path) (j : Nat) (nm nm' : Name)
    (ps ps' : Params) (prop : Name) (op : FOp) (arg : QArg) (keep : VertexId → Bool)
    (hdata : ∀ x : VertexId,
      let owners := env.data.supers (env.data.typeOf x)
      env.data.nbrs x nm (completeParams (declParams env owners nm) ps) =
        (env.data.nbrs x nm' (completeParams (declParams env owners nm') ps')).filter keep)
    (hfilter : ∀ n a, filterHolds env a (some n) (env.data.prop n prop) op arg = .ok (keep n))
    (hp : NoFoldPath p q.root) (k : Kind) (c : QNode)
    (hf : fieldAt p j q.root = some (.edge nm ps k c)) (rs rs' : List Row)
    (h : rows env q = .ok rs)
    (h' : rows env (paramEdgeToFilter p j nm' ps' prop op arg q) = .ok rs') : rs = rs' := by
  obtain ⟨as, has, rfl⟩ := rows_ok.mp h
  obtain ⟨as', has', rfl⟩ := rows_ok.mp h'
  rw [asgs_param_edge env q p j nm nm' ps ps' prop op arg keep hdata hfilter hp k c hf as as' has has']

/-! ### renaming outputs or tags changes no row contents -/

/-- Renaming the outputs with an injective `σ`: same number of rows, in the same order, and each row
is the original row with its keys renamed (re-sorted by the new names). Failures are the same. -/
theorem rename_outputs (σ : Name → Name) (hσ : Function.Injective σ) (env : SpecEnv) (q : Query)
    (rs : List Row) (h : rows env q = .ok rs) :
    ∃ rs', rows env (renameOutputs σ q) = .ok rs' ∧
      Forall₂ (fun r' r => r'.Perm (renameRowKeys σ r)) rs' rs :=
  rows_renameOutputs_perm hσ env q rs h

/-- The exact form: the renamed query's rows are the original assignments with renamed keys. -/
theorem rename_outputs_exact (σ : Name → Name) (hσ : Function.Injective σ) (env : SpecEnv)
    (q : Query) :
    rows env (renameOutputs σ q) =
      (asgs env q).map (List.map fun a => sortRow (renameRowKeys σ a.outs)) :=
  rows_renameOutputs hσ env q

/-- When the output names of every row are distinct (every valid query): the rows of the renamed query
are exactly the original rows with their keys renamed and re-sorted. -/
theorem rename_outputs_eq (σ : Name → Name) (hσ : Function.Injective σ) (env : SpecEnv) (q : Query)
    (rs : List Row) (h : rows env q = .ok rs) (hd : DistinctKeys rs) :
    rows env (renameOutputs σ q) = .ok (rs.map fun r => sortRow (renameRowKeys σ r)) :=
  rows_renameOutputs_eq hσ env q rs h hd

/-- Renaming the tags (definitions and uses) with an injective `σ` changes nothing. -/
theorem rename_tags (σ : Name → Name) (hσ : Function.Injective σ) (env : SpecEnv) (q : Query) :
    rows env (renameTags σ q) = rows env q :=
  rows_renameTags hσ env q


/-! ### reordering sibling selections changes no row contents -/

/-- Swapping a property selection with an adjacent selection (a property whose `@tag`/`@output` names
differ from its own — `swapPropsOK`, true of every valid query — or an edge) leaves the rows where they
are, each with the same `(name, value)` pairs: the rows are sorted by output name, so with distinct
output names they are literally equal.  (Not inside a fold for this proof; the harness also swaps
inside folds.) -/
theorem reorder_siblings_props (env : SpecEnv) (q : Query) (p : Path) (j : Nat) (f g : QField)
    (hp : NoFoldPath p q.root) (hf : fieldAt p j q.root = some f)
    (hg : fieldAt p (j + 1) q.root = some g) (hok : swapPropsOK f g = true)
    (rs rs' : List Row) (h : rows env q = .ok rs) (h' : rows env (swapSiblings p j q) = .ok rs') :
    Forall₂ (fun r' r => r'.Perm r) rs' rs :=
  rows_swapProps env q p j f g hp hf hg hok rs rs' h h'

/-- … hence, when the output names of every row are distinct, nothing changes at all. -/
theorem reorder_siblings_props_eq (env : SpecEnv) (q : Query) (p : Path) (j : Nat) (f g : QField)
    (hp : NoFoldPath p q.root) (hf : fieldAt p j q.root = some f)
    (hg : fieldAt p (j + 1) q.root = some g) (hok : swapPropsOK f g = true)
    (rs rs' : List Row) (h : rows env q = .ok rs) (h' : rows env (swapSiblings p j q) = .ok rs')
    (hd : DistinctKeys rs) : rs' = rs :=
  rows_swapProps_eq env q p j f g hp hf hg hok rs rs' h h' hd

/-- Swapping two adjacent edge selections with no tag dependency between them (`swapEdgesOK`: neither
reads a tag the other defines, and the tag and output names they define are different) permutes the
rows: the swapped query's rows are a permutation of rows that agree, one by one and up to the order
of the `(name, value)` pairs, with the original rows.  Outside folds (inside a fold the order of the
folded elements is observable). -/
theorem reorder_siblings_edges (env : SpecEnv) (q : Query) (p : Path) (j : Nat) (E1 E2 : QField)
    (hp : NoFoldPath p q.root) (hf : fieldAt p j q.root = some E1)
    (hg : fieldAt p (j + 1) q.root = some E2) (hok : swapEdgesOK E1 E2 = true)
    (rs rs' : List Row) (h : rows env q = .ok rs) (h' : rows env (swapSiblings p j q) = .ok rs') :
    ∃ rs'', rs'.Perm rs'' ∧ Forall₂ (fun r' r => r'.Perm r) rs'' rs :=
  rows_swapEdges env q p j E1 E2 hp hf hg hok rs rs' h h'

/-- … hence, when the output names of every row are distinct, the two results are equal as multisets of
rows. -/
theorem reorder_siblings_edges_perm (env : SpecEnv) (q : Query) (p : Path) (j : Nat) (E1 E2 : QField)
    (hp : NoFoldPath p q.root) (hf : fieldAt p j q.root = some E1)
    (hg : fieldAt p (j + 1) q.root = some E2) (hok : swapEdgesOK E1 E2 = true)
    (rs rs' : List Row) (h : rows env q = .ok rs) (h' : rows env (swapSiblings p j q) = .ok rs')
    (hd : DistinctKeys rs) : rs'.Perm rs :=
  rows_swapEdges_perm env q p j E1 E2 hp hf hg hok rs rs' h h' hd

/-- In particular the number of rows does not change. -/
theorem reorder_siblings_edges_length (env : SpecEnv) (q : Query) (p : Path) (j : Nat) (E1 E2 : QField)
    (hp : NoFoldPath p q.root) (hf : fieldAt p j q.root = some E1)
    (hg : fieldAt p (j + 1) q.root = some E2) (hok : swapEdgesOK E1 E2 = true)
    (rs rs' : List Row) (h : rows env q = .ok rs) (h' : rows env (swapSiblings p j q) = .ok rs') :
    rs'.length = rs.length := by
  obtain ⟨rs'', h1, h2⟩ := reorder_siblings_edges env q p j E1 E2 hp hf hg hok rs rs' h h'
  rw [h1.length_eq, h2.length_eq]

/-- The two facts the commutation rests on: evaluation only extends an assignment, by extensions that
depend on it through the tags the subtree reads (`evalNode_frame`), and it does not care about the
order in which tags and outputs were appended (`evalNode_resp`). -/
theorem frame_property (env : SpecEnv) (fuel : Nat) (n : QNode) (v : Option VertexId) (a b : Asg)
    (h : ∀ t ∈ tagUses n, a.tag? t = b.tag? t) (La Lb : List Asg)
    (ha : evalNode env fuel n v a = .ok La) (hb : evalNode env fuel n v b = .ok Lb) :
    ∃ Δ : List Asg, La = Δ.map (ext a) ∧ Lb = Δ.map (ext b) := by
  obtain ⟨Δ, h1, h2, _⟩ := evalNode_frame env fuel n v a b h La Lb ha hb
  exact ⟨Δ, h1, h2⟩

/-! ### the side conditions are necessary; the statements are not vacuous

One small world (it is also the corpus `corpus/C23.cases`, where the same queries are run on the real
engine): vertices `0, 1, 2, 3` of type `A` with `x = 1, 1, 2, 3`; edges `0 -e-> 1, 2`, `1 -e-> 2`,
`2 -e-> 3`, `0 -f-> 1`, no `g` edge; starting vertex `0`; arguments `one = 1`, `ones = [1]`. -/

namespace Example
open SpecMeta.Example

/-! The world (`D`, `env`), the queries and the evaluations of `Spec.rows` on them (by unfolding) are in
`Proofs/SpecMeta.lean` §7; the statements are repeated here.

* `qFoldCount` = `{ R { e @fold @transform(op: "count") @filter(op: "=", value: ["$one"]) { x @output(name: "o") } } }`
* `qOpt`       = `{ R { g @optional { x @output(name: "o") } } }`
* `qOptTag`    = `{ R { g @optional { x @tag(name: "t") } f { x @output(name: "o") } } }`
* `qPlain`     = `{ R { e { x @output(name: "o") } } }`
* `qRec`       = `{ R { e @recurse(depth: 1) { x @output(name: "o") } } }`
* `qRecFold`   = `{ R { f @fold { e @recurse(depth: 1) { x @output(name: "o") } } } }`
* `qTwo`       = `{ R { e { x @output(name: "o1") } e { x @output(name: "o2") } } }`
* `qParam`     = `{ R { h(k: 1) { x @output(name: "o") } } }` over `envp`, where `h(k: 1)` is `h(k: null)`
  filtered by `x = 1` -/

/-- Inside a fold a filter can even *add* a row: the count filter `= 1` fails on two elements and
holds once the inner filter has removed one of them.  (`add_filter_sub` needs `NoFoldPath`.) -/
theorem add_filter_in_fold_adds_row :
    rows env qFoldCount = .ok [] ∧
      rows env (addFilter [0] 0 1 (.bin .equals) (.var "one") qFoldCount) = .ok [[("o", .list [.int64 1])]] ∧
      ¬ NoFoldPath [0] qFoldCount.root :=
  SpecMeta.Example.add_filter_in_fold_adds_row

/-- Inside a missing optional scope `f` and `¬f` both pass: the one row of `q` is a row of `q + f` and
of `q + ¬f`.  (`filter_partition` needs `StrictPath`.) -/
theorem partition_fails_in_optional_scope :
    rows env qOpt = .ok [[("o", .null)]] ∧
      rows env (addFilter [0] 0 1 (.bin .equals) (.var "one") qOpt) = .ok [[("o", .null)]] ∧
      rows env (addFilter [0] 0 1 (.bin .notEquals) (.var "one") qOpt) = .ok [[("o", .null)]] ∧
      NoFoldPath [0] qOpt.root ∧ ¬ StrictPath [0] qOpt.root :=
  SpecMeta.Example.partition_fails_in_optional_scope

/-- A tag from a missing optional scope makes `= %t` and `!= %t` both pass, even at a position that
exists in every row.  (`filter_partition` needs an operand that is not a tag.) -/
theorem partition_fails_with_tag_from_optional_scope :
    rows env qOptTag = .ok [[("o", .int64 1)]] ∧
      rows env (addFilter [1] 0 1 (.bin .equals) (.tag "t") qOptTag) = .ok [[("o", .int64 1)]] ∧
      rows env (addFilter [1] 0 1 (.bin .notEquals) (.tag "t") qOptTag) = .ok [[("o", .int64 1)]] ∧
      StrictPath [1] qOptTag.root :=
  SpecMeta.Example.partition_fails_with_tag_from_optional_scope

/-- Below a fold, raising a recursion depth changes the folded list, so the old row is gone.
(`recurse_mono` needs `NoFoldPath`.) -/
theorem recurse_in_fold_changes_row :
    rows env qRecFold = .ok [[("o", .list [.int64 1, .int64 2])]] ∧
      rows env (setRecurseDepth [0] 0 2 qRecFold) = .ok [[("o", .list [.int64 1, .int64 2, .int64 3])]] ∧
      ¬ NoFoldPath [0] qRecFold.root :=
  SpecMeta.Example.recurse_in_fold_changes_row

/-- Non-vacuity of `add_filter_sub` / `filter_partition`: a strict partition of two rows. -/
theorem partition_example :
    rows env qPlain = .ok [[("o", .int64 1)], [("o", .int64 2)]] ∧
      rows env (addFilter [0] 0 0 (.bin .equals) (.var "one") qPlain) = .ok [[("o", .int64 1)]] ∧
      rows env (addFilter [0] 0 0 (.bin .notEquals) (.var "one") qPlain) = .ok [[("o", .int64 2)]] ∧
      StrictPath [0] qPlain.root ∧ fieldAt [0] 0 qPlain.root = some (out "x" "o") :=
  SpecMeta.Example.partition_example

example : Interleave [[("o", Value.int64 1)]] [[("o", Value.int64 2)]]
    [[("o", Value.int64 1)], [("o", Value.int64 2)]] :=
  filter_partition env qPlain [0] 0 0 (.bin .equals) (.bin .notEquals) (.var "one") rfl rfl (by decide)
    "x" [.output "o"] rfl _ _ _ partition_example.1 partition_example.2.1 partition_example.2.2.1

/-- Non-vacuity of `recurse_mono`: depth 1 → 2 adds a row in the middle and one at the end. -/
theorem recurse_example :
    rows env qRec = .ok [[("o", .int64 1)], [("o", .int64 1)], [("o", .int64 2)]] ∧
      rows env (setRecurseDepth [] 0 2 qRec) =
        .ok [[("o", .int64 1)], [("o", .int64 1)], [("o", .int64 2)], [("o", .int64 2)], [("o", .int64 3)]] ∧
      kindAt [] 0 qRec.root = some (.recurse 1) :=
  SpecMeta.Example.recurse_example

/-- Non-vacuity of `optional_keeps` (here nothing is added: vertex 0 has `e`-neighbours). -/
theorem optional_example :
    rows env (makeOptional [] 0 qPlain) = .ok [[("o", .int64 1)], [("o", .int64 2)]] :=
  SpecMeta.Example.optional_example

/-- Non-vacuity of `eq_oneof_singleton`. -/
theorem eq_oneof_example :
    dirAt [0] 0 0 (addFilter [0] 0 0 (.bin .equals) (.var "one") qPlain).root =
        some (.filter (.bin .equals) (.var "one")) ∧
      rows env (replaceEqByOneOf [0] 0 0 "ones" (addFilter [0] 0 0 (.bin .equals) (.var "one") qPlain)) =
        .ok [[("o", .int64 1)]] :=
  SpecMeta.Example.eq_oneof_example

/-- Non-vacuity of `reorder_siblings_edges`: two independent edges; the swap exchanges the two middle
rows. -/
theorem swap_edges_example :
    rows env qTwo = .ok [[("o1", .int64 1), ("o2", .int64 1)], [("o1", .int64 1), ("o2", .int64 2)],
      [("o1", .int64 2), ("o2", .int64 1)], [("o1", .int64 2), ("o2", .int64 2)]] ∧
    rows env (swapSiblings [] 0 qTwo) = .ok [[("o1", .int64 1), ("o2", .int64 1)],
      [("o1", .int64 2), ("o2", .int64 1)], [("o1", .int64 1), ("o2", .int64 2)],
      [("o1", .int64 2), ("o2", .int64 2)]] ∧
    swapEdgesOK (.edge "e" [] .plain (.mk none [out "x" "o1"]))
      (.edge "e" [] .plain (.mk none [out "x" "o2"])) = true :=
  SpecMeta.Example.swap_edges_example

/-- Non-vacuity of `param_edge_as_filter`: the hypotheses hold of `envp` (`param_example_data`,
`param_example_filter`), both queries evaluate, and the theorem gives the equality of their rows (here
`[{o: 1}]`: vertex 2 is excluded on both sides). -/
theorem param_example :
    rows envp qParam = .ok [[("o", .int64 1)]] ∧
      rows envp (paramEdgeToFilter [] 0 "h" [("k", .null)] "x" (.bin .equals) (.var "one") qParam) =
        .ok [[("o", .int64 1)]] :=
  SpecMeta.Example.param_example

example : ([[("o", Value.int64 1)]] : List Row) = [[("o", Value.int64 1)]] :=
  param_edge_as_filter envp qParam [] 0 "h" "h" [("k", .int64 1)] [("k", .null)] "x" (.bin .equals)
    (.var "one") keep param_example_data param_example_filter (by decide) .plain
    (.mk none [out "x" "o"]) rfl _ _ param_example.1 param_example.2

end Example

end TF.C23

#print axioms TF.C23.add_filter_sub
#print axioms TF.C23.add_count_filter_sub
#print axioms TF.C23.recurse_mono
#print axioms TF.C23.recurse_mono_at
#print axioms TF.C23.reach_sublist
#print axioms TF.C23.optional_keeps
#print axioms TF.C23.eq_oneof_singleton
#print axioms TF.C23.eq_oneof_operator
#print axioms TF.C23.filter_partition
#print axioms TF.C23.filter_partition_perm
#print axioms TF.C23.filter_partition_negate
#print axioms TF.C23.negOp_involutive
#print axioms TF.C23.ordering_not_complementary
#print axioms TF.C23.param_edge_as_filter
#print axioms TF.C23.rename_outputs
#print axioms TF.C23.rename_outputs_exact
#print axioms TF.C23.rename_outputs_eq
#print axioms TF.C23.rename_tags
#print axioms TF.C23.reorder_siblings_props
#print axioms TF.C23.reorder_siblings_props_eq
#print axioms TF.C23.reorder_siblings_edges
#print axioms TF.C23.reorder_siblings_edges_perm
#print axioms TF.C23.reorder_siblings_edges_length
#print axioms TF.C23.frame_property
#print axioms TF.C23.Example.add_filter_in_fold_adds_row
#print axioms TF.C23.Example.partition_fails_in_optional_scope
#print axioms TF.C23.Example.partition_fails_with_tag_from_optional_scope
#print axioms TF.C23.Example.recurse_in_fold_changes_row
#print axioms TF.C23.Example.partition_example
#print axioms TF.C23.Example.recurse_example
#print axioms TF.C23.Example.optional_example
#print axioms TF.C23.Example.eq_oneof_example
#print axioms TF.C23.Example.swap_edges_example
#print axioms TF.C23.Example.param_example
