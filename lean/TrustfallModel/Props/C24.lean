/-
C24 — Schemas and compiled queries can be shared across threads.

What is proved here is the *structural* half of the property: on the type definitions extracted from
/repo's current working tree (`Generated/TypeDefs.lean`, regenerated on every run by
`harness/src/bin/autotraits_gen.rs`), the auto traits `Send` and `Sync` derive for `Schema`,
`IndexedQuery`, `IRQuery`, `FieldValue`, `Type` and `InterpretedQuery` by the language's rules
(`TF.AutoTraits.sendSync`: product over fields, standard-library rules for `Arc`, maps, cells …,
coinductive on recursive types, external leaf table for the `async_graphql_parser` AST types).  The
quantifier is the finite set of fields of the finitely many definitions; each theorem is a kernel
evaluation over the regenerated table, so adding a field of type `Rc<_>`, `Cell<_>`, `RefCell<_>`, a raw
pointer or an unknown external type anywhere under these types makes it fail.

NOT proved: anything about actual thread interleavings.  "Concurrent compilation/execution gives the
sequential results" is sampled at run time by the harness (16 threads over shared
`Arc<Schema>` / `Arc<IndexedQuery>`), labelled exploration.  rustc's own solver is cross-checked by
compile-time assertions and a differential run over probe types in `harness/src/bin/autotraits.rs`.

The same table carries C14's deterministic obligation `ir_maps_ordered`.
-/
import TrustfallModel.Generated.TypeDefs

namespace TF.C24
open TF.AutoTraits TF.Generated

/-- `Schema: Send + Sync`. -/
theorem schema_send_sync : sendSyncOf typeDefs "Schema" = (true, true) := by decide +kernel

/-- `IndexedQuery: Send + Sync` (the compiled query). -/
theorem indexed_query_send_sync : sendSyncOf typeDefs "IndexedQuery" = (true, true) := by
  decide +kernel

/-- `IRQuery: Send + Sync`. -/
theorem ir_query_send_sync : sendSyncOf typeDefs "IRQuery" = (true, true) := by decide +kernel

/-- `FieldValue: Send + Sync`. -/
theorem field_value_send_sync : sendSyncOf typeDefs "FieldValue" = (true, true) := by decide +kernel

/-- `Type: Send + Sync`. -/
theorem type_send_sync : sendSyncOf typeDefs "Type" = (true, true) := by decide +kernel

/-- `InterpretedQuery: Send + Sync` (compiled query + arguments, what the interpreter runs). -/
theorem interpreted_query_send_sync : sendSyncOf typeDefs "InterpretedQuery" = (true, true) := by
  decide +kernel

/-- The handles that are actually shared: `Arc<Schema>`, `Arc<IndexedQuery>` are `Send + Sync`. -/
theorem shared_handles_send_sync :
    sendSync typeDefs (.path "Arc" [.path "Schema" []]) = (true, true) ∧
    sendSync typeDefs (.path "Arc" [.path "IndexedQuery" []]) = (true, true) := by decide +kernel

/-- A `DataContext<V>` is exactly as thread-safe as its vertex type `V` (nothing else in it
obstructs `Send` or `Sync`). -/
theorem data_context_like_vertex :
    ∀ s y : Bool,
      ssAux typeDefs defaultFuel [] [("V", (s, y))] (.path "DataContext" [.path "V" []]) = (s, y) := by
  decide +kernel

/-- The IR definitions whose maps are iterated during compilation and execution. -/
def irTypes : List String :=
  ["IRQuery", "IRQueryComponent", "IRFold", "IRVertex", "IndexedQuery", "EdgeParameters",
   "InterpretedQuery", "DataContext"]

/-- C14's deterministic obligation: each of `IRQuery`, `IRQueryComponent`, `IRFold`, `IRVertex`,
`IndexedQuery`, `EdgeParameters`, `InterpretedQuery`, `DataContext` is present in the table, has
fields, and no field type mentions `HashMap` / `HashSet` (iteration order of the IR's maps cannot
depend on hash seeds). -/
theorem ir_maps_ordered : mapsOrdered typeDefs irTypes = true := by decide +kernel

/-- … and the same for every definition reachable from them through field types. -/
theorem ir_reachable_ordered : hashFreeFrom typeDefs irTypes = true := by decide +kernel

/-- The types whose values are shared between threads. -/
def sharedTypes : List String :=
  ["Schema", "IndexedQuery", "IRQuery", "InterpretedQuery", "FieldValue", "Type"]

/-- SUFFICIENT structural condition, stronger than the property needs: no definition reachable from
`Schema`, `IndexedQuery`, `IRQuery`, `InterpretedQuery`, `FieldValue`, `Type` contains any
interior-mutability or lock type (`Cell`, `RefCell`, `UnsafeCell`, `OnceCell`, `OnceLock`,
`LazyCell`, `LazyLock`, `Mutex`, `RwLock`, `Atomic*`, …): schemas and compiled queries are immutable
values, so (in safe code) nothing a thread does through a shared `&`/`Arc` can be observed by
another — executing concurrently cannot differ from executing sequentially *because of these
values*.  `Send + Sync` alone does not give that: a `RwLock`-guarded cache filled with a faulty
double-checked pattern is `Send + Sync` and still races.  A correctly synchronised cache would
violate this obligation while keeping the property; when this theorem stops checking, the verdict
rests on the harness's concurrency exploration (fresh compiled query per round, barrier-released
first executions) to exhibit a failing schedule, and is reported `no-failing-input-found` if it
finds none.  (The external `async_graphql_parser` AST types inside `Schema` are leaves of the table
and are not inspected.) -/
theorem ir_has_no_interior_mutability : immutableFrom typeDefs sharedTypes = true := by
  decide +kernel

/-- SUFFICIENT structural condition on global state, stronger than the property needs: every
`static` of `trustfall_core/src` compiled outside `#[cfg(test)]` (re-extracted from the source on
every run, function-local statics included) can only be written at initialisation — it is a plain
`static` (no `static mut`, no `thread_local!`, no `lazy_static!`) whose type is `OnceLock<T>` /
`LazyLock<T>` over data free of cells, locks and atomics, or plain immutable data.  With
`ir_has_no_interior_mutability` this says that compiling and executing a query reads and writes no
state shared between threads other than write-once constants, so concurrent runs cannot influence
each other.  A `static Mutex<…>` cache is `Sync` and adds no interior mutability to any IR type, yet
lets one execution observe another's data.  A correctly synchronised global cache would break this
obligation while keeping the property: when this theorem stops checking, the verdict rests on the
harness's concurrency exploration to exhibit a failing schedule (`no-failing-input-found` if it
finds none). -/
theorem statics_are_write_once : staticsWriteOnce typeDefs statics = true := by decide +kernel

/-! Non-vacuity: the derivation does say "no" — an `Rc` or a `Cell` vertex poisons a context, a
boxed iterator is not `Send`, and `Schema` (which does use `HashMap`) fails the ordered-maps check. -/
example : sendSync typeDefs (.path "DataContext" [.path "Rc" [.tuple []]]) = (false, false) := by
  decide +kernel
example : sendSync typeDefs (.path "DataContext" [.path "Cell" [.path "u8" []]]) = (true, false) := by
  decide +kernel
example : sendSync typeDefs (.path "VertexIterator" [.path "u8" []]) = (false, false) := by
  decide +kernel
example : sendSync typeDefs (.path "Arc" [.path "RefCell" [.path "IRQuery" []]]) = (false, false) := by
  decide +kernel
example : mapsOrdered typeDefs ["Schema"] = false := by decide +kernel
example : mentionsInterior (.path "Arc" [.path "RwLock" [.path "Vec" [.path "u8" []]]]) = true := by
  decide +kernel
example : mentionsInterior (.path "Option" [.path "AtomicUsize" []]) = true := by decide +kernel
example : immutableFrom typeDefs ["NoSuchType"] = false := by decide +kernel
example : statics.isEmpty = false := by decide +kernel
example : staticWriteOnce typeDefs
    { name := "LAST", kind := "static", mutable := false, src := "x.rs",
      ty := .path "Mutex" [.path "Option" [.tuple [.path "String" [], .path "Option" [.path "Regex" []]]]] }
    = false := by decide +kernel
example : staticWriteOnce typeDefs
    { name := "N", kind := "static", mutable := false, src := "x.rs", ty := .path "AtomicUsize" [] } = false := by
  decide +kernel
example : staticWriteOnce typeDefs
    { name := "M", kind := "static", mutable := true, src := "x.rs", ty := .path "u64" [] } = false := by
  decide +kernel
example : staticWriteOnce typeDefs
    { name := "T", kind := "thread_local", mutable := false, src := "x.rs", ty := .other "thread_local!" } = false := by
  decide +kernel
example : (reachable typeDefs defaultFuel irTypes).length ≥ 20 := by decide +kernel

end TF.C24

namespace TF.C14
/-- C14's obligation, re-exported. -/
theorem ir_maps_ordered : TF.AutoTraits.mapsOrdered TF.Generated.typeDefs TF.C24.irTypes = true :=
  TF.C24.ir_maps_ordered
end TF.C14

#print axioms TF.C24.schema_send_sync
#print axioms TF.C24.indexed_query_send_sync
#print axioms TF.C24.ir_query_send_sync
#print axioms TF.C24.field_value_send_sync
#print axioms TF.C24.type_send_sync
#print axioms TF.C24.interpreted_query_send_sync
#print axioms TF.C24.shared_handles_send_sync
#print axioms TF.C24.data_context_like_vertex
#print axioms TF.C24.ir_maps_ordered
#print axioms TF.C24.ir_reachable_ordered
#print axioms TF.C24.ir_has_no_interior_mutability
#print axioms TF.C24.statics_are_write_once
