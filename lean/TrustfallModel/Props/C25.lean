/-
C25 — The adapter invariant checker catches every contract violation it documents.

"The adapter invariant checker passes for any adapter that honours the adapter contract and fails for
any adapter that reorders contexts, returns a non-null property, any neighbor, or a true coercion for a
context without an active vertex, for any schema."

Statements are about `TF.Checker.check`, the model of `check_adapter_invariants`
(trustfall_core/src/interpreter/helpers/correctness.rs).  They hold for *every* schema view and for
adapters whose resolvers are *arbitrary functions* on context lists.  A violation is a violation *on
the probe the checker builds* (nine contexts without an active vertex, tagged `0 … 8`): the checker
observes nothing else.

The covered set — the points "it documents" — is explicit:
* properties: every declared property of every vertex type other than the root query type, and
  `__typename` on each of them (`propPoints`, `typename_covered`);
* edges: every edge all of whose parameters have a default value or are nullable (`edgePoints`); an edge
  with a non-nullable parameter without default is documented as *not checked*
  (`uncovered_edge_not_checked` shows the checker is indeed blind there);
* coercions: every (interface, implementer) pair (`coercionPoints`).
-/
import TrustfallModel.Proofs.Checker

namespace TF.C25
open TF TF.Checker

/-- An adapter honours the contract (as far as contexts without an active vertex are concerned): each
resolver returns one output per input context, in the input order, with a `null` property value / no
neighbours / a `false` coercion for every context whose active vertex is `None`. -/
structure Honest (A : AdapterModel) : Prop where
  property : ∀ t p ctxs, HonestOutput (· = Value.null) ctxs (A.resolveProperty t p ctxs)
  neighbors : ∀ t e ctxs, HonestOutput (· = []) ctxs (A.resolveNeighbors t e ctxs)
  coercion : ∀ t c ctxs, HonestOutput (· = false) ctxs (A.resolveCoercion t c ctxs)

/-- What the adapter returned for the probe violates the contract in a way the checker documents: a
wrong payload for some context, or the returned contexts are probe contexts but not exactly the probe
in its order (a context was lost, duplicated, or two were reordered). -/
def Violation {α : Type} (bad : α → Prop) (out : List (Ctx × α)) : Prop :=
  (∃ p ∈ out, bad p.2) ∨ ((∀ c ∈ out.map Prod.fst, c ∈ probe) ∧ out.map Prod.fst ≠ probe)

/-- The checker passes every adapter that honours the contract, for every schema. -/
theorem checker_passes (S : SchemaView) (A : AdapterModel) (h : Honest A) : check S A = true := by
  rw [check_eq_true_iff]
  refine ⟨fun pt _ => ?_, fun pt _ => ?_, fun pt _ => ?_⟩
  · exact checkOutputs_pass_of_honest (fun a ha => (badValue_eq_false_iff a).mpr ha) (h.property _ _ _)
  · exact checkOutputs_pass_of_honest (fun a ha => (badNeighbors_eq_false_iff a).mpr ha)
      (h.neighbors _ _ _)
  · exact checkOutputs_pass_of_honest (fun a ha => (badCoercion_eq_false_iff a).mpr ha)
      (h.coercion _ _ _)

/-- A non-null property value, or a lost / duplicated / reordered context, at any covered
(type, property) point — including `__typename` — makes the checker fail. -/
theorem checker_fails_property (S : SchemaView) (A : AdapterModel) (t p : Name)
    (hcov : (t, p) ∈ propPoints S)
    (hv : Violation (· ≠ Value.null) (A.resolveProperty t p probe)) : check S A = false := by
  refine check_eq_false_of_verdict (v := propVerdict A (t, p)) ?_ ?_
  · simp only [verdicts, List.mem_append, List.mem_map]
    exact Or.inl (Or.inl ⟨(t, p), hcov, rfl⟩)
  · apply checkOutputs_fail_of_violation
    rcases hv with ⟨q, hq, hb⟩ | h
    · refine Or.inl ⟨q, hq, ?_⟩
      cases hbv : badValue q.2 with
      | true => rfl
      | false => exact absurd ((badValue_eq_false_iff _).mp hbv) hb
    · exact Or.inr h

/-- Any neighbour for a context without a vertex, or a lost / duplicated / reordered context, at any
covered (type, edge) point makes the checker fail.  Covered = every parameter of the edge has a default
value or is nullable (the documented limitation is part of the statement). -/
theorem checker_fails_neighbors (S : SchemaView) (A : AdapterModel) (t e : Name)
    (hcov : (t, e) ∈ edgePoints S)
    (hv : Violation (· ≠ []) (A.resolveNeighbors t e probe)) : check S A = false := by
  refine check_eq_false_of_verdict (v := edgeVerdict A (t, e)) ?_ ?_
  · simp only [verdicts, List.mem_append, List.mem_map]
    exact Or.inl (Or.inr ⟨(t, e), hcov, rfl⟩)
  · apply checkOutputs_fail_of_violation
    rcases hv with ⟨q, hq, hb⟩ | h
    · refine Or.inl ⟨q, hq, ?_⟩
      cases hbv : badNeighbors q.2 with
      | true => rfl
      | false => exact absurd ((badNeighbors_eq_false_iff _).mp hbv) hb
    · exact Or.inr h

/-- A `true` coercion for a context without a vertex, or a lost / duplicated / reordered context, at any
(interface, implementer) pair makes the checker fail. -/
theorem checker_fails_coercion (S : SchemaView) (A : AdapterModel) (t c : Name)
    (hcov : (t, c) ∈ coercionPoints S)
    (hv : Violation (· = true) (A.resolveCoercion t c probe)) : check S A = false := by
  refine check_eq_false_of_verdict (v := coercionVerdict A (t, c)) ?_ ?_
  · simp only [verdicts, List.mem_append, List.mem_map]
    exact Or.inr ⟨(t, c), hcov, rfl⟩
  · apply checkOutputs_fail_of_violation
    rcases hv with ⟨q, hq, hb⟩ | h
    · exact Or.inl ⟨q, hq, hb⟩
    · exact Or.inr h

/-- The exact acceptance condition: the checker passes iff at every covered point every payload is the
documented one and the returned contexts carry the probe's tags in the probe's order. -/
theorem checker_passes_iff (S : SchemaView) (A : AdapterModel) :
    check S A = true ↔
      (∀ pt ∈ propPoints S, (∀ q ∈ A.resolveProperty pt.1 pt.2 probe, q.2 = Value.null) ∧
        orderKeys ((A.resolveProperty pt.1 pt.2 probe).map Prod.fst) = some probeOrder) ∧
      (∀ pt ∈ edgePoints S, (∀ q ∈ A.resolveNeighbors pt.1 pt.2 probe, q.2 = []) ∧
        orderKeys ((A.resolveNeighbors pt.1 pt.2 probe).map Prod.fst) = some probeOrder) ∧
      (∀ pt ∈ coercionPoints S, (∀ q ∈ A.resolveCoercion pt.1 pt.2 probe, q.2 = false) ∧
        orderKeys ((A.resolveCoercion pt.1 pt.2 probe).map Prod.fst) = some probeOrder) := by
  rw [check_eq_true_iff]
  simp only [propVerdict, edgeVerdict, coercionVerdict, checkOutputs_pass_iff,
    badValue_eq_false_iff, badNeighbors_eq_false_iff, badCoercion_eq_false_iff]

/-- `__typename` is probed on every vertex type the checker visits. -/
theorem typename_covered (S : SchemaView) (t : Name) (ps : List Name) (h : (t, ps) ∈ S.props) :
    (t, typenameProperty) ∈ propPoints S := by
  simp only [propPoints, List.mem_flatMap, List.mem_map, List.mem_append]
  exact ⟨(t, ps), h, typenameProperty, Or.inr (by simp), rfl⟩

/-- Every declared property is probed. -/
theorem declared_property_covered (S : SchemaView) (t p : Name) (ps : List Name)
    (h : (t, ps) ∈ S.props) (hp : p ∈ ps) : (t, p) ∈ propPoints S := by
  simp only [propPoints, List.mem_flatMap, List.mem_map, List.mem_append]
  exact ⟨(t, ps), h, p, Or.inl hp, rfl⟩

/-- An edge is probed iff it appears in the schema with every parameter defaulted or nullable. -/
theorem edge_covered_iff (S : SchemaView) (t e : Name) :
    (t, e) ∈ edgePoints S ↔ ∃ params, (t, e, params) ∈ S.edges ∧ ∀ p ∈ params, p.2 = true := by
  simp only [edgePoints, List.mem_map, List.mem_filter, edgeCheckable, List.all_eq_true]
  constructor
  · rintro ⟨⟨t', e', params⟩, ⟨hm, hall⟩, heq⟩
    cases heq
    exact ⟨params, hm, hall⟩
  · rintro ⟨params, hm, hall⟩
    exact ⟨(t, e, params), ⟨hm, hall⟩, rfl⟩

/-- The documented limitation is real: the verdict depends only on the adapter's answers at covered
points, so two adapters that differ only elsewhere (e.g. at an edge with a required parameter) get the
same verdict. -/
theorem verdict_depends_on_covered_points_only (S : SchemaView) (A B : AdapterModel)
    (hp : ∀ pt ∈ propPoints S, A.resolveProperty pt.1 pt.2 probe = B.resolveProperty pt.1 pt.2 probe)
    (he : ∀ pt ∈ edgePoints S, A.resolveNeighbors pt.1 pt.2 probe = B.resolveNeighbors pt.1 pt.2 probe)
    (hc : ∀ pt ∈ coercionPoints S, A.resolveCoercion pt.1 pt.2 probe = B.resolveCoercion pt.1 pt.2 probe) :
    check S A = check S B := by
  have hv : verdicts S A = verdicts S B := by
    simp only [verdicts]
    congr 1
    · congr 1
      · exact List.map_congr_left fun pt h => by simp only [propVerdict, hp pt h]
      · exact List.map_congr_left fun pt h => by simp only [edgeVerdict, he pt h]
    · exact List.map_congr_left fun pt h => by simp only [coercionVerdict, hc pt h]
  simp only [check, run, hv]

/-! ### The injected faults of the harness, on the model -/

/-- The model's honest adapter honours the contract. -/
theorem honestAdapter_honest : Honest honestAdapter := by
  constructor <;> intro t p ctxs <;> refine ⟨?_, ?_⟩
  all_goals simp only [honestAdapter, resolveWith, List.map_map, Function.comp_def, List.map_id']
  all_goals
    intro q hq hact
    obtain ⟨c, _, rfl⟩ := List.mem_map.mp hq
    simp only at hact
    simp [hact]

/-- The point a fault is injected at is one the checker visits. -/
def FaultCovered (S : SchemaView) (f : Fault) : Prop :=
  match f.resolver with
  | .prop => (f.typeName, f.field) ∈ propPoints S
  | .nbr => (f.typeName, f.field) ∈ edgePoints S
  | .coerce => (f.typeName, f.field) ∈ coercionPoints S

/-- Every single injected fault (wrong payload, dropped, duplicated or swapped context) at a covered
point of any schema is caught. -/
theorem injected_fault_caught (S : SchemaView) (f : Fault) (hcov : FaultCovered S f) :
    check S (faultyAdapter f) = false := by
  obtain ⟨r, t, fld, k⟩ := f
  cases r <;> simp only [FaultCovered] at hcov
  · refine check_eq_false_of_verdict (v := propVerdict (faultyAdapter ⟨.prop, t, fld, k⟩) (t, fld)) ?_ ?_
    · simp only [verdicts, List.mem_append, List.mem_map]
      exact Or.inl (Or.inl ⟨(t, fld), hcov, rfl⟩)
    · simp only [propVerdict, faultyAdapter, honestAdapter, and_self, if_true]
      cases k <;> decide
  · refine check_eq_false_of_verdict (v := edgeVerdict (faultyAdapter ⟨.nbr, t, fld, k⟩) (t, fld)) ?_ ?_
    · simp only [verdicts, List.mem_append, List.mem_map]
      exact Or.inl (Or.inr ⟨(t, fld), hcov, rfl⟩)
    · simp only [edgeVerdict, faultyAdapter, honestAdapter, and_self, if_true]
      cases k <;> decide
  · refine check_eq_false_of_verdict (v := coercionVerdict (faultyAdapter ⟨.coerce, t, fld, k⟩) (t, fld)) ?_ ?_
    · simp only [verdicts, List.mem_append, List.mem_map]
      exact Or.inr ⟨(t, fld), hcov, rfl⟩
    · simp only [coercionVerdict, faultyAdapter, honestAdapter, and_self, if_true]
      cases k <;> decide

/-- A fault injected at a point the checker does not visit (an edge with a required parameter, or a
name that is not in the schema) goes unnoticed: the verdict is that of the honest adapter. -/
theorem injected_fault_elsewhere_passes (S : SchemaView) (f : Fault) (hcov : ¬ FaultCovered S f) :
    check S (faultyAdapter f) = true := by
  rw [verdict_depends_on_covered_points_only S (faultyAdapter f) honestAdapter]
  · exact checker_passes S honestAdapter honestAdapter_honest
  all_goals
    intro pt hpt
    obtain ⟨r, t, fld, k⟩ := f
    simp only [faultyAdapter]
    split
    · rename_i h
      obtain ⟨hr, ht, hf⟩ := h
      subst hr ht hf
      exact absurd hpt hcov
    · rfl

/-- Witness of the limitation: with an edge that has a required parameter, an adapter that returns a
neighbour for a non-existent vertex there (and is honest elsewhere) still passes. -/
theorem uncovered_edge_not_checked :
    let S : SchemaView := { props := [("A", ["x"])], edges := [("A", "e", [("n", false)])], coercions := [] }
    ("A", "e") ∈ uncoveredEdgePoints S ∧
      Violation (· ≠ []) ((faultyAdapter ⟨.nbr, "A", "e", .payload⟩).resolveNeighbors "A" "e" probe) ∧
      check S (faultyAdapter ⟨.nbr, "A", "e", .payload⟩) = true := by
  refine ⟨by decide, ?_, by decide⟩
  have h : ((faultyAdapter ⟨.nbr, "A", "e", .payload⟩).resolveNeighbors "A" "e" probe).any
      (fun q => badNeighbors q.2) = true := by decide
  obtain ⟨q, hq, hb⟩ := List.any_eq_true.mp h
  exact Or.inl ⟨q, hq, fun h0 => by simp [h0, badNeighbors] at hb⟩

/-! Non-vacuity: a schema with an interface, an implementer, an edge with a defaulted parameter and
one with a required parameter; the honest adapter passes; each kind of single fault at a covered point
fails (with the assertion class the real checker reports); `__typename` is among the covered points. -/
def exampleView : SchemaView where
  props := [("Node", ["id"]), ("Leaf", ["id", "size"])]
  edges := [("Node", "next", [("k", true)]), ("Leaf", "next", [("k", true)]), ("Leaf", "req", [("n", false)])]
  coercions := [("Node", "Leaf")]

example : check exampleView honestAdapter = true := by decide
example : propPoints exampleView =
    [("Node", "id"), ("Node", "__typename"), ("Leaf", "id"), ("Leaf", "size"), ("Leaf", "__typename")] := by
  decide
example : edgePoints exampleView = [("Node", "next"), ("Leaf", "next")] := by decide
example : uncoveredEdgePoints exampleView = [("Leaf", "req")] := by decide
example : run exampleView (faultyAdapter ⟨.prop, "Leaf", "__typename", .payload⟩) = .fail .payload := by
  decide
example : run exampleView (faultyAdapter ⟨.prop, "Node", "id", .swap⟩) = .fail .order := by decide
example : run exampleView (faultyAdapter ⟨.nbr, "Leaf", "next", .drop⟩) = .fail .count := by decide
example : run exampleView (faultyAdapter ⟨.nbr, "Node", "next", .payload⟩) = .fail .payload := by decide
example : run exampleView (faultyAdapter ⟨.coerce, "Node", "Leaf", .dup⟩) = .fail .count := by decide
example : run exampleView (faultyAdapter ⟨.coerce, "Node", "Leaf", .payload⟩) = .fail .payload := by decide
example : run exampleView (faultyAdapter ⟨.nbr, "Leaf", "req", .payload⟩) = .pass := by decide
/-- the hypotheses of `checker_fails_property` are satisfiable by a reordering adapter: it returns
probe contexts only, but not the probe -/
example : Violation (· ≠ Value.null)
    ((faultyAdapter ⟨.prop, "Node", "id", .swap⟩).resolveProperty "Node" "id" probe) := by
  have e : ((faultyAdapter ⟨.prop, "Node", "id", .swap⟩).resolveProperty "Node" "id" probe).map Prod.fst
      = swapAt 3 probe := by rfl
  refine Or.inr ⟨?_, ?_⟩
  · rw [e]; exact fun c hc => mem_of_mem_swapAt 3 probe c hc
  · rw [e]; intro h
    have := congrArg orderKeys h
    revert this; decide
/-- a context stack tampered with is also caught (`get_context_order_values` panics) -/
example : checkOutputs badValue (probe.map fun c => ({ c with values := c.values ++ c.values }, Value.null))
    = .fail .ctxshape := by decide

end TF.C25

#print axioms TF.C25.checker_passes
#print axioms TF.C25.checker_fails_property
#print axioms TF.C25.checker_fails_neighbors
#print axioms TF.C25.checker_fails_coercion
#print axioms TF.C25.checker_passes_iff
#print axioms TF.C25.typename_covered
#print axioms TF.C25.declared_property_covered
#print axioms TF.C25.edge_covered_iff
#print axioms TF.C25.verdict_depends_on_covered_points_only
#print axioms TF.C25.honestAdapter_honest
#print axioms TF.C25.injected_fault_caught
#print axioms TF.C25.injected_fault_elsewhere_passes
#print axioms TF.C25.uncovered_edge_not_checked
