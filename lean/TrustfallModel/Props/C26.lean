/-
C26 — Generated adapter stubs compile for every valid schema.

"For any valid schema whose properties use the built-in scalar types, the generated adapter stub is valid
Rust that compiles (including its tests) against the trustfall crate."

What is proved here is the *naming logic* of `trustfall_stubgen` (model: `Model/Stubgen.lean`, the code
with the repairs R1–R4): which item names the generator derives from the schema's type / property /
edge / parameter / entry-point names, that they are identifiers, and that its three conflict checks make
the generated names pairwise distinct in every Rust namespace.

TRUSTED GAP (not modelled, stated in the evidence): that rustc accepts the `quote!` templates once every
spliced name is a distinct, usable identifier.  That part is *sampled* by the harness' compile oracle
(`cargo test --no-run --offline` on generated stubs).

What is still open on the code (witness theorems below, known findings F-C26-3, -7, -8):
* a parameter of the built-in scalar type `ID` makes the generator panic (`unimplemented!`);
* a parameter identifier can collide with a binding of the templates (`contexts` on an edge,
  `_resolve_info`, `resolve_info`, `parameters` followed by another parameter) or — after escaping — with
  another parameter of the same edge (`type` and `type_`): `paramBindingClash` is the exact list;
* a generated item can shadow an import of the generated file (module `trustfall`, function
  `resolve_neighbors_with`).

History (fixed by R1–R4; the witnesses were theorems of the previous revision of this file):
* F-26: parameter names were spliced verbatim — `e(match: Int)` made the generator panic
  (`parameter_keyword_witness`); now `names_are_identifiers_parameter`.
* F-C26-2: `escaped_rust_name` lacked `abstract become box do final macro override priv typeof unsized
  virtual yield` and `_` — edge `yield`, type `Do` with edges, type `_` made it panic
  (`item_reserved_keyword_witness`, `variant_underscore_witness`); now `names_are_identifiers_item`,
  `names_are_identifiers_variant`, `no_pretty_print_panic`.
* F-C26-4: the vertex check compared snake-cased names only — `fOO` / `FOO` passed with two variants `FOO`
  (`variant_collision_witness`); now `variant_names_distinct`, `conversion_def_names_distinct`.
* F-C26-5: entry points were not checked — `fooBar` / `foo_bar` (`entrypoint_collision_witness`); now
  `entrypoint_names_distinct`, `checks_catch_entrypoint_collisions`.
* F-C26-6: the resolvers called `as_<stubgen snake>()` — `UserID` gave `as_user_id` vs `as_user_i_d`
  (`conversion_mismatch_witness`); now `conversion_names_agree`.
-/
import TrustfallModel.Proofs.Stubgen

namespace TF.C26
open TF.Stubgen

/-! ## 1. Generated names are identifiers, at every name position -/

/-- Position "property resolver of a type" (`resolve_<snake>_property`). -/
theorem names_are_identifiers_property_fn (n : Name) (h : validGraphQLName n = true) :
    usableIdent (propertyFnName n) = true := by
  apply usableIdent_intro
  · exact identShape_wrap (pre := pfxResolve) (suf := sfxProperty) (by decide) (by decide)
      (all_continue_of_identShape (snake_identShape h))
  · apply not_rejected_of_long
    simp only [propertyFnName, List.length_append]
    have h1 : pfxResolve.length = 8 := by decide
    have h2 : sfxProperty.length = 9 := by decide
    omega

/-- Position "edge resolver of a type" (`resolve_<snake>_edge`), as called and as defined. -/
theorem names_are_identifiers_type_edge_fn (n : Name) (h : validGraphQLName n = true) :
    usableIdent (typeEdgeFnName n) = true ∧ usableIdent (typeEdgeFnNameDef n) = true := by
  have key : ∀ x : Name, identShape x = true → usableIdent (pfxResolve ++ x ++ sfxEdge) = true := by
    intro x hx
    apply usableIdent_intro
    · exact identShape_wrap (pre := pfxResolve) (suf := sfxEdge) (by decide) (by decide)
        (all_continue_of_identShape hx)
    · apply not_rejected_of_long
      simp only [List.length_append]
      have h1 : pfxResolve.length = 8 := by decide
      have h2 : sfxEdge.length = 5 := by decide
      omega
  exact ⟨key _ (snake_identShape h), key _ (snake_identShape (snake_identShape h))⟩

/-- adapter_impl.rs calls the per-type edge resolver under the name edges.rs defines it with (the latter
snake-cases twice). -/
theorem edge_fn_names_agree (n : Name) : typeEdgeFnNameDef n = typeEdgeFnName n := by
  simp [typeEdgeFnNameDef, typeEdgeFnName, snake_idempotent]

/-- Position "conversion method called by the edge resolvers" (`variant_conversion_fn_name`). -/
theorem names_are_identifiers_conversion (n : Name) (h : validGraphQLName n = true) :
    usableIdent (conversionCallName n) = true := by
  apply usableIdent_intro
  · have := identShape_wrap (pre := pfxAs) (suf := []) (by decide) (by decide)
      (conversionGo_all_continue '_' _ (all_continue_of_identShape (variant_identShape h)))
    simpa [conversionCallName, variantConversionFnName] using this
  · cases hc : synReject.contains (conversionCallName n) with
    | false => rfl
    | true =>
      have := synReject_no_as_prefix _ (by simpa using hc)
      exact absurd (by simp [conversionCallName, variantConversionFnName, pfxAs]) this

/-- Position "`Vertex` variant of a type" (`escaped_rust_name(upper_case_variant_name(name))`). -/
theorem names_are_identifiers_variant (n : Name) (h : validGraphQLName n = true) :
    usableIdent (variantName n) = true := by
  apply usableIdent_intro (variant_identShape h)
  cases n with
  | nil => simp [validGraphQLName, identShape] at h
  | cons c cs => exact escape_not_rejected _

/-- Positions "edge resolver function", "entry point function", "per-type module"
(`escaped_rust_name(to_lower_snake_case(name))`). -/
theorem names_are_identifiers_item (n : Name) (h : validGraphQLName n = true) :
    usableIdent (itemFnName n) = true ∧ usableIdent (edgeModName n) = true := by
  have : usableIdent (escapedRustName (toLowerSnakeCase n)) = true :=
    usableIdent_intro (escape_identShape (snake_identShape h)) (escape_not_rejected _)
  exact ⟨this, this⟩

/-- Position "edge / entry point parameter" (`escaped_rust_name(parameter_name)`): always a usable
identifier.  What remains excluded for parameters is not about being an identifier: the identifier may
collide with a binding of the template or with another parameter — exactly `paramBindingClash`
(F-C26-7, see `parameter_binding_witnesses`). -/
theorem names_are_identifiers_parameter (n : Name) (h : validGraphQLName n = true) :
    usableIdent (paramIdent n) = true :=
  usableIdent_intro (escape_identShape h) (escape_not_rejected _)

/-- every name of the schema is a GraphQL name -/
def validNames (S : Schema) : Prop :=
  (∀ t ∈ S.types, validGraphQLName t.name = true ∧
    ∀ e ∈ t.edges, validGraphQLName e.name = true ∧ ∀ p ∈ e.params, validGraphQLName p.name = true) ∧
  (∀ e ∈ S.entrypoints, validGraphQLName e.name = true ∧ ∀ p ∈ e.params, validGraphQLName p.name = true)

/-- Every identifier spliced into the templates is one `syn` accepts. -/
theorem spliced_idents_usable (S : Schema) (hv : validNames S) : ∀ n ∈ splicedIdents S, usableIdent n = true := by
  obtain ⟨ht, he⟩ := hv
  intro n hn
  simp only [splicedIdents, List.mem_append, List.mem_map, List.mem_flatMap, List.mem_cons] at hn
  rcases hn with (⟨t, htm, rfl⟩ | ⟨e, hem, hn⟩) | ⟨t, htm, hn⟩
  · exact names_are_identifiers_variant _ (ht t htm).1
  · rcases hn with rfl | ⟨p, hp, rfl⟩
    · exact (names_are_identifiers_item _ (he e hem).1).1
    · exact names_are_identifiers_parameter _ ((he e hem).2 p hp)
  · rcases hn with hn | hn
    · split at hn
      · simp at hn
      · simp only [List.mem_singleton] at hn; subst hn
        exact names_are_identifiers_property_fn _ (ht t htm).1
    · split at hn
      · simp at hn
      · simp only [List.mem_cons, List.mem_flatMap, List.mem_map] at hn
        rcases hn with rfl | rfl | rfl | ⟨e, hem, hn⟩
        · exact (names_are_identifiers_type_edge_fn _ (ht t htm).1).2
        · exact (names_are_identifiers_item _ (ht t htm).1).2
        · exact names_are_identifiers_conversion _ (ht t htm).1
        · rcases hn with rfl | ⟨p, hp, rfl⟩
          · exact (names_are_identifiers_item _ ((ht t htm).2 e hem).1).1
          · exact names_are_identifiers_parameter _ (((ht t htm).2 e hem).2 p hp)

/-- For a schema with GraphQL names the generator never panics while pretty-printing ("not valid Rust"):
F-26 and F-C26-2 are gone. -/
theorem no_pretty_print_panic (S : Schema) (hv : validNames S) : stubCheck S ≠ .panicPrettyPrint := by
  have hall : (splicedIdents S).all usableIdent = true := List.all_eq_true.mpr (spliced_idents_usable S hv)
  unfold stubCheck
  split
  · simp
  · split
    · simp
    · split
      · simp
      · split
        · simp
        · simp [hall]

/-- Still open (F-C26-3): a parameter of the built-in scalar type `ID` makes the generator panic. -/
theorem parameter_type_id_witness :
    stubCheck { entrypoints := [⟨"A".toList, []⟩],
                types := [⟨"A".toList, ["x".toList], [⟨"e".toList, [⟨"k".toList, "ID".toList⟩]⟩]⟩] }
      = .panicUnsupportedType := by decide

/-! ## 2. The conflict checks -/

/-- `FooBar` and `foo_bar` (also `fooBar`) collide after snake-casing. -/
theorem snake_collision_witness :
    toLowerSnakeCase "FooBar".toList = toLowerSnakeCase "foo_bar".toList ∧
    toLowerSnakeCase "fooBar".toList = toLowerSnakeCase "foo_bar".toList ∧
    "FooBar".toList ≠ "foo_bar".toList := by decide

/-- The vertex check refuses any two vertex types whose snake-cased names coincide … -/
theorem checks_catch_collisions (S : Schema) (i j : Nat) (hi : i < S.types.length) (hj : j < S.types.length)
    (hij : i ≠ j) (h : toLowerSnakeCase S.types[i].name = toLowerSnakeCase S.types[j].name) :
    checksPass S = false := by
  cases hc : checksPass S with
  | false => rfl
  | true =>
    have hn := (vertexKeys_components ((checksPass_iff S).mp hc).1).1
    rw [List.map_map] at hn
    have := nodup_getElem_inj hn (i := i) (j := j) (by simpa using hi) (by simpa using hj)
      (by simp [conflictKey, h])
    exact absurd this hij

/-- … or whose `Vertex` variants coincide (names differing in the case of the first letter only) … -/
theorem checks_catch_variant_collisions (S : Schema) (i j : Nat) (hi : i < S.types.length)
    (hj : j < S.types.length) (hij : i ≠ j) (h : variantName S.types[i].name = variantName S.types[j].name) :
    checksPass S = false := by
  cases hc : checksPass S with
  | false => rfl
  | true =>
    have hn := (vertexKeys_components ((checksPass_iff S).mp hc).1).2.1
    rw [List.map_map] at hn
    have := nodup_getElem_inj hn (i := i) (j := j) (by simpa using hi) (by simpa using hj)
      (by simp [h])
    exact absurd this hij

/-- … the field check any two fields (edges and properties together) of one vertex type … -/
theorem checks_catch_field_collisions (S : Schema) (t : VType) (ht : t ∈ S.types) (i j : Nat)
    (hi : i < (fieldNames t).length) (hj : j < (fieldNames t).length) (hij : i ≠ j)
    (h : toLowerSnakeCase (fieldNames t)[i] = toLowerSnakeCase (fieldNames t)[j]) :
    checksPass S = false := by
  cases hc : checksPass S with
  | false => rfl
  | true =>
    have hn := ((checksPass_iff S).mp hc).2.1 t ht
    have := nodup_getElem_inj hn (i := i) (j := j) (by simpa using hi) (by simpa using hj)
      (by simp [conflictKey, h])
    exact absurd this hij

/-- … and the entry point check any two entry points. -/
theorem checks_catch_entrypoint_collisions (S : Schema) (i j : Nat) (hi : i < S.entrypoints.length)
    (hj : j < S.entrypoints.length) (hij : i ≠ j)
    (h : toLowerSnakeCase S.entrypoints[i].name = toLowerSnakeCase S.entrypoints[j].name) :
    checksPass S = false := by
  cases hc : checksPass S with
  | false => rfl
  | true =>
    have hn := ((checksPass_iff S).mp hc).2.2
    have := nodup_getElem_inj hn (i := i) (j := j) (by simpa using hi) (by simpa using hj)
      (by simp [conflictKey, h])
    exact absurd this hij

/-- The `as_…()` method an edge resolver calls is the one the derive macro defines. -/
theorem conversion_names_agree (t : Name) : conversionCallName t = conversionDefName t := by
  simp [conversionCallName, conversionDefName, variantConversionFnName, deriveSnake,
    conversionGo_eq_deriveSnakeGo]

/-- The `Vertex` variants are pairwise distinct when the checks pass. -/
theorem variant_names_distinct (S : Schema) (h : checksPass S = true) :
    (S.types.map fun t => variantName t.name).Nodup := by
  have := (vertexKeys_components ((checksPass_iff S).mp h).1).2.1
  simpa [List.map_map, Function.comp_def] using this

/-- The conversion methods the derive macro generates are pairwise distinct when the checks pass. -/
theorem conversion_def_names_distinct (S : Schema) (h : checksPass S = true) :
    (S.types.map fun t => conversionDefName t.name).Nodup := by
  have := (vertexKeys_components ((checksPass_iff S).mp h).1).2.2
  simpa [List.map_map, Function.comp_def, conversion_names_agree] using this

/-- The entry point functions are pairwise distinct when the checks pass. -/
theorem entrypoint_names_distinct (S : Schema) (h : checksPass S = true) :
    (S.entrypoints.map fun e => itemFnName e.name).Nodup :=
  ((checksPass_iff S).mp h).2.2

/-- When the checks pass, the generated item names are pairwise distinct in each Rust namespace: the
per-type property resolvers (properties.rs), the per-type edge resolvers and the per-type modules
(edges.rs), inside each type's module the per-edge functions, the `Vertex` variants (vertex.rs), the
derive-generated conversion methods, and the entry point functions (entrypoints.rs). -/
theorem no_conflict_names_distinct (S : Schema) (h : checksPass S = true) :
    (S.types.map fun t => propertyFnName t.name).Nodup ∧
    (S.types.map fun t => typeEdgeFnName t.name).Nodup ∧
    (S.types.map fun t => edgeModName t.name).Nodup ∧
    (∀ t ∈ S.types, (t.edges.map fun e => itemFnName e.name).Nodup) ∧
    (S.types.map fun t => variantName t.name).Nodup ∧
    (S.types.map fun t => conversionDefName t.name).Nodup ∧
    (S.entrypoints.map fun e => itemFnName e.name).Nodup := by
  obtain ⟨hv, hf, _⟩ := (checksPass_iff S).mp h
  have hk : (S.types.map fun t => conflictKey t.name).Nodup := by
    simpa [List.map_map, Function.comp_def] using (vertexKeys_components hv).1
  refine ⟨?_, ?_, hk, ?_, variant_names_distinct S h, conversion_def_names_distinct S h,
    entrypoint_names_distinct S h⟩
  · exact nodup_map_of_nodup_map (f := fun t => conflictKey t.name)
      (fun x y hxy => snake_eq_of_key_ne (wrap_injective hxy)) hk
  · exact nodup_map_of_nodup_map (f := fun t => conflictKey t.name)
      (fun x y hxy => snake_eq_of_key_ne (wrap_injective hxy)) hk
  · intro t ht
    have := hf t ht
    simp only [fieldNames, List.map_append, List.map_map] at this
    exact (List.nodup_append.mp this).1

/-! ## 3. What is still open at the name level -/

/-- Still open (F-C26-7): each way a parameter identifier can clash, on a one-edge schema; the generator
succeeds (`stubCheck = ok`) and the model predicts a compile error. -/
theorem parameter_binding_witnesses :
    let S (ps : List Name) : Schema :=
      { entrypoints := [⟨"A".toList, []⟩],
        types := [⟨"A".toList, ["x".toList], [⟨"e".toList, ps.map fun p => ⟨p, "Int".toList⟩⟩]⟩] }
    (∀ ps ∈ [["contexts".toList], ["_resolve_info".toList], ["resolve_info".toList],
              ["parameters".toList, "z".toList], ["type".toList, "type_".toList]],
        stubCheck (S ps) = .ok ∧ compileCauses (S ps) = [.paramBinding]) ∧
    -- … while a keyword parameter, `_`, and a trailing `parameters` are fine now
    predictCompiles (S ["match".toList, "self".toList, "_".toList, "parameters".toList]) = true := by
  decide

/-- Still open (F-C26-8): a module called `trustfall`, an edge function called `resolve_neighbors_with`. -/
theorem import_collision_witnesses :
    compileCauses { entrypoints := [⟨"A".toList, []⟩],
                    types := [⟨"Trustfall".toList, ["x".toList], [⟨"e".toList, []⟩]⟩, ⟨"A".toList, ["x".toList], []⟩] }
      = [.importCollision] ∧
    compileCauses { entrypoints := [⟨"A".toList, []⟩],
                    types := [⟨"A".toList, ["x".toList], [⟨"resolve_neighbors_with".toList, []⟩]⟩] }
      = [.importCollision] := by decide

/-! ## 4. What the model's `compiles` prediction guarantees -/

/-- Whenever the model predicts that a stub compiles, every name-level obligation holds: the generator
does not refuse or panic, every spliced item name and parameter name is accepted by `syn`, the generated
names are pairwise distinct in every namespace, every conversion method that is called is defined, and no
parameter list clashes with the templates' bindings. -/
theorem predictCompiles_sound (S : Schema) (h : predictCompiles S = true) :
    stubCheck S = .ok ∧ checksPass S = true ∧
    (∀ n ∈ splicedIdents S, usableIdent n = true) ∧
    (S.types.map fun t => propertyFnName t.name).Nodup ∧
    (S.types.map fun t => typeEdgeFnName t.name).Nodup ∧
    (S.types.map fun t => edgeModName t.name).Nodup ∧
    (∀ t ∈ S.types, (t.edges.map fun e => itemFnName e.name).Nodup) ∧
    (S.types.map fun t => variantName t.name).Nodup ∧
    (S.types.map fun t => conversionDefName t.name).Nodup ∧
    (S.entrypoints.map fun e => itemFnName e.name).Nodup ∧
    (∀ t ∈ S.types, conversionCallName t.name = conversionDefName t.name) ∧
    (∀ e ∈ S.entrypoints, paramBindingClash false e.params = false) ∧
    (∀ t ∈ S.types, ∀ e ∈ t.edges, paramBindingClash true e.params = false) := by
  simp only [predictCompiles, Bool.and_eq_true, List.isEmpty_iff] at h
  obtain ⟨hok, hcauses⟩ := h
  have hok' : stubCheck S = .ok := by
    cases hs : stubCheck S <;> simp [hs] at hok
    rfl
  have hcp : checksPass S = true ∧ (∀ n ∈ splicedIdents S, usableIdent n = true) := by
    unfold stubCheck at hok'
    cases hvc : vertexConflict S with
    | some p => obtain ⟨a, b⟩ := p; simp [hvc] at hok'
    | none =>
      cases hfc : fieldConflict S with
      | some p => obtain ⟨t, a, b⟩ := p; simp [hvc, hfc] at hok'
      | none =>
        cases hec : entrypointConflict S with
        | some p => obtain ⟨a, b⟩ := p; simp [hvc, hfc, hec] at hok'
        | none =>
          simp only [hvc, hfc, hec] at hok'
          refine ⟨by simp [checksPass, hvc, hfc, hec], ?_⟩
          split at hok'
          · cases hok'
          · split at hok'
            · cases hok'
            · rename_i _ h2
              simp only [Bool.not_eq_true', Bool.not_eq_false] at h2
              exact List.all_eq_true.mp h2
  obtain ⟨hc, hid⟩ := hcp
  obtain ⟨d1, d2, d3, d4, d5, d6, d7⟩ := no_conflict_names_distinct S hc
  simp only [compileCauses, List.append_eq_nil_iff] at hcauses
  obtain ⟨c1, _⟩ := hcauses
  have hb : (S.entrypoints.any (fun e => paramBindingClash false e.params)
      || S.types.any (fun t => t.edges.any fun e => paramBindingClash true e.params)) = false := by
    cases hx : (S.entrypoints.any (fun e => paramBindingClash false e.params)
      || S.types.any (fun t => t.edges.any fun e => paramBindingClash true e.params)) <;> simp [hx] at c1
    rfl
  rw [Bool.or_eq_false_iff] at hb
  refine ⟨hok', hc, hid, d1, d2, d3, d4, d5, d6, d7, fun t _ => conversion_names_agree t.name, ?_, ?_⟩
  · intro e he
    have := List.any_eq_false.mp hb.1 e he
    simpa using this
  · intro t ht e he
    have := List.any_eq_false.mp hb.2 t ht
    have h2 : (t.edges.any fun e => paramBindingClash true e.params) = false := by simpa using this
    have := List.any_eq_false.mp h2 e he
    simpa using this

/-! Non-vacuity: the prediction is `true` on an ordinary schema and on the former witnesses of F-26,
F-C26-2 and F-C26-6; the checks refuse the former witnesses of F-C26-4 and F-C26-5 and the documented
collisions, in the documented order. -/
def exampleSchema : Schema where
  entrypoints := [⟨"FrontPage".toList, []⟩, ⟨"User".toList, [⟨"name".toList, "String!".toList⟩]⟩]
  types := [
    ⟨"Item".toList, ["id".toList, "byUsername".toList], [⟨"byUser".toList, []⟩, ⟨"type".toList, []⟩]⟩,
    ⟨"User".toList, ["id".toList], [⟨"submitted".toList, [⟨"max".toList, "Int".toList⟩]⟩]⟩]

example : predictCompiles exampleSchema = true := by decide
/-- the former witnesses of F-26, F-C26-2 and F-C26-6 in one schema -/
def formerWitnesses : Schema where
  entrypoints := [⟨"A".toList, []⟩, ⟨"final".toList, []⟩]
  types := [
    ⟨"A".toList, ["x".toList], [⟨"e".toList, [⟨"match".toList, "Int".toList⟩]⟩, ⟨"yield".toList, []⟩]⟩,
    ⟨"Do".toList, ["x".toList], [⟨"e".toList, []⟩]⟩,
    ⟨"_".toList, ["x".toList], []⟩,
    ⟨"UserID".toList, ["x".toList], [⟨"e".toList, []⟩]⟩]

example : predictCompiles formerWitnesses = true := by decide
example : conversionCallName "UserID".toList = "as_user_i_d".toList := by decide
example : paramIdent "match".toList = "match_".toList ∧ paramIdent "_".toList = "__".toList := by decide
example : itemFnName "type".toList = "type_".toList ∧ itemFnName "yield".toList = "yield_".toList := by decide
example : stubCheck { entrypoints := [], types := [⟨"fOO".toList, ["x".toList], []⟩, ⟨"FOO".toList, ["x".toList], []⟩] }
    = .conflictVertex "FOO".toList "fOO".toList := by decide
example : stubCheck { entrypoints := [], types := [⟨"FOo".toList, ["x".toList], []⟩, ⟨"F_oo".toList, ["x".toList], []⟩] }
    = .conflictVertex "FOo".toList "F_oo".toList := by decide
example : stubCheck { entrypoints := [⟨"fooBar".toList, []⟩, ⟨"foo_bar".toList, []⟩], types := [⟨"A".toList, ["x".toList], []⟩] }
    = .conflictEntrypoint "fooBar".toList "foo_bar".toList := by decide
example : stubCheck { entrypoints := [], types := [⟨"Type".toList, [], []⟩, ⟨"Type_".toList, [], []⟩] }
    = .conflictVertex "Type".toList "Type_".toList := by decide
example : stubCheck { entrypoints := [], types := [⟨"Type".toList, ["Type".toList], [⟨"Type_".toList, []⟩]⟩] }
    = .conflictField "Type".toList "Type_".toList "Type".toList := by decide

end TF.C26

#print axioms TF.C26.names_are_identifiers_property_fn
#print axioms TF.C26.names_are_identifiers_type_edge_fn
#print axioms TF.C26.edge_fn_names_agree
#print axioms TF.C26.names_are_identifiers_conversion
#print axioms TF.C26.names_are_identifiers_variant
#print axioms TF.C26.names_are_identifiers_item
#print axioms TF.C26.names_are_identifiers_parameter
#print axioms TF.C26.spliced_idents_usable
#print axioms TF.C26.no_pretty_print_panic
#print axioms TF.C26.parameter_type_id_witness
#print axioms TF.C26.snake_collision_witness
#print axioms TF.C26.checks_catch_collisions
#print axioms TF.C26.checks_catch_variant_collisions
#print axioms TF.C26.checks_catch_field_collisions
#print axioms TF.C26.checks_catch_entrypoint_collisions
#print axioms TF.C26.conversion_names_agree
#print axioms TF.C26.variant_names_distinct
#print axioms TF.C26.conversion_def_names_distinct
#print axioms TF.C26.entrypoint_names_distinct
#print axioms TF.C26.no_conflict_names_distinct
#print axioms TF.C26.parameter_binding_witnesses
#print axioms TF.C26.import_collision_witnesses
#print axioms TF.C26.predictCompiles_sound
