/-
C26 — Generated adapter stubs compile for every valid schema.

"For any valid schema whose properties use the built-in scalar types, the generated adapter stub is valid
Rust that compiles (including its tests) against the trustfall crate."

What is proved here is the *naming logic* of `trustfall_stubgen` (model: `Model/Stubgen.lean`): which item
names the generator derives from the schema's type / property / edge / parameter / entry-point names, that
they are identifiers, that its two conflict checks make the names it is responsible for pairwise distinct,
and where — position by position — this fails on the pinned code.

TRUSTED GAP (not modelled, stated in the evidence): that rustc accepts the `quote!` templates once every
spliced name is a distinct, usable identifier.  That part is *sampled* by the harness' compile oracle
(`cargo test --no-run --offline` on generated stubs).

The full property is violated by the pinned code at several name positions; each such position has the full
statement in a comment, a `_partial` theorem under an explicit decidable guard, and a witness theorem:
* parameter names are spliced verbatim (F-26: a parameter called `match` → generator panics);
* `escaped_rust_name` lacks the reserved keywords (`abstract become box do final macro override priv typeof
  unsized virtual yield`) and cannot help with `_`;
* `Vertex` variants are derived with `upper_case_variant_name` but checked with `to_lower_snake_case`
  (`fOO` / `FOO`);
* entry point functions are not conflict-checked at all (`fooBar` / `foo_bar`);
* the edge resolvers call `as_<stubgen snake>()` while the derive macro defines `as_<derive snake>()`
  (`UserID`);
* parameters may collide with bindings of the templates, items with their imports.
-/
import TrustfallModel.Proofs.Stubgen

namespace TF.C26
open TF.Stubgen

/-! ## 1. Generated names are identifiers, per name position -/

/-- Position "property resolver of a type" (`resolve_<snake>_property`): always a usable identifier. -/
theorem names_are_identifiers_property_fn (n : Name) (h : validGraphQLName n = true) :
    usableIdent (propertyFnName n) = true := by
  apply usableIdent_intro
  · exact identShape_wrap (pre := pfxResolve) (suf := sfxProperty) (by decide) (by decide)
      (all_continue_of_identShape (snake_identShape h))
  · apply not_rejected_of_long
    simp only [propertyFnName, List.length_append]
    have h1 : pfxResolve.length = 8 := by decide
    have h2 : sfxProperty.length = 9 := by decide
    omega

/-- Position "edge resolver of a type" (`resolve_<snake>_edge`), as called and as defined: always a usable
identifier. -/
theorem names_are_identifiers_type_edge_fn (n : Name) (h : validGraphQLName n = true) :
    usableIdent (typeEdgeFnName n) = true ∧ usableIdent (typeEdgeFnNameDef n) = true := by
  have key : ∀ x : Name, identShape x = true → usableIdent (pfxResolve ++ x ++ sfxEdge) = true := by
    intro x hx
    apply usableIdent_intro
    · exact identShape_wrap (pre := pfxResolve) (suf := sfxEdge) (by decide) (by decide)
        (all_continue_of_identShape hx)
    · apply not_rejected_of_long
      simp only [List.length_append]
      have h1 : pfxResolve.length = 8 := by decide
      have h2 : sfxEdge.length = 5 := by decide
      omega
  exact ⟨key _ (snake_identShape h), key _ (snake_identShape (snake_identShape h))⟩

/-- adapter_impl.rs calls the per-type edge resolver under the name edges.rs defines it with (the latter
snake-cases twice). -/
theorem edge_fn_names_agree (n : Name) : typeEdgeFnNameDef n = typeEdgeFnName n := by
  simp [typeEdgeFnNameDef, typeEdgeFnName, snake_idempotent]

/-- Position "conversion method called by the edge resolvers" (`as_<snake of the variant>`): always a
usable identifier.  (Whether the derive macro *defines* a method of that name is
`conversion_names_agree_partial`.) -/
theorem names_are_identifiers_conversion (n : Name) (h : validGraphQLName n = true) :
    usableIdent (conversionCallName n) = true := by
  simp only [usableIdent, Bool.and_eq_true, Bool.not_eq_true']
  constructor
  · have := identShape_wrap (pre := pfxAs) (suf := []) (by decide) (by decide)
      (all_continue_of_identShape (snake_identShape (variant_identShape h)))
    simpa [conversionCallName] using this
  · cases hc : synReject.contains (conversionCallName n) with
    | false => rfl
    | true =>
      have := synReject_no_as_prefix _ (by simpa using hc)
      exact absurd (by simp [conversionCallName, pfxAs]) this

/-
Full statement (false on the pinned code):
  `validGraphQLName n → usableIdent (variantName n)`.
`_` is a GraphQL name, `upper_case_variant_name` and `escaped_rust_name` leave it alone, and `_` is not an
identifier.
-/
/-- Position "`Vertex` variant of a type": a usable identifier unless the type is called `_`. -/
theorem names_are_identifiers_variant_partial (n : Name) (h : validGraphQLName n = true) (hn : n ≠ ['_']) :
    usableIdent (variantName n) = true := by
  simp only [usableIdent, Bool.and_eq_true, Bool.not_eq_true']
  refine ⟨variant_identShape h, ?_⟩
  cases n with
  | nil => simp [validGraphQLName, identShape] at h
  | cons c cs =>
    simp only [variantName, upperCaseVariantName]
    apply escape_not_rejected
    cases hu : unescapedReserved.contains (toAsciiUpper c :: cs) with
    | false => rfl
    | true =>
      have hm : (toAsciiUpper c :: cs) ∈ unescapedReserved := by simpa using hu
      have := List.all_eq_true.mp unescapedReserved_heads _ hm
      simp only [Bool.or_eq_true, beq_iff_eq] at this
      rcases this with h1 | h1
      · -- the variant is `_`: then so is the type name
        have hc : toAsciiUpper c = '_' := by simpa using (List.cons.inj h1).1
        have hcs : cs = [] := (List.cons.inj h1).2
        have : c = '_' := by
          cases hl : isLower c with
          | false => rw [toAsciiUpper_of_not_lower hl] at hc; exact hc
          | true =>
            have h2 := toNat_toAsciiUpper_of_lower hl
            have h3 := (isLower_iff c).mp hl
            rw [hc] at h2
            have : ('_' : Char).toNat = 95 := by decide
            omega
        exact absurd (by rw [this, hcs]) hn
      · rw [isLower_toAsciiUpper] at h1; cases h1

theorem variant_underscore_witness :
    validGraphQLName ['_'] = true ∧ usableIdent (variantName ['_']) = false := by decide

/-
Full statement (false on the pinned code):
  `validGraphQLName n → usableIdent (itemFnName n)`  (edge function, entry point function, per-type module).
-/
/-- Positions "edge resolver function", "entry point function", "per-type module" (all are
`escaped_rust_name(to_lower_snake_case(name))`): a usable identifier unless the snake-cased name is `_` or
one of the reserved keywords missing from `escaped_rust_name`'s table. -/
theorem names_are_identifiers_item_partial (n : Name) (h : validGraphQLName n = true)
    (hg : unescapedReserved.contains (toLowerSnakeCase n) = false) :
    usableIdent (itemFnName n) = true ∧ usableIdent (edgeModName n) = true := by
  have : usableIdent (escapedRustName (toLowerSnakeCase n)) = true := by
    simp only [usableIdent, Bool.and_eq_true, Bool.not_eq_true']
    exact ⟨escape_identShape (snake_identShape h), escape_not_rejected hg⟩
  exact ⟨this, this⟩

/-- `yield` as an edge name, `Do` as the name of a type with edges: valid GraphQL names whose generated
function / module name is a reserved keyword. -/
theorem item_reserved_keyword_witness :
    validGraphQLName "yield".toList = true ∧ usableIdent (itemFnName "yield".toList) = false ∧
    validGraphQLName "Do".toList = true ∧ usableIdent (edgeModName "Do".toList) = false := by decide

/-
Full statement (false on the pinned code — F-26):
  `validGraphQLName n → usableParamIdent b n`  (parameter names are spliced into the templates verbatim).
-/
/-- Position "edge / entry point parameter": usable when the name is not a keyword. -/
theorem names_are_identifiers_parameter_partial (n : Name) (b : Bool) (h : validGraphQLName n = true)
    (hg : synReject.contains n = false) : usableParamIdent b n = true := by
  simp only [usableParamIdent, Bool.and_eq_true, Bool.or_eq_true, Bool.not_eq_true']
  exact ⟨h, Or.inl (Or.inl hg)⟩

/-- The schema `type A { x: Int  e(match: Int): [A!] }` with entry point `A`. -/
def f26Schema : Schema where
  entrypoints := [⟨"A".toList, []⟩]
  types := [⟨"A".toList, ["x".toList], [⟨"e".toList, [⟨"match".toList, "Int".toList⟩]⟩]⟩]

/-- F-26: an edge parameter named `match` (a valid GraphQL name) makes the generator panic while it
pretty-prints the generated items ("not valid Rust"). -/
theorem parameter_keyword_witness :
    validGraphQLName "match".toList = true ∧ checksPass f26Schema = true ∧
      stubCheck f26Schema = .panicPrettyPrint := by decide

/-- A parameter of the built-in scalar type `ID` makes the generator panic (`unimplemented!`). -/
theorem parameter_type_id_witness :
    stubCheck { entrypoints := [⟨"A".toList, []⟩],
                types := [⟨"A".toList, ["x".toList], [⟨"e".toList, [⟨"k".toList, "ID".toList⟩]⟩]⟩] }
      = .panicUnsupportedType := by decide

/-! ## 2. The conflict checks -/

/-- `FooBar` and `foo_bar` (also `fooBar`) collide after snake-casing. -/
theorem snake_collision_witness :
    toLowerSnakeCase "FooBar".toList = toLowerSnakeCase "foo_bar".toList ∧
    toLowerSnakeCase "fooBar".toList = toLowerSnakeCase "foo_bar".toList ∧
    "FooBar".toList ≠ "foo_bar".toList := by decide

/-- The vertex check refuses any two vertex types whose snake-cased names coincide … -/
theorem checks_catch_collisions (S : Schema) (i j : Nat) (hi : i < S.types.length) (hj : j < S.types.length)
    (hij : i ≠ j) (h : toLowerSnakeCase S.types[i].name = toLowerSnakeCase S.types[j].name) :
    checksPass S = false := by
  cases hc : checksPass S with
  | false => rfl
  | true =>
    have hn := ((checksPass_iff S).mp hc).1
    have := nodup_getElem_inj hn (i := i) (j := j) (by simpa using hi) (by simpa using hj)
      (by simp [conflictKey, h])
    exact absurd this hij

/-- … and the field check any two fields (edges and properties together) of one vertex type. -/
theorem checks_catch_field_collisions (S : Schema) (t : VType) (ht : t ∈ S.types) (i j : Nat)
    (hi : i < (fieldNames t).length) (hj : j < (fieldNames t).length) (hij : i ≠ j)
    (h : toLowerSnakeCase (fieldNames t)[i] = toLowerSnakeCase (fieldNames t)[j]) :
    checksPass S = false := by
  cases hc : checksPass S with
  | false => rfl
  | true =>
    have hn := ((checksPass_iff S).mp hc).2 t ht
    have := nodup_getElem_inj hn (i := i) (j := j) (by simpa using hi) (by simpa using hj)
      (by simp [conflictKey, h])
    exact absurd this hij

/-- When both checks pass, the generated item names the checks are responsible for are pairwise distinct
in each Rust namespace: the per-type property resolvers (properties.rs), the per-type edge resolvers and
the per-type modules (edges.rs), and inside each type's module the per-edge functions. -/
theorem no_conflict_names_distinct (S : Schema) (h : checksPass S = true) :
    (S.types.map fun t => propertyFnName t.name).Nodup ∧
    (S.types.map fun t => typeEdgeFnName t.name).Nodup ∧
    (S.types.map fun t => edgeModName t.name).Nodup ∧
    ∀ t ∈ S.types, (t.edges.map fun e => itemFnName e.name).Nodup := by
  obtain ⟨hv, hf⟩ := (checksPass_iff S).mp h
  refine ⟨?_, ?_, hv, ?_⟩
  · exact nodup_map_of_nodup_map (f := fun t => conflictKey t.name)
      (fun x y hxy => snake_eq_of_key_ne (wrap_injective hxy)) hv
  · exact nodup_map_of_nodup_map (f := fun t => conflictKey t.name)
      (fun x y hxy => snake_eq_of_key_ne (wrap_injective hxy)) hv
  · intro t ht
    have := hf t ht
    simp only [fieldNames, List.map_append, List.map_map] at this
    exact (List.nodup_append.mp this).1

/-! ### `Vertex` variants: checked with the wrong function -/

/-
Full statement (false on the pinned code):
  `checksPass S → (S.types.map (variantName ·.name)).Nodup`.
-/
/-- The `Vertex` variants are pairwise distinct when both checks pass — provided no type name has a capital
letter in second position (the check compares snake-cased names, the variants only capitalise the first
letter). -/
theorem variant_names_distinct_partial (S : Schema) (hv : ∀ t ∈ S.types, validGraphQLName t.name = true)
    (hg : ∀ t ∈ S.types, secondNotUpper t.name = true) (h : checksPass S = true) :
    (S.types.map fun t => variantName t.name).Nodup :=
  nodup_map_of_nodup_map_mem (f := fun t => conflictKey t.name)
    (fun x hx y hy hxy => key_eq_of_variant_eq (hv x hx) (hv y hy) (hg x hx) (hg y hy) hxy)
    ((checksPass_iff S).mp h).1

/-- `fOO` and `FOO`: both checks pass, yet the two `Vertex` variants are both called `FOO`. -/
theorem variant_collision_witness :
    let S : Schema := { entrypoints := [], types := [⟨"fOO".toList, ["x".toList], []⟩, ⟨"FOO".toList, ["x".toList], []⟩] }
    checksPass S = true ∧ stubCheck S = .ok ∧ variantName "fOO".toList = variantName "FOO".toList := by
  decide

/-! ### Entry points: not checked at all -/

/-- `fooBar` and `foo_bar` as entry points: the checks pass, the generator succeeds, and entrypoints.rs
defines `foo_bar` twice. -/
theorem entrypoint_collision_witness :
    let S : Schema := { entrypoints := [⟨"fooBar".toList, []⟩, ⟨"foo_bar".toList, []⟩],
                        types := [⟨"A".toList, ["x".toList], []⟩] }
    checksPass S = true ∧ stubCheck S = .ok ∧
      itemFnName "fooBar".toList = itemFnName "foo_bar".toList ∧
      compileCauses S = [.duplicateEntrypointFn] := by
  decide

/-! ## 3. The conversion method: two different snake cases -/

/-
Full statement (false on the pinned code):
  `conversionCallName t = conversionDefName t`  (the method the edge resolvers call exists).
-/
/-- The `as_…()` method an edge resolver calls is the one the derive macro defines, provided the variant
name has no two consecutive capital letters. -/
theorem conversion_names_agree_partial (t : Name) (h : noConsecutiveCapitals (variantName t) = true) :
    conversionCallName t = conversionDefName t := by
  simp [conversionCallName, conversionDefName, snake_eq_deriveSnake h]

/-- `UserID`: the resolver calls `as_user_id()`, the derive macro defines `as_user_i_d()`. -/
theorem conversion_mismatch_witness :
    conversionCallName "UserID".toList = "as_user_id".toList ∧
    conversionDefName "UserID".toList = "as_user_i_d".toList := by decide

/-! ## 4. What the model's `compiles` prediction guarantees -/

/-- Whenever the model predicts that a stub compiles, every name-level obligation holds: the generator
does not refuse or panic, every spliced item name and parameter name is accepted by `syn`, and in each
namespace the generated names are pairwise distinct (variants, entry point functions, property resolvers,
edge resolvers, modules, per-module edge functions, derive-generated conversion methods), and every
conversion method that is called is defined. -/
theorem predictCompiles_sound (S : Schema) (h : predictCompiles S = true) :
    stubCheck S = .ok ∧ checksPass S = true ∧
    (∀ n ∈ splicedIdents S, usableIdent n = true) ∧
    (S.types.map fun t => variantName t.name).Nodup ∧
    (S.types.map fun t => conversionDefName t.name).Nodup ∧
    (S.entrypoints.map fun e => itemFnName e.name).Nodup ∧
    (S.types.map fun t => propertyFnName t.name).Nodup ∧
    (S.types.map fun t => typeEdgeFnName t.name).Nodup ∧
    (S.types.map fun t => edgeModName t.name).Nodup ∧
    (∀ t ∈ S.types, (t.edges.map fun e => itemFnName e.name).Nodup) ∧
    (∀ t ∈ S.types, t.edges ≠ [] → conversionCallName t.name = conversionDefName t.name) := by
  simp only [predictCompiles, Bool.and_eq_true, List.isEmpty_iff] at h
  obtain ⟨hok, hcauses⟩ := h
  have hok' : stubCheck S = .ok := by
    cases hs : stubCheck S <;> simp [hs] at hok
    rfl
  -- unfold the outcome
  have hcp : checksPass S = true ∧ (∀ n ∈ splicedIdents S, usableIdent n = true) := by
    unfold stubCheck at hok'
    cases hvc : vertexConflict S with
    | some p => obtain ⟨a, b⟩ := p; simp [hvc] at hok'
    | none =>
      cases hfc : fieldConflict S with
      | some p => obtain ⟨t, a, b⟩ := p; simp [hvc, hfc] at hok'
      | none =>
        simp only [hvc, hfc] at hok'
        refine ⟨by simp [checksPass, hvc, hfc], ?_⟩
        split at hok'
        · cases hok'
        · split at hok'
          · cases hok'
          · rename_i _ h2
            simp only [Bool.not_eq_true', Bool.and_eq_false_iff, not_or, Bool.not_eq_false] at h2
            exact List.all_eq_true.mp h2.1
  obtain ⟨hc, hid⟩ := hcp
  obtain ⟨d1, d2, d3, d4⟩ := no_conflict_names_distinct S hc
  -- the cause list is empty: read off each component
  simp only [compileCauses, List.append_eq_nil_iff] at hcauses
  obtain ⟨⟨⟨⟨⟨c1, c2⟩, c3⟩, c4⟩, _⟩, _⟩ := hcauses
  have n1 : nodupB (S.types.map fun t => variantName t.name) = true := by
    cases hb : nodupB (S.types.map fun t => variantName t.name) <;> simp [hb] at c1; rfl
  have n2 : nodupB (S.types.map fun t => conversionDefName t.name) = true := by
    cases hb : nodupB (S.types.map fun t => conversionDefName t.name) <;> simp [hb] at c2; rfl
  have n3 : nodupB (S.entrypoints.map fun e => itemFnName e.name) = true := by
    cases hb : nodupB (S.entrypoints.map fun e => itemFnName e.name) <;> simp [hb] at c3; rfl
  have n4 : (typesWithEdges S).all (fun t => conversionCallName t.name == conversionDefName t.name) = true := by
    cases hb : (typesWithEdges S).all (fun t => conversionCallName t.name == conversionDefName t.name) <;>
      simp [hb] at c4
    rfl
  refine ⟨hok', hc, hid, (nodupB_iff _).mp n1, (nodupB_iff _).mp n2, (nodupB_iff _).mp n3, d1, d2, d3, d4, ?_⟩
  intro t ht hne
  have hm : t ∈ typesWithEdges S := by
    simp only [typesWithEdges, List.mem_filter, Bool.not_eq_true', List.isEmpty_eq_false_iff]
    exact ⟨ht, hne⟩
  simpa using List.all_eq_true.mp n4 t hm

/-! Non-vacuity: the prediction is `true` on an ordinary schema (so the conclusions above are about
something), the conflict checks refuse the documented collisions in the documented order, and the
mangling functions behave as the repo's own expectations say. -/
def exampleSchema : Schema where
  entrypoints := [⟨"FrontPage".toList, []⟩, ⟨"User".toList, [⟨"name".toList, "String!".toList⟩]⟩]
  types := [
    ⟨"Item".toList, ["id".toList, "byUsername".toList], [⟨"byUser".toList, []⟩, ⟨"type".toList, []⟩]⟩,
    ⟨"User".toList, ["id".toList], [⟨"submitted".toList, [⟨"max".toList, "Int".toList⟩]⟩]⟩]

example : predictCompiles exampleSchema = true := by decide
example : itemFnName "type".toList = "type_".toList := by decide
example : toLowerSnakeCase "HTTPRequest".toList = "httprequest".toList := by decide
example : deriveSnake "HTTPRequest".toList = "h_t_t_p_request".toList := by decide
example : stubCheck { entrypoints := [], types := [⟨"Type".toList, [], []⟩, ⟨"Type_".toList, [], []⟩] }
    = .conflictVertex "Type".toList "Type_".toList := by decide
example : stubCheck { entrypoints := [], types := [⟨"Type".toList, ["Type".toList], [⟨"Type_".toList, []⟩]⟩] }
    = .conflictField "Type".toList "Type_".toList "Type".toList := by decide
example : checksPass { entrypoints := [], types := [⟨"FooBar".toList, [], []⟩, ⟨"foo_bar".toList, [], []⟩] }
    = false := by decide

end TF.C26

#print axioms TF.C26.names_are_identifiers_property_fn
#print axioms TF.C26.names_are_identifiers_type_edge_fn
#print axioms TF.C26.names_are_identifiers_conversion
#print axioms TF.C26.names_are_identifiers_variant_partial
#print axioms TF.C26.variant_underscore_witness
#print axioms TF.C26.names_are_identifiers_item_partial
#print axioms TF.C26.item_reserved_keyword_witness
#print axioms TF.C26.names_are_identifiers_parameter_partial
#print axioms TF.C26.parameter_keyword_witness
#print axioms TF.C26.parameter_type_id_witness
#print axioms TF.C26.edge_fn_names_agree
#print axioms TF.C26.snake_collision_witness
#print axioms TF.C26.checks_catch_collisions
#print axioms TF.C26.checks_catch_field_collisions
#print axioms TF.C26.no_conflict_names_distinct
#print axioms TF.C26.variant_names_distinct_partial
#print axioms TF.C26.variant_collision_witness
#print axioms TF.C26.entrypoint_collision_witness
#print axioms TF.C26.conversion_names_agree_partial
#print axioms TF.C26.conversion_mismatch_witness
#print axioms TF.C26.predictCompiles_sound
