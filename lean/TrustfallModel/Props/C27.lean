/-
C27 — Python bindings return the same results as the Rust engine (value-conversion part).

Statements are about `TF.PyValue.toPy` / `TF.PyValue.fromPy`, the model of
`impl IntoPyObject for FieldValue` / `impl FromPyObject for FieldValue` in
`pytrustfall/src/value.rs` (every value that crosses the Python boundary — query arguments, edge
parameters, property values returned by a Python adapter, result rows — goes through exactly these
two functions, see `pytrustfall/src/shim.rs`).  `==` on values is `Value.beq`, the model of
`impl PartialEq for FieldValue` (C08): `Int64 n == Uint64 n`.

Two statements of the property are FALSE on the code as written; each is kept visible, refuted by
a concrete witness, and proved in `_partial` form under an explicit decidable guard:
* F-24: a list mixing integers below and from `2^63` up does not survive the round trip;
* F-25: a Python int outside `[-2^63, 2^64)` is not rejected but silently becomes a float.
The end-to-end part of C27 (rows of whole queries) is sampled by the harness, not proved.
-/
import TrustfallModel.Proofs.PyValue

namespace TF.C27
open TF Value PyValue

/-! ### Rust → Python → Rust -/

/-- The list `[1, 2^63]` as the Rust engine holds it (`Int64(1)`, `Uint64(2^63)`): F-24 witness. -/
def mixedInts : Value := .list [.int64 1, .uint64 9223372036854775808]

/-- FULL STATEMENT (false, F-24):
`∀ v, noEnum v → ∃ p v', toPy v = some p ∧ fromPy p = .ok v' ∧ (v' == v) = true`
— every enum-free value handed to Python and read back is equal to the original.
Refuted: `[Int64 1, Uint64 2^63]` goes to the Python list `[1, 9223372036854775808]`, which the
conversion back rejects ("elements of different (non-null) types … int vs int"). -/
theorem py_roundtrip_full_false :
    ¬ ∀ v : Value, noEnum v = true →
        ∃ p v', toPy v = some p ∧ fromPy p = .ok v' ∧ (v' == v) = true := by
  intro h
  obtain ⟨p, v', h1, h2, _⟩ := h mixedInts rfl
  have e1 : toPy mixedInts = some (.list [.int 1, .int 9223372036854775808]) := rfl
  rw [e1] at h1
  cases h1
  have e2 : fromPy (.list [.int 1, .int 9223372036854775808]) = .error .mixedList := rfl
  rw [e2] at h2
  cases h2

/-- The exact outcome for the witness, and the same for a list that is all-`Uint64` on the Rust
side (`[Uint64 5, Uint64 2^63]`): the small element returns as `Int64`, so the list is rejected. -/
theorem py_mixed_ints_rejected :
    (∃ p, toPy mixedInts = some p ∧ fromPy p = .error .mixedList) ∧
    (∃ p, toPy (.list [.uint64 5, .uint64 9223372036854775808]) = some p ∧
      fromPy p = .error .mixedList) :=
  ⟨⟨.list [.int 1, .int 9223372036854775808], rfl, rfl⟩,
   ⟨.list [.int 5, .int 9223372036854775808], rfl, rfl⟩⟩

/-- PARTIAL (guard `homogeneous v`: in every list, at every depth, the non-null elements come back
from Python as one and the same variant — in particular no list mixes integers `< 2^63` with
integers `≥ 2^63`).  Under the guard every enum-free value (null, signed/unsigned 64-bit integer,
finite float, string, boolean, nested list) converts to a Python object, converts back without
error, and the result equals the original (`Uint64 n` with `n < 2^63` comes back as `Int64 n`,
equal under `==`). -/
theorem py_roundtrip_partial (v : Value) (hE : noEnum v = true) (hH : homogeneous v = true) :
    ∃ p v', toPy v = some p ∧ fromPy p = .ok v' ∧ (v' == v) = true := by
  obtain ⟨p, v', h1, h2, h3, _⟩ := rt v hE hH
  exact ⟨p, v', h1, h2, h3⟩

/-- Booleans stay booleans in both directions (`True` is not turned into `1`: `extract::<bool>`
is tried before `extract::<i64>`). -/
theorem py_bool_stays_bool (b : Bool) :
    fromPy (.bool b) = .ok (.boolean b) ∧ toPy (.boolean b) = some (.bool b) := ⟨rfl, rfl⟩

/-! ### Python → Rust: integers -/

/-- Whenever a Python int converts to an integer value, it is that integer (no wrap-around, no
truncation), in whichever of the two representations. -/
theorem py_int_faithful (z : Int) (v : Value) (h : fromPy (.int z) = .ok v) :
    ∀ n, numVal v = some n → n = z := by
  simp only [fromPy] at h
  unfold fromInt at h
  intro n hn
  by_cases h1 : fitsI64 z = true
  · simp [h1] at h; subst h
    simp only [fitsI64, Bool.and_eq_true, decide_eq_true_eq] at h1
    simp [numVal, Int64.toInt_ofInt_of_le h1.1 h1.2] at hn
    exact hn.symm
  · by_cases h2 : fitsU64 z = true
    · simp [h1, h2] at h; subst h
      simp only [fitsU64, Bool.and_eq_true, decide_eq_true_eq] at h2
      have : z.toNat < UInt64.size := by
        have := h2.2; simp [UInt64.size]; omega
      simp [numVal, UInt64.toNat_ofNat_of_lt' this] at hn
      omega
    · cases h3 : intToF64Key z with
      | none => simp [h1, h2, h3] at h
      | some k => simp [h1, h2, h3] at h; subst h; simp [numVal] at hn

/-- Every Python int in `[-2^63, 2^64)` is accepted and converts to an integer value with the same
mathematical value (signed when it fits, unsigned otherwise). -/
theorem py_int_in_range (z : Int) (hlo : -(2 ^ 63 : Int) ≤ z) (hhi : z < (2 ^ 64 : Int)) :
    ∃ v, fromPy (.int z) = .ok v ∧ numVal v = some z := by
  have key : ∃ v, fromPy (.int z) = .ok v ∧ ∃ n, numVal v = some n := by
    simp only [fromPy]
    unfold fromInt
    by_cases h1 : fitsI64 z = true
    · exact ⟨.int64 (Int64.ofInt z), by simp [h1], _, rfl⟩
    · have h2 : fitsU64 z = true := by
        simp only [fitsI64, fitsU64, Bool.and_eq_true, decide_eq_true_eq] at h1 ⊢
        omega
      exact ⟨.uint64 (UInt64.ofNat z.toNat), by simp [h1, h2], _, rfl⟩
  obtain ⟨v, hv, n, hn⟩ := key
  exact ⟨v, hv, by rw [hn, py_int_faithful z v hv n hn]⟩

/-- FULL STATEMENT (false, F-25):
`∀ z, (z < -2^63 ∨ 2^64 ≤ z) → isOk (fromPy (.int z)) = false`
— a Python int that fits neither `i64` nor `u64` is rejected.
Refuted: `2^64` is accepted. -/
theorem py_out_of_range_rejected_full_false :
    ¬ ∀ z : Int, (z < -(2 ^ 63 : Int) ∨ (2 ^ 64 : Int) ≤ z) → isOk (fromPy (.int z)) = false := by
  intro h
  have := h (2 ^ 64) (Or.inr (Int.le_refl _))
  have e : fromPy (.int (2 ^ 64)) = .ok (.float64 4895412794951729152) := rfl
  rw [e] at this
  cases this

/-- What happens instead (F-25 witnesses): `2^64` becomes `Float64(1.8446744073709552e19)` (key
`0x43F0000000000000`), `-2^63 - 1` becomes `Float64(-9.223372036854775808e18)`, and `2^64 + 1`
becomes the same float as `2^64` (information is lost silently). -/
theorem py_out_of_range_becomes_float :
    fromPy (.int (2 ^ 64)) = .ok (.float64 4895412794951729152) ∧
    fromPy (.int (-(2 ^ 63) - 1)) = .ok (.float64 (-4890909195324358656)) ∧
    fromPy (.int (2 ^ 64 + 1)) = fromPy (.int (2 ^ 64)) := ⟨rfl, rfl, rfl⟩

/-- PARTIAL (guard: even the float conversion overflows, i.e. `|z|` rounds to `≥ 2^1024`): such an
int is rejected. -/
theorem py_out_of_range_rejected_partial (z : Int)
    (hr : z < -(2 ^ 63 : Int) ∨ (2 ^ 64 : Int) ≤ z) (hg : (intToF64Key z).isNone = true) :
    isOk (fromPy (.int z)) = false := by
  have h := (rej (.int z)).1
  have h1 : fitsI64 z = false := by
    simp only [fitsI64, Bool.and_eq_false_iff, decide_eq_false_iff_not]; omega
  have h2 : fitsU64 z = false := by
    simp only [fitsU64, Bool.and_eq_false_iff, decide_eq_false_iff_not]; omega
  simpa [rejects, h1, h2, hg] using h

/-- An out-of-range int never turns into a (wrong) integer: it is rejected or becomes a float. -/
theorem py_out_of_range_not_an_integer (z : Int) (v : Value)
    (hr : z < -(2 ^ 63 : Int) ∨ (2 ^ 64 : Int) ≤ z) (h : fromPy (.int z) = .ok v) :
    numVal v = none := by
  cases hn : numVal v with
  | none => rfl
  | some n =>
    have e := py_int_faithful z v h n hn
    subst e
    cases v <;> simp [numVal] at hn
    · rename_i i
      have h1 := Int64.toInt_lt i; have h2 := Int64.le_toInt i; omega
    · rename_i u
      have h3 := UInt64.toNat_lt u; omega

/-! ### Python → Rust: what is rejected -/

/-- The conversion fails exactly on the objects described by `rejects` (a Python-side predicate that
does not mention `fromPy`): non-finite floats, unsupported objects, ints too large even for a float,
lists with such an element, and lists whose non-`None` elements convert to different variants
(where — F-24 — ints `< 2^63` and ints `≥ 2^63` count as different, and — F-25 — an int outside
the 64-bit ranges counts as a float). -/
theorem py_reject_iff (p : Py) : isOk (fromPy p) = false ↔ rejects p = true := by
  rw [(rej p).1]; simp

/-! ### Python → Rust → Python -/

/-- FULL STATEMENT (false, F-25): `∀ p v, fromPy p = .ok v → toPy v = some p` — an accepted Python
object is handed back unchanged.  Refuted: the int `2^64` comes back as a float. -/
theorem py_from_to_full_false : ¬ ∀ p v, fromPy p = .ok v → toPy v = some p := by
  intro h
  have := h (.int (2 ^ 64)) (.float64 4895412794951729152) rfl
  simp [toPy] at this

/-- PARTIAL (guard `intsInRange p`: every int inside lies in `[-2^63, 2^64)`): an accepted Python
object (None, bool, int, finite float, str, nested list) is handed back unchanged — bools as bools,
ints as the same int, lists element by element. -/
theorem py_from_to_partial (p : Py) (v : Value) (hg : intsInRange p = true)
    (h : fromPy p = .ok v) : toPy v = some p := back p hg v h

/-! Non-vacuity: the guards admit mixed-representation and nested values; the reject predicate is
inhabited on both sides. -/
example : noEnum (.list [.uint64 18446744073709551615, .null, .uint64 9223372036854775808]) = true ∧
    homogeneous (.list [.uint64 18446744073709551615, .null, .uint64 9223372036854775808]) = true := by
  decide
example : homogeneous (.list [.list [.int64 1], .list [.uint64 9223372036854775808], .list []]) = true := by
  decide
example : homogeneous mixedInts = false := by decide
example : rejects (.list [.int 1, .str [97]]) = true := by decide
example : rejects (.list [.none, .int 1, .none, .int (-5)]) = false := by decide
example : rejects (.list [.int 1, .int 9223372036854775808]) = true := by decide
example : intsInRange (.list [.int (-9223372036854775808), .list [.int 18446744073709551615]]) = true := by
  decide
set_option exponentiation.threshold 1100 in
example : (intToF64Key (2 ^ 1024)).isNone = true := by decide +kernel

end TF.C27

#print axioms TF.C27.py_roundtrip_full_false
#print axioms TF.C27.py_mixed_ints_rejected
#print axioms TF.C27.py_roundtrip_partial
#print axioms TF.C27.py_bool_stays_bool
#print axioms TF.C27.py_int_faithful
#print axioms TF.C27.py_int_in_range
#print axioms TF.C27.py_out_of_range_rejected_full_false
#print axioms TF.C27.py_out_of_range_becomes_float
#print axioms TF.C27.py_out_of_range_rejected_partial
#print axioms TF.C27.py_out_of_range_not_an_integer
#print axioms TF.C27.py_reject_iff
#print axioms TF.C27.py_from_to_full_false
#print axioms TF.C27.py_from_to_partial
