/-
C27 — Python bindings return the same results as the Rust engine (value-conversion part).

Statements are about `TF.PyValue.toPy` / `TF.PyValue.fromPy`, the model of
`impl IntoPyObject for FieldValue` / `impl FromPyObject for FieldValue` in
`pytrustfall/src/value.rs` (every value that crosses the Python boundary — query arguments, edge
parameters, property values returned by a Python adapter, result rows — goes through exactly these
two functions, see `pytrustfall/src/shim.rs`).  `==` on values is `Value.beq`, the model of
`impl PartialEq for FieldValue` (C08): `Int64 n == Uint64 n`.

All statements are at full strength for the code *after* the repair of F-24 / F-25.

History.  On the code before the repair two statements were false and were carried in `_partial`
form with witness theorems (earlier revisions of this file):
* F-24 `py_roundtrip_full_false`: `[Int64 1, Uint64 2^63]` ↦ Python `[1, 9223372036854775808]` ↦
  `mixedList` error (the list check compared `Int64` vs `Uint64` discriminants); likewise
  `[Uint64 5, Uint64 2^63]`.  Now `py_roundtrip` covers these lists (`mixed_ints_roundtrip`).
* F-25 `py_out_of_range_rejected_full_false` / `py_out_of_range_becomes_float` /
  `py_from_to_full_false`: `2^64 ↦ Float64` (key `0x43F0000000000000` = 1.8446744073709552e19),
  `2^64 + 1 ↦` the same float, `-2^63 - 1 ↦ Float64(-9.223372036854775808e18)`, and `2^64` came
  back to Python as a float.  Now `py_out_of_range_rejected` and `py_from_to` hold unguarded.
The end-to-end part of C27 (rows of whole queries) is sampled by the harness, not proved.
-/
import TrustfallModel.Proofs.PyValue

namespace TF.C27
open TF Value PyValue

/-! ### Rust → Python → Rust -/

/-- The list `[1, 2^63]` as the Rust engine holds it (`Int64(1)`, `Uint64(2^63)`): the former F-24
witness. -/
def mixedInts : Value := .list [.int64 1, .uint64 9223372036854775808]

/-- Every enum-free value all of whose lists are of one kind (null / integer in either
representation / float / string / boolean / list — the shape of every schema-typed value) converts
to a Python object, converts back without error, and the result equals the original: signed and
unsigned 64-bit integers (also mixed in one list), finite floats, strings, booleans, nulls, nested
lists.  (`Uint64 n` with `n < 2^63` comes back as `Int64 n`, equal under `==`.)

`homogeneous` is a restriction of the domain, not of the code: a `FieldValue::List` mixing kinds
(say an integer and a string) has no Trustfall type; its Python image is a list that the
conversion refuses by design (see `py_reject_iff`, `mixed_kinds_still_rejected`). -/
theorem py_roundtrip (v : Value) (hE : noEnum v = true) (hH : homogeneous v = true) :
    ∃ p v', toPy v = some p ∧ fromPy p = .ok v' ∧ (v' == v) = true := by
  obtain ⟨p, v', h1, h2, h3, _⟩ := rt v hE hH
  exact ⟨p, v', h1, h2, h3⟩

/-- The former F-24 witnesses are inside the domain and survive the round trip exactly. -/
theorem mixed_ints_roundtrip :
    homogeneous mixedInts = true ∧
    (∃ p, toPy mixedInts = some p ∧ fromPy p = .ok mixedInts) ∧
    (∃ p, toPy (.list [.uint64 5, .uint64 9223372036854775808]) = some p ∧
      fromPy p = .ok (.list [.int64 5, .uint64 9223372036854775808])) :=
  ⟨by decide, ⟨.list [.int 1, .int 9223372036854775808], rfl, rfl⟩,
   ⟨.list [.int 5, .int 9223372036854775808], rfl, rfl⟩⟩

/-- Booleans stay booleans in both directions (`True` is not turned into `1`: `extract::<bool>`
is tried before `extract::<i64>`). -/
theorem py_bool_stays_bool (b : Bool) :
    fromPy (.bool b) = .ok (.boolean b) ∧ toPy (.boolean b) = some (.bool b) := ⟨rfl, rfl⟩

/-! ### Python → Rust: integers -/

/-- A Python int that is accepted converts to an integer value with the same mathematical value
(no wrap-around, no truncation, no float), in whichever of the two representations. -/
theorem py_int_faithful (z : Int) (v : Value) (h : fromPy (.int z) = .ok v) :
    numVal v = some z := by
  simp only [fromPy] at h
  unfold fromInt at h
  by_cases h1 : fitsI64 z = true
  · simp [h1] at h; subst h
    simp only [fitsI64, Bool.and_eq_true, decide_eq_true_eq] at h1
    simp [numVal, Int64.toInt_ofInt_of_le h1.1 h1.2]
  · by_cases h2 : fitsU64 z = true
    · simp [h1, h2] at h; subst h
      simp only [fitsU64, Bool.and_eq_true, decide_eq_true_eq] at h2
      have : z.toNat < UInt64.size := by
        have := h2.2; simp [UInt64.size]; omega
      simp [numVal, UInt64.toNat_ofNat_of_lt' this]
      omega
    · simp [h1, h2] at h

/-- Every Python int in `[-2^63, 2^64)` is accepted (signed when it fits, unsigned otherwise). -/
theorem py_int_in_range (z : Int) (hlo : -(2 ^ 63 : Int) ≤ z) (hhi : z < (2 ^ 64 : Int)) :
    ∃ v, fromPy (.int z) = .ok v ∧ numVal v = some z := by
  have key : ∃ v, fromPy (.int z) = .ok v := by
    simp only [fromPy]
    unfold fromInt
    by_cases h1 : fitsI64 z = true
    · exact ⟨.int64 (Int64.ofInt z), by simp [h1]⟩
    · have h2 : fitsU64 z = true := by
        simp only [fitsI64, fitsU64, Bool.and_eq_true, decide_eq_true_eq] at h1 ⊢
        omega
      exact ⟨.uint64 (UInt64.ofNat z.toNat), by simp [h1, h2]⟩
  obtain ⟨v, hv⟩ := key
  exact ⟨v, hv, py_int_faithful z v hv⟩

/-- Every Python int outside `[-2^63, 2^64)` is rejected with an error (it is not rounded to a
float, not wrapped, not truncated). -/
theorem py_out_of_range_rejected (z : Int)
    (hr : z < -(2 ^ 63 : Int) ∨ (2 ^ 64 : Int) ≤ z) : fromPy (.int z) = .error .unsupported := by
  have h1 : fitsI64 z = false := by
    simp only [fitsI64, Bool.and_eq_false_iff, decide_eq_false_iff_not]; omega
  have h2 : fitsU64 z = false := by
    simp only [fitsU64, Bool.and_eq_false_iff, decide_eq_false_iff_not]; omega
  simp [fromPy, fromInt, h1, h2]

/-! ### Python → Rust: what is rejected -/

/-- The conversion fails exactly on the objects described by `rejects` (a Python-side predicate that
does not mention `fromPy`): non-finite floats, unsupported objects, ints outside `[-2^63, 2^64)`,
lists with such an element, and lists whose non-`None` elements are of different kinds
(`bool` / `int` / `float` / `str` / `list`; all ints are one kind). -/
theorem py_reject_iff (p : Py) : isOk (fromPy p) = false ↔ rejects p = true := by
  rw [(rej p).1]; simp

/-- Mixing kinds in one list is still refused (int with float, int with str, bool with int), and so
are lists containing an out-of-range int (it is no longer a float that could blend in). -/
theorem mixed_kinds_still_rejected :
    fromPy (.list [.int 1, .float 4609434218613702656]) = .error .mixedList ∧
    fromPy (.list [.int 1, .str [97]]) = .error .mixedList ∧
    fromPy (.list [.bool true, .int 1]) = .error .mixedList ∧
    fromPy (.list [.int 18446744073709551616, .float 4609434218613702656]) = .error .unsupported :=
  ⟨rfl, rfl, rfl, rfl⟩

/-! ### Python → Rust → Python -/

/-- Every accepted Python object (None, bool, int, finite float, str, nested list) is handed back
unchanged — bools as bools, ints as the same int, lists element by element. -/
theorem py_from_to (p : Py) (v : Value) (h : fromPy p = .ok v) : toPy v = some p := back p v h

/-! Non-vacuity: the domain admits mixed-representation and nested values and excludes mixed kinds;
the reject predicate is inhabited on both sides. -/
example : noEnum (.list [.uint64 18446744073709551615, .null, .int64 (-1)]) = true ∧
    homogeneous (.list [.uint64 18446744073709551615, .null, .int64 (-1)]) = true := by decide
example : homogeneous (.list [.list [.int64 1], .list [.uint64 9223372036854775808], .list []]) = true := by
  decide
example : homogeneous (.list [.int64 1, .string [97]]) = false := by decide
example : homogeneous (.list [.int64 1, .float64 0]) = false := by decide
example : rejects (.list [.int 1, .str [97]]) = true := by decide
example : rejects (.list [.none, .int 1, .none, .int (-5)]) = false := by decide
example : rejects (.list [.int 1, .int 9223372036854775808]) = false := by decide
example : rejects (.int 18446744073709551616) = true := by decide
example : rejects (.int (-9223372036854775809)) = true := by decide

end TF.C27

#print axioms TF.C27.py_roundtrip
#print axioms TF.C27.mixed_ints_roundtrip
#print axioms TF.C27.py_bool_stays_bool
#print axioms TF.C27.py_int_faithful
#print axioms TF.C27.py_int_in_range
#print axioms TF.C27.py_out_of_range_rejected
#print axioms TF.C27.py_reject_iff
#print axioms TF.C27.mixed_kinds_still_rejected
#print axioms TF.C27.py_from_to
