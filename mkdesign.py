#!/usr/bin/env python3
"""Regenerates the tables of DESIGN.md that are derived from files (between <!-- AUTO:x --> markers):
status (cfg/*.json + evidence/*.json), findings (known_findings.json), catches (seeded/CATCHES.md),
fixes (git log of /repo)."""
import glob, json, os, re, subprocess

ROOT = os.path.dirname(os.path.abspath(__file__))


def status():
    out = ["| id | level | theorems (all discharged) | cases, last run (tier) | model/impl disagreements | open known findings | remaining hypotheses / `_partial` |",
           "|---|---|---|---|---|---|---|"]
    known = json.load(open(os.path.join(ROOT, "known_findings.json")))["findings"]
    for p in sorted(glob.glob(os.path.join(ROOT, "cfg", "C??.json"))):
        pid = os.path.basename(p)[:3]
        cfg = json.load(open(p))
        ev = {}
        try:
            ev = json.load(open(os.path.join(ROOT, "evidence", pid + ".json")))
        except Exception:
            pass
        cov = ev.get("coverage", {})
        opn = sorted({k["id"] for k in known if k["property"] == pid and k.get("status", "open") == "open"})
        part = cfg.get("partial") or []
        part_txt = "; ".join(x if isinstance(x, str) else "`{}` under: {}".format(x.get("theorem", "?").replace("TF.%s." % pid, ""), x.get("guard", x.get("hypotheses", "?"))) for x in part)
        part_txt = (part_txt[:330] + "…") if len(part_txt) > 330 else part_txt
        out.append("| {} | {} | {}/{} | {} ({}) | {} | {} | {} |".format(
            pid, ev.get("level", cfg.get("level", "")), cov.get("discharged", "?"), cov.get("obligations", "?"),
            cov.get("evaluations", "?"), ev.get("tier", "?"), cov.get("model_impl_disagreements", 0),
            ", ".join(opn) or "—", part_txt.replace("|", "/") or "—"))
    return "\n".join(out)


def findings():
    known = json.load(open(os.path.join(ROOT, "known_findings.json")))["findings"]
    byid = {}
    for k in known:
        e = byid.setdefault(k["id"], {"props": set(), "what": k["what"], "status": k.get("status", "open"), "fixed_by": k.get("fixed_by", "")})
        e["props"].add(k["property"])
        if k.get("status", "open") != "open":
            e["status"] = k["status"]; e["fixed_by"] = k.get("fixed_by", "")
    out = ["| finding | properties | status | what fails (short) |", "|---|---|---|---|"]
    def keyf(i):
        return (byid[i]["status"] != "open", i)
    for i in sorted(byid, key=keyf):
        e = byid[i]
        w = e["what"].replace("|", "/").replace("\n", " ")
        w = (w[:230] + "…") if len(w) > 230 else w
        st = "open (KNOWN-FINDING)" if e["status"] == "open" else f"fixed: {e['fixed_by']}"
        out.append(f"| {i} | {', '.join(sorted(e['props']))} | {st} | {w} |")
    return "\n".join(out)


def catches():
    p = os.path.join(ROOT, "seeded", "CATCHES.md")
    return open(p).read().strip() if os.path.exists(p) else "(run seedmeta.py)"


def fixes():
    log = subprocess.run(["git", "-C", "/repo", "log", "--format=%h %s", "5389603..HEAD"], capture_output=True, text=True).stdout
    out = ["| commit | kind | subject |", "|---|---|---|"]
    for l in reversed(log.strip().splitlines()):
        h, s = l.split(" ", 1)
        kind = "fix" if s.startswith("fix:") else "hook (cfg feature `verif`)"
        out.append(f"| {h} | {kind} | {s.replace('|', '/')} |")
    return "\n".join(out)


GEN = {"status": status, "findings": findings, "catches": catches, "fixes": fixes}
path = os.path.join(ROOT, "DESIGN.md")
s = open(path).read()
for name, fn in GEN.items():
    pat = re.compile(r"(<!-- AUTO:%s -->\n).*?(<!-- /AUTO:%s -->)" % (name, name), re.S)
    if pat.search(s):
        s = pat.sub(lambda m: m.group(1) + fn() + "\n" + m.group(2), s)
        print("updated", name)
    else:
        print("marker missing:", name)
open(path, "w").write(s)
