#!/usr/bin/env python3
"""Regenerates MANIFEST.json from checkcfg.py (single source of truth for claimed checks)."""
import json, subprocess, os
from checkcfg import PROPS, NOT_APPLICABLE, HOOK_COMMITS

checks = []
for pid in sorted(PROPS):
    c = PROPS[pid]
    checks.append({
        "property_id": pid,
        "quick_cmd": f"./check {pid} --tier quick",
        "thorough_cmd": f"./check {pid} --tier thorough",
        "evidence_file": f"/verif/evidence/{pid}.json",
        "replay_cmd_template": f"./check {pid} --replay {{path}}",
        "engine": "lean4-proof+correspondence",
        "level_claimed": {"category": c["level"], "text": c["level_text"], "design_ref": c.get("design_ref", f"DESIGN.md §3 {pid}")},
        "level_note": c["level_note"],
        "technique": c["technique"],
    })
m = {
    "version": 1,
    "setup_cmd": "cd /verif && ./setup.sh",
    "hooks": {
        "guard": "verif",
        "enable": "cargo feature `verif` of trustfall_core (and pytrustfall where used); /verif/harness depends on /repo's crates by path with that feature on, so every check rebuilds /repo's working tree with hooks enabled",
        "baseline_off_cmd": "cd /repo && cargo test --workspace --no-fail-fast --offline",
        "source_commits": HOOK_COMMITS,
        "add_only": True,
    },
    "engines": [{
        "name": "lean4-proof+correspondence",
        "path": "/verif/lean (theorems, model, native driver), /verif/harness (Rust harness), /verif/check (decision logic)",
        "serves_properties": sorted(PROPS),
        "kind_free_text": "Lean 4 theorems about a hand-written executable model; differential correspondence between the model's native driver and the real crates over a line protocol; property oracles on the implementation for failing-input search",
    }],
    "checks": checks,
    "notes": "See DESIGN.md. known_findings.json lists genuine defects; KNOWN-FINDING lines are printed for those that reproduce.",
    "not_applicable": [{"property_id": k, "reason": v} for k, v in sorted(NOT_APPLICABLE.items())],
}
json.dump(m, open(os.path.join(os.path.dirname(os.path.abspath(__file__)), "MANIFEST.json"), "w"), indent=1)
print("MANIFEST.json:", len(checks), "checks,", len(NOT_APPLICABLE), "not yet claimed")
