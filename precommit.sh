#!/bin/sh
# Builds the theorem module and driver of every claimed property; prints the ones that fail.
cd /verif/lean
FAIL=""
for m in $(python3 -c "
import sys; sys.path.insert(0,'/verif')
from checkcfg import PROPS
print(' '.join(sorted({c['props_module']+':'+c['driver'] for c in PROPS.values()})))"); do
  MOD=${m%%:*}; DRV=${m##*:}
  if ! lake build $MOD $DRV >/dev/null 2>&1; then FAIL="$FAIL $MOD"; fi
done
if [ -n "$FAIL" ]; then echo "BROKEN:$FAIL"; exit 1; else echo "all claimed Lean modules build"; fi
