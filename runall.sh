#!/bin/sh
# runs every claimed check once (quick) and prints the verdict line of each
cd /verif
for p in $(python3 -c "from checkcfg import PROPS; print(' '.join(sorted(PROPS)))"); do
  S=$(date +%s); OUT=$(./check $p "$@" 2>&1); RC=$?; E=$(( $(date +%s) - S ))
  echo "$p rc=$RC ${E}s: $(echo "$OUT" | grep -E '^(OK|VIOLATION)' | head -2 | cut -c1-150 | tr '\n' ' ')"
done
