#!/usr/bin/env python3
"""Writes seeded/<id>/meta.json for every seeded change and seeded/CATCHES.md (the table DESIGN.md quotes).

Inputs: seeded/seed_descriptions.json (what / why / needs / demo command per seed, from the adversary's
report in seeded/reports/), seeded/<id>/confirm.json (my own re-confirmation in the scratch worktree:
suite passes with the change, demo fails with / passes without), seeded/<id>/mutcheck_<P>.log (verdict of
`./mutcheck seeded/<id>/patch.diff <P>`, i.e. the registered check of property P run against a private
copy of /repo with the change applied)."""
import glob, json, os, re

ROOT = os.path.dirname(os.path.abspath(__file__))
SEEDED = os.path.join(ROOT, "seeded")
DESC = json.load(open(os.path.join(SEEDED, "seed_descriptions.json")))
APPLIES = json.load(open(os.path.join(SEEDED, "applies_at.json"))) if os.path.exists(os.path.join(SEEDED, "applies_at.json")) else {}
HEAD = __import__("subprocess").run(["git", "-C", "/repo", "log", "--format=%h", "-1"], capture_output=True, text=True).stdout.strip()

# what was done after a miss (hand-written; the history is in git and DESIGN.md §11)
STRENGTHENED = {
    "C08-1": "first run missed it: the request syntax canonicalised -0.0 to +0.0; requests now keep `(f -0)` distinct (harness values.rs value_to_sexp_exact)",
    "C16-2": "first run missed it: C16 round-tripped IRQuery only; it now also round-trips the IndexedQuery (RON, pretty RON, JSON) of every compiled test query",
    "C19-1": "first run missed it: the schema generator never combined a narrowed vertex type with a widened element nullability; an enumerated inherited-field type matrix (1440 documents quick) was added",
    "C02-2": "first run missed it (C02 and C15): no run had the crate's tracing tap over a read-ahead adapter; C02 now repeats every batching schedule with AdapterTap in the stack",
    "C04-2": "first run missed it: no generated query had two tag filters with different tags on one property; a directed stream of all ordered operator pairs was added and the chosen (operation, tag) of every dynamic hint is now part of the compared answer",
    "C10-2": "first run missed it: non-ASCII characters were only generated after the `$`/`%` sigil; a boundary-string stream (90 strings x every string-taking argument position) was added",
    "C14-2": "first run missed it: no generated schema had two errors of the AmbiguousFieldOrigin kind; every repo schema-error fixture is now also run with its definitions tripled under renamed copies, and one combined document",
    "C05-2": "the patch was rebased onto the tree with the F-3 repair (git apply --3way; original kept as patch.orig.diff)",
    "C09-2": "not caught by C09's own check (the change concerns which argument values are ACCEPTED, C09 only runs accepted ones and they still run fine); caught by C12 (argument validation = exactly the well-typed maps) and C17 (is_valid_value table), which own that function",
    "C07-2": "first run missed it: per-pair filter evaluation cannot see state kept across contexts; a directed tagged-regex world family (valid then invalid patterns in one stream) was added to the engine generator (see mutcheck_C01.log)",
    "C03-1": "first run missed it: no generated world had a tagged regex filter with equal tag values on consecutive starting vertices; covered by the tagged-regex world family (see mutcheck_C03.log)",
    "C22-5": "first run missed it (C22 and C01): no generated fold combined a lower-bound count filter (>=, >) with an exclusion count filter (!=, not_one_of) while nothing inside the fold is observed; directed shape S6 `min-plus-exclusion` added to the C22 generator (first run kept as first_run_C22.log)",
    "C23-5": "first run missed it (C23 and C22; same edit site as C22-5, written independently): C23 only added filters on properties; the transformation add-count-filter (one count filter, then a second one on the same fold, half of the chains starting from the query with nothing observed inside the fold; each step rows' <+ rows) and the theorem add_count_filter_sub were added; C22 catches it since shape S6 (first runs kept as first_run_*.log)",
    "C12-5": "first run missed it (C12 and C11): the query generator never shared a variable between a fold-count filter and a property filter (different value hints); knob p_cross_hint_reuse added and switched on for every third tree of C11's generator. Caught by C11 (the IR's `variables` entry differs from toIR's); C12 decides validation against the variables the compiled query declares (an input of its model), as for C12-3",
    "C09-5": "first run missed it in C09's own check (caught by C07 only): the null/null operand pair needs a tag operand and a property that are both null on one row; the operand-type-matrix worlds now end in an all-null vertex that is its own first e0 neighbour, so every cell with two nullable operands meets null/null in all three tag placements (first run kept as first_run_C09.log)",
    "C21-2": "first run missed it: no generated world recursed from a strict subtype of the interface that declares the edge; a directed world family was added (see mutcheck_C21.log)",
}


def verdicts(d):
    out = {}
    for f in sorted(glob.glob(os.path.join(d, "mutcheck*.log"))):
        m = re.search(r"mutcheck_(C\d\d)\.log$", f)
        prop = m.group(1) if m else os.path.basename(d)[:3]
        txt = open(f, errors="replace").read()
        vio = re.findall(r"^VIOLATION property=(C\d\d) replay=\S+( no-failing-input-found)?", txt, re.M)
        ok = re.search(r"^OK property=", txt, re.M)
        keys = sorted(set(re.findall(r"^# oracle failure (\S+)", txt, re.M)))[:4]
        if vio:
            nf = all(v[1] for v in vio)
            out[prop] = "VIOLATION" + (" (no-failing-input-found: correspondence/proof obligation broke)" if nf else "") + (
                " keys=" + ",".join(keys) if keys else "")
        elif ok:
            out[prop] = "missed (check exited 0)"
        else:
            out[prop] = "no verdict (see log)"
    return out


rows = []
for d in sorted(glob.glob(os.path.join(SEEDED, "C??-?"))):
    sid = os.path.basename(d)
    desc = DESC.get(sid, {})
    conf = {}
    if os.path.exists(os.path.join(d, "confirm.json")):
        try:
            conf = json.load(open(os.path.join(d, "confirm.json")))
        except Exception:
            conf = {"error": "confirm.json unreadable"}
    v = verdicts(d)
    demo = [f for f in ("demo.rs", "demo.py") if os.path.exists(os.path.join(d, f))]
    meta = {
        "id": sid,
        "property": sid[:3],
        "what": desc.get("what", ""),
        "why_breaks": desc.get("why_breaks", ""),
        "needs": desc.get("needs", ""),
        "demonstration": {"file": demo[0] if demo else None, "command": desc.get("demo_command", "")},
        "found_by": "fresh sub-agent given only the property text and a private scratch worktree of /repo (nothing from /verif)",
        "confirmation": conf,
        "ran": [
            "confirm_seed.sh in the scratch worktree: patch applies; the crate's own test-suite passes with it; the demonstration fails with it and passes without it (logs: suite_with.log, demo_with.log, demo_without.log)",
        ] + [f"./mutcheck seeded/{sid}/patch.diff {p}  ->  {r}" for p, r in v.items()],
        "detected_by": [p for p, r in v.items() if r.startswith("VIOLATION")],
        "missed_by": [p for p, r in v.items() if r.startswith("missed")],
    }
    if sid in STRENGTHENED:
        meta["note"] = STRENGTHENED[sid]
    at = APPLIES.get(sid)
    if at:
        meta["patch_applies_to"] = at if at != HEAD else f"{at} (= /repo HEAD when this file was written)"
        if at != HEAD:
            meta["patch_note"] = (f"patch.diff applies to /repo commit {at} and earlier: a later `fix:` commit rewrote the function it edits "
                                  "(the F-10 repair in frontend/tags.rs, or the F-23/F-29 repair in compute_fold); the verdicts above were obtained on the tree the seed was written for")
    if os.path.exists(os.path.join(d, "patch.orig.diff")):
        meta["patch_rebased"] = "patch.diff was rebased onto a later /repo HEAD with git apply --3way; the adversary's original is patch.orig.diff"
    json.dump(meta, open(os.path.join(d, "meta.json"), "w"), indent=1)
    rows.append(meta)

with open(os.path.join(SEEDED, "CATCHES.md"), "w") as f:
    f.write("| seed | change (short) | needs | confirmed | caught by | missed by | note |\n|---|---|---|---|---|---|---|\n")
    for m in rows:
        c = m["confirmation"]
        okc = "yes" if c.get("demo_fails_with_change") and c.get("suite_passes_with_change") and c.get("demo_passes_without_change") else "NO"
        short = lambda s, n: (s[:n] + "…") if len(s) > n else s
        f.write("| {} | {} | {} | {} | {} | {} | {} |\n".format(
            m["id"], short(m["what"].replace("|", "/").replace("\n", " "), 160), short(m["needs"].replace("|", "/").replace("\n", " "), 140), okc,
            ", ".join(m["detected_by"]) or "—", ", ".join(m["missed_by"]) or "—", short(m.get("note", ""), 200)))
caught = sum(1 for m in rows if m["detected_by"])
own = sum(1 for m in rows if m["property"] in m["detected_by"])
print(f"{len(rows)} seeds; caught by some check: {caught}; caught by the check of their own property: {own}")
for m in rows:
    if not m["detected_by"]:
        print("  NOT CAUGHT:", m["id"], m["missed_by"])
    elif m["property"] not in m["detected_by"]:
        print("  not by own check:", m["id"], "caught by", m["detected_by"])
