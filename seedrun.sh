#!/bin/sh
# seedrun.sh <worktree> <PROP> <n> [demo cargo args]: mutcheck + independent confirmation of one seeded change
WT="$1"; P="$2"; N="$3"; EXTRA="$4"
mkdir -p /verif/seeded/$P-$N
cd /verif && ./mutcheck "$WT/seed_${P}_$N.diff" "$P" > /verif/seeded/$P-$N/mutcheck.log 2>&1
echo "mutcheck rc=$?" >> /verif/seeded/$P-$N/mutcheck.log
/verif/confirm_seed.sh "$WT" "$P" "$N" "$EXTRA" > /verif/seeded/$P-$N/confirm.log 2>&1
echo "$P-$N: $(grep -E '^(OK|VIOLATION|mutcheck)' /verif/seeded/$P-$N/mutcheck.log | head -3 | tr '\n' ' ') | $(cat /verif/seeded/$P-$N/confirm.json 2>/dev/null)"
