#!/bin/sh
# seedrun.sh <worktree> <PROP> <n> [demo cargo args] [props to check, default <PROP>]
# mutcheck (for each listed property) + independent confirmation of one seeded change
WT="$1"; P="$2"; N="$3"; EXTRA="$4"; PROPS="${5:-$P}"
D=/verif/seeded/$P-$N; mkdir -p $D
for Q in $PROPS; do
  (cd /verif && ./mutcheck "$WT/seed_${P}_$N.diff" "$Q" > $D/mutcheck_$Q.log 2>&1; echo "mutcheck rc=$?" >> $D/mutcheck_$Q.log)
done
/verif/confirm_seed.sh "$WT" "$P" "$N" "$EXTRA" > $D/confirm.log 2>&1
for Q in $PROPS; do echo "$P-$N vs $Q: $(grep -E '^(OK|VIOLATION|mutcheck)' $D/mutcheck_$Q.log | head -2 | cut -c1-140 | tr '\n' ' ')"; done
echo "$P-$N confirm: $(cat $D/confirm.json 2>/dev/null)"
