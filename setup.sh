#!/bin/sh
# Build the framework from files on disk only (offline): the theorem modules, drivers and harness
# binaries of every claimed check (cfg/C*.json). Work-in-progress files of unclaimed properties are
# not built here.
set -e
cd /verif
MODS=$(python3 -c "from checkcfg import PROPS; print(' '.join(sorted({c['props_module'] for c in PROPS.values()})))")
DRIVERS=$(python3 -c "from checkcfg import PROPS; print(' '.join(sorted({c['driver'] for c in PROPS.values()})))")
BINS=$(python3 -c "from checkcfg import PROPS; print(' '.join('--bin '+b for b in sorted({c['harness_bin'] for c in PROPS.values()})))")
for pre in $(python3 -c "
from checkcfg import PROPS
import json
for c in PROPS.values():
    if c.get('lean_pre'): print(json.dumps(c['lean_pre']))
" | sort -u | tr ' ' '\037'); do
  echo "lean_pre: $pre" | tr '\037' ' '
  python3 -c "import json,subprocess,sys; subprocess.run(json.loads(sys.argv[1]), cwd='/verif', check=False)" "$(echo "$pre" | tr '\037' ' ')"
done
(cd lean && lake build $MODS $DRIVERS)
(cd harness && CARGO_NET_OFFLINE=true cargo build --offline $BINS)
