#!/bin/sh
# Build the framework from files on disk only (offline): Lean library (all theorems), every driver
# and harness binary that a claimed check uses.
set -e
cd /verif
DRIVERS=$(python3 -c "from checkcfg import PROPS; print(' '.join(sorted({c['driver'] for c in PROPS.values()})))")
BINS=$(python3 -c "from checkcfg import PROPS; print(' '.join('--bin '+b for b in sorted({c['harness_bin'] for c in PROPS.values()})))")
(cd lean && lake build TrustfallModel $DRIVERS)
(cd harness && CARGO_NET_OFFLINE=true cargo build --offline $BINS)
