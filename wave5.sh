#!/bin/sh
# wave5.sh <PROP> ["props to check"]   -- process one wave-5 seeded change from /tmp/seed5-<PROP>
# (merge its description, mutcheck against the listed properties, independent confirmation)
P="$1"; PROPS="${2:-$P}"; WT=/tmp/seed5-$P; N=5
[ -f "$WT/seed_${P}_$N.diff" ] && [ -f "$WT/demo_${P}_$N.rs" ] || { echo "missing deliverables in $WT"; exit 2; }
python3 - "$P" "$N" "$WT" <<'PY'
import json,sys,fcntl
p,n,wt=sys.argv[1:4]
f="/verif/seeded/seed_descriptions.json"
with open(f,"r+") as h:
    fcntl.flock(h,fcntl.LOCK_EX)
    d=json.load(h)
    try: desc=json.load(open(f"{wt}/desc_{p}_{n}.json"))
    except Exception as e: desc={"what":"(description file missing)","why_breaks":"","needs":"","demo_command":""}
    d[f"{p}-{n}"]=desc
    h.seek(0); h.truncate(); json.dump(d,h,indent=1,ensure_ascii=False); h.write("\n")
PY
mkdir -p seeded/reports; cp "$WT/desc_${P}_$N.json" seeded/reports/${P}-$N.desc.json 2>/dev/null
MUT_SLOT=w5$P ./seedrun.sh "$WT" "$P" "$N" "--features __private" "$PROPS"
